from props import COMMON_TRUST


def conf_nontrivial(tok, res):
    op = tok[0]
    if op == "rt":
        # a reconstruction that carried at least one non-zero typed value
        return res.startswith("ok") and res.count("=z") < res.count("=") - 3
    if op in ("prs", "prn", "pair", "bw"):
        return res.startswith("ok ") or res == "err"
    if op == "dom":
        return res != "ok" or tok[3] != "-"
    if op in ("fmt", "load", "sload", "sx", "cx", "dfl", "env"):
        return True
    if op == "fl":
        # argv that was parsed (some flag took effect) or refused
        return res == "err" or len(tok) > 3
    if op == "cf":
        return res.startswith("ok") and len(tok) > 6
    if op in ("cval", "sval", "svalv", "ccval", "nr", "bweq", "pload", "own", "ty"):
        return True
    return op in ("prstr", "prrt", "tmpl", "port")


def conf_class(r):
    if r.startswith("seq="):
        a, _, b = r[4:].partition(" conc=")
        return "each load its own verdict" if a == b else "verdicts deviate"
    if r.startswith("acc "):
        return "accepted" + (", server " + r.split(" srv=")[1].split(" ")[0] if " srv=" in r else "")
    if r.startswith("ok"):
        return "ok"
    if r.startswith("err"):
        return r.split(" ")[0][:14]
    if r.startswith("x"):
        return "str"
    return " ".join(r.split(" ")[:2])[:28]


def confcmd_nontrivial(tok, res):
    # the processes ran (or were refused) and something was observed of both
    return tok[0] in ("xc", "xs") and " // " in res and "none=b1" not in res


def confcmd_class(r):
    parts = r.split(" // ")
    if len(parts) != 3:
        return "malformed"
    if parts[0] != parts[1]:
        return "flags and file differ"
    if parts[0].startswith("rej="):
        return "refused by validation (both)"
    if "timeout=" in parts[0]:
        return "timeout"
    if "login=s6e6f" in parts[0]:
        return "ran, login refused (both)"
    return "ran, same behaviour (both)"


PROP = {
        "level": "proof",
        "gens": ["ProxyMsg", "Flags", "TypedConf", "CmdWire"],
        "extra_targets": ["Frp.Props.C18Cmd", "Frp.Props.C18Type"],
        "theorems": [
            "Frp.C18.tables_ok", "Frp.C18.tables_covered", "Frp.C18.marshal_fields_exact",
            "Frp.C18.recon_shape", "Frp.C18.types_exact", "Frp.C18.complete_get",
            "Frp.C18.roundtrip",
            "Frp.C18.roundtrip_tcp", "Frp.C18.roundtrip_udp", "Frp.C18.roundtrip_http",
            "Frp.C18.roundtrip_https", "Frp.C18.roundtrip_tcpmux", "Frp.C18.roundtrip_stcp",
            "Frp.C18.roundtrip_xtcp", "Frp.C18.roundtrip_sudp",
            "Frp.C18.norm_mode_id", "Frp.C18.norm_other_id",
            "Frp.C18.rtHoldsOn_sound", "Frp.C18.model_rtHoldsOn",
            "Frp.C18.validatePort_iff", "Frp.C18.subdomain_ok",
            "Frp.C18.domain_witness", "Frp.C18.domain_full_fails",
            "Frp.C18.domain_outside_partial", "Frp.C18.domain_outside_fixed",
            "Frp.C18.domainHoldsOn_sound", "Frp.C18.domain_outside_current",
            "Frp.C18.parseRange_printRange", "Frp.C18.ports_roundtrip", "Frp.C18.ports_empty_not_roundtrip",
            "Frp.C18.printHoldsOn_sound", "Frp.C18.model_printHoldsOn", "Frp.C18.trim_idem",
            "Frp.C18.bw_reparse", "Frp.C18.bwHoldsOn_sound", "Frp.C18.norm_bw_id", "Frp.C18.pair_spec",
            "Frp.C18.numbersPiece_span", "Frp.C18.numbersPiece_single", "Frp.C18.model_rtRangesHoldsOn",
            "Frp.C18.flags_documented", "Frp.C18.flag_names_unique", "Frp.C18.flag_lookup_documented",
            "Frp.C18.sent_fields_bound", "Frp.C18.flag_sets_bound_field", "Frp.C18.flag_default_mismatches",
            "Frp.C18.dashboard_tls_flag_witness", "Frp.C18.dashboard_tls_flag_fixed", "Frp.C18.flHoldsOn_sound", "Frp.C18.typed_unmarshal_shape",
            "Frp.C18.visitor_types_exact", "Frp.C18.visitor_steps_expected", "Frp.C18.visitor_steps_indep",
            "Frp.C18.visitor_complete_closed", "Frp.C18.visitor_name", "Frp.C18.visitor_bind_addr",
            "Frp.C18.visitor_server_name", "Frp.C18.xtcp_visitor_defaults", "Frp.C18.visitor_other_fields",
            "Frp.C18.proxy_complete_get", "Frp.C18.cfHoldsOn_sound", "Frp.C18.model_cfHoldsOn_visitor",
            "Frp.C18.model_cfHoldsOn_proxy", "Frp.C18.client_accept", "Frp.C18.visitor_accept",
            "Frp.C18.server_accept", "Frp.C18.model_clientHoldsOn", "Frp.C18.model_visitorHoldsOn",
            "Frp.C18.model_serverHoldsOn",
            "Frp.C18.client_base_blocks", "Frp.C18.client_accept_iff_blocks", "Frp.C18.client_blocks_indep",
            "Frp.C18.health_block_none", "Frp.C18.plugin_block_none",
            "Frp.C18.load_section_held", "Frp.C18.strict_every_level", "Frp.C18.strict_verdict_own",
            "Frp.C18.strict_unheld_witness", "Frp.C18.strictHoldsOn_sound",
            "Frp.C18.proxy_complete_idem", "Frp.C18.visitor_complete_idem", "Frp.C18.visitor_complete_twice_witness",
            "Frp.C18.web_blocks", "Frp.C18.web_accept_iff_blocks", "Frp.C18.web_port_checked",
            "Frp.C18.server_accept_iff_blocks", "Frp.C18.clientcommon_accept_iff_blocks",
            "Frp.C18.clientcommon_accept", "Frp.C18.model_clientCommonHoldsOn",
            "Frp.C18.own_config_tls_effective", "Frp.C18.own_config_addr_effective", "Frp.C18.ownRegs_tls_effective",
            "Frp.C18.shared_config_tls_witness", "Frp.C18.shared_config_only_last",
            "Frp.C18.frpc_subcommands_own_config", "Frp.C18.frpc_flags_bound_to_run_objects",
            "Frp.C18.frpc_tls_flag_effective", "Frp.C18.frpc_addr_flags_effective", "Frp.C18.frpc_subcommand_types",
            "Frp.C18.frpc_run_steps_expected", "Frp.C18.frps_flags_reach_run", "Frp.C18.cmdHoldsOn_sound",
            "Frp.C18.model_cmdHoldsOn", "Frp.C18.serverSpec_rej_iff", "Frp.C18.serverSpec_web_port",
            "Frp.C18.clientSpec_rej_of_invalid", "Frp.C18.wire_follows_tls_flag", "Frp.C18.wire_tls_distinct",
            "Frp.C18.new_by_type_shape", "Frp.C18.proxy_load_iff", "Frp.C18.visitor_load_iff",
            "Frp.C18.proxy_load_type_exact", "Frp.C18.visitor_load_type_exact", "Frp.C18.accepted_proxy_roundtrip",
            "Frp.C18.type_sent", "Frp.C18.unlisted_type_refused", "Frp.C18.folding_selection_witness",
            "Frp.C18.upper_case_refused", "Frp.C18.tyProxyHoldsOn_sound", "Frp.C18.model_tyProxyHoldsOn",
            "Frp.C18.tyVisitorHoldsOn_sound", "Frp.C18.model_tyVisitorHoldsOn",
        ],
        "engines": [
            {"name": "conf", "quick_n": 12000, "thorough_n": 60000, "thorough_seeds": 5,
             "nontrivial": conf_nontrivial, "result_class": conf_class},
            {"name": "confcmd", "quick_n": 40, "thorough_n": 200, "thorough_seeds": 3,
             "nontrivial": confcmd_nontrivial, "result_class": confcmd_class},
        ],
        "rule": "conf engine: generated typed proxy configs (all eight types; unicode, empty vs nil lists/maps, "
                "boundary numbers, bandwidth literals, both modes, with and without the JSON wire) through the real "
                "MarshalToMsg and NewProxyConfigurerFromMsg; range / bandwidth literals incl. a malformed stream; "
                "ports; domain validation with mixed-case names; TOML/YAML/JSON renderings and templated documents "
                "(differential). One logical proxy / visitor definition (k=v list) through six real paths — in memory, "
                "TOML / YAML / JSON / legacy INI files on disk via LoadClientConfig (strict on/off), MarshalJSON→UnmarshalJSON of "
                "Typed{Proxy,Visitor}Config, generated argv on a cobra command carrying the real Register*Flags — "
                "each followed by the real Complete and compared with the interpreted Complete tables; raw argv "
                "(all value kinds, both word separators, shorthands, repeated / unknown / malformed flags, ssh mode) "
                "on the proxy, visitor and server commands against the regenerated registration table; flag "
                "defaults against file defaults; whole client / server documents with includes, start filter, "
                "environment values and number-range templates through LoadClientConfig / LoadServerConfig "
                "(differential against the in-memory path); server and client-common settings as argv against the "
                "three file formats; client-side, visitor and server validators — the blocks of a proxy definition (name, "
                "transport, local address, health check incl. types outside the allowed set, plugin of every type with / "
                "without the option it needs, the type's own fields) generated independently of each other, for all eight "
                "types; parseNumberRange; BandwidthQuantity.Equal; `pload`: 2–5 loads of large client documents (30–300 "
                "proxies, plugin blocks, visitors; TOML / YAML / JSON; an unknown key at no / the top / proxy / plugin / "
                "visitor / visitor-plugin level, first / middle / last element) through the real LoadConfigure, each alone "
                "and then all overlapping in separate goroutines with mixed strictness, every verdict compared with "
                "strict_verdict_own; `own`: a document loaded twice by LoadClientConfig is deeply equal, Complete applied "
                "once more changes nothing, and the configuration handed to a real client proxy.Manager (wrappers, "
                "health monitors started) is afterwards still what the loader produced; `svalv` / `ccval`: the blocks of a "
                "server / client-common definition (auth method, scopes, log level, web server TLS pair present / "
                "complete / incomplete, web server port, six port fields, heartbeat pair, transport protocol) generated "
                "independently of each other through memory, the three file formats (LoadServerConfig / LoadClientConfig) "
                "and argv, judged by the real ValidateServerConfig / ValidateClientCommonConfig; `ty`: one valid proxy "
                "(all eight types, every server-relevant field present or absent on its own) or visitor definition whose "
                "`type` is spelled as documented / in other letter cases / with surrounding or embedded white space and "
                "invisible characters / with Cyrillic, Greek, full-width look-alikes, long s, combining marks / as a "
                "neighbouring name (suffixes, separators, names of the other family) / absent / a number, in TOML, YAML, "
                "JSON (main file or an included one) and the legacy INI format (own parser and type table, judged by the "
                "predicate only; the documented spelling must be accepted), strict on / off, through the real LoadClientConfig and "
                "ValidateAllClientConfig; on every ACCEPTED document the predicate tyProxyHoldsOn / tyVisitorHoldsOn is "
                "evaluated on the implementation's own result: the loaded Type is byte for byte in the regenerated list, "
                "the typed wrapper and the Go struct agree with it, and the real MarshalToMsg → JSON wire → the real "
                "NewProxyConfigurerFromMsg succeeds with every server-relevant field equal. "
                "confcmd engine: cmd/frpc and cmd/frps are BUILT from the tree under check and run as processes: one "
                "definition as `frpc <type> [visitor] --flags` and as `frpc -c file` (every common flag on each of the "
                "eight proxy and three visitor sub-commands, then random definitions, all five protocols) against "
                "recording fronts (address, port, first bytes incl. inside an outer TLS session, SNI) and a real frps "
                "with a server plugin (user, token, login verdict, the NewProxy message), log level / colour / file, "
                "visitor bind port; one server definition as `frps --flags` and `frps -c file` (every flag; dashboard "
                "port out of range × TLS section absent / complete / incomplete; random blocks) observed through "
                "/api/serverinfo, listeners per loopback address, dashboard TLS / auth, /metrics and three real frpc "
                "runs (token, tls_only, allow_ports, proxy_bind_addr); `verify -c` on the same file. Both processes "
                "must behave the same and as CmdSpec demands. Non-trivial = reconstruction carrying several non-zero fields, a parse that "
                "succeeded or was refused, a domain verdict with at least one custom domain, any loader / flag / "
                "validator op; distinct = distinct (op line, result) pairs",
        "trusted": COMMON_TRUST + [
            "translator /verif/translate (gen_proxymsg.go, go/ast): the statement shapes it accepts are listed in "
            "its source; anything else aborts the run as a broken tie. Lean file Frp/Gen/ProxyMsg.lean is "
            "regenerated from pkg/config/v1/proxy.go, pkg/msg/msg.go, pkg/config/types/types.go, pkg/config/load.go "
            "on every run",
            "hand-written expectation Frp.C18.serverFields (which configuration fields the server acts on, per type)",
            "hand-written models Frp/Model/ConfNum.lean (ParseInt/Itoa/TrimSpace ASCII, port ranges, range numbers, "
            "bandwidth quantity) and Frp/Model/Validate.lean (server-side, client-side, visitor and server "
            "validators), tied by the conf engine",
            "translators gen_flags.go (every flag registration of pkg/config/flags.go: name, shorthand, bound field "
            "path, kind, default, ssh-mode guard, persistence; WordSepNormalizeFunc; the Set bodies of the three flag "
            "value types are recognised verbatim) and gen_typedconf.go (visitorConfigTypeMap, the visitor Complete "
            "statements, the statement sequences of Typed{Proxy,Visitor}Config.UnmarshalJSON/MarshalJSON): statement "
            "shapes listed in the sources, anything else aborts the run as a broken tie; round 5: the statement "
            "sequences of New{Proxy,Visitor}ConfigurerByType (the type map indexed with the argument itself, the argument "
            "stored in Type) and the json key of {Proxy,Visitor}BaseConfig.Type",
            "hand-written model Frp/Model/TypeDispatch.lean: an interpreter of the regenerated statements of "
            "New…ConfigurerByType and Typed…Config.UnmarshalJSON over an abstract document (null / type key absent, a "
            "string, not a string / body decodes or not); that encoding/json's Decode writes the document's `type` into "
            "the field tagged with that key is the model's reading of the decoder (tied by the `ty` op); "
            "Frp.C18.expNewByType",
            "hand-written expectations Frp.C18.expProxyBase/expDomain/expProxyTyped/expVisitor/expClient/expServer "
            "(the documented flags), Frp.C18.flagOfField, Frp.C18.fileDefaults, Frp.C18.expVisitorSteps, "
            "Frp.C18.proxySpec, Frp.C18.expUnmarshal",
            "translator gen_typedconf.go, LoadConfigure part: the events on v1.DisallowUnknownFieldsMu / "
            "v1.DisallowUnknownFields in execution order (same-file helpers inlined, deferred unlock placed where it "
            "runs; any other use of the switch in pkg/config/load.go aborts the run) — theorem load_section_held "
            "compares them with lock, write, decode, unlock",
            "hand-written model Frp/Model/StrictLoad.lean of sync.Mutex (a blocked Lock is a stuttering step) and of "
            "which decoder reads the local strict argument (top level) and which the package-level switch (every "
            "nested Typed….UnmarshalJSON; tied by TypedConf's .strictSwitch step and by the `pload` op)",
            "translator gen_cmdwire.go (cmd/frpc/sub/proxy.go init(): which object each New…Command / Register…Flags "
            "call receives and whether it is declared inside the per-type loop; proxyTypes, visitorTypes; the source "
            "text of the statements of the two Run closures and of frps' init() / RunE; statement shapes listed in "
            "the source, anything else aborts the run as a broken tie)",
            "hand-written model Frp/Model/CmdWire.lean of how pflag binds a flag (by address of a config field; "
            "`tls_enable` by storing the flag set's own bool into the config) and of cobra parsing only the running "
            "command's flag sets; hand-written Frp/Model/CmdSpec.lean (what a frpc / frps process started from a "
            "definition must be observed doing), tied by the confcmd engine",
            "the recording fronts, the in-process frps with its HTTP plugin and the probes of harness/eng_confcmd.go "
            "(Go, TLS termination by crypto/tls)",
            "hand-written model Frp/Model/Flags.lean of spf13/pflag's value syntax and argv forms for the flag "
            "kinds frp uses (third-party code; tied by the `fl` op, values outside the modelled fragment are skipped)",
        ],
        "assumptions": [
            "generic record model: fields are untyped values; Go's static typing of msg.NewProxy / the config structs is not modelled",
            "strconv.ParseFloat is modelled for plain decimals with at most 9 digits; other literals are counted and skipped",
            "TrimSpace / ToLower are modelled for ASCII; non-ASCII range strings are counted and skipped",
            "the agreement of the TOML, YAML and JSON loaders, which keys a strict load counts as unknown, includes, the start filter and "
            "text/template rendering are differential tests of the real loaders and third-party parsers (ops fmt, "
            "tmpl, load, sload, sx, cx) and field-by-field comparisons with the Complete model (op cf), not "
            "covered by any theorem about the parsers themselves",
            "flags: CSV quoting, non-decimal integer literals and bare non-boolean flags that are not last are "
            "outside the pflag model (counted, skipped); nil and empty collections are one value on the flag and "
            "JSON-marshal paths",
            "legacy INI configuration files (pkg/config/legacy): only one proxy / visitor section and the [common] "
            "keys that have flags, with INI-safe values, are compared with the other paths (ops cf via=ini, sx, cx); "
            "the legacy parser's own range expansion, includes and plugin parameters are not covered; non-positive "
            "xtcp visitor numbers (replaced by defaults in the legacy parser, by design) are not generated",
            "client plugin options beyond type / localAddr / localPath / unixPath and health-check headers are never set "
            "in generated definitions for the validators",
            "overlapping loads: goroutine schedules are whatever the Go runtime produces in 5–9 repetitions per load "
            "(not enumerated); the theorem covers all interleavings of the modelled events, the op samples real ones",
            "`own` hands the configuration to client/proxy.Manager only (visitor.Manager and the server side are C19's)",
            "annotation keys are generated valid only (k8s IsQualifiedName is not modelled)",
            "`ty`: document keys are written as documented (encoding/json would also match `Type`, `TYPE`; duplicate keys "
            "are not generated); the legacy INI format has its own type table (pkg/config/legacy), which is not modelled: "
            "there the op only evaluates the predicate on accepted documents and demands that the documented spelling is "
            "accepted; an INI section without `type` (documented default tcp) loads with an empty Type — the case the "
            "round-trip theorem excludes by hypothesis, predicate n/a; visitors have no server-side reconstruction, only "
            "the type clauses are evaluated for them",
            "running commands: log_max_days, dns_server, vhost_http_timeout and the visitor's own flags beyond the bind "
            "address are given but have no observable in a short run (they are covered by the in-process flag ops); "
            "TLS inside kcp / quic is not looked into; ValidateClientCommonConfig's feature-gate and include-directory "
            "checks and its TLS-file warnings are outside the model (never generated)",
        ],
    }

META = {
        "engine": "lean+translate(ProxyMsg,Flags,TypedConf,CmdWire)+harness(conf,confcmd)",
        "design_ref": "DESIGN.md §6 C18, §7 item 13",
        "technique": "Lean 4 theorems over marshal/unmarshal assignment tables, flag registration tables and "
                     "Complete / UnmarshalJSON statement tables regenerated from the Go source (go/ast translators) + "
                     "proved textual round trips + differential correspondence with the real MarshalToMsg / "
                     "NewProxyConfigurerFromMsg / LoadClientConfig / LoadServerConfig / Register*Flags / parsers / validators",
        "text": "Proof (partial): for each of the eight proxy types and every configuration record, interpreting the "
                "assignment statements of MarshalToMsg and then of NewProxyConfigurerFromMsg (UnmarshalFromMsg, "
                "Complete) as they stand in the source now yields, on every field the server acts on, the client's "
                "value up to two stated normalisations (bandwidth text re-parse, empty mode = client). Accepted "
                "domain configurations lie outside the subdomain host for lower-case names; for mixed case the "
                "negation is proved (finding C18-domain-case, repaired by 4587203) together with the theorem for the repaired check. "
                "Every documented flag is registered with the documented shorthand, bound field, kind and default; "
                "names, shorthands and bound fields are unique on every command; every field MarshalToMsg sends has "
                "its documented flag bound to it or no flag at all; flag defaults equal file defaults except four "
                "recorded ones; `--dashboard_tls_mode` never takes effect (witness theorem, recorded finding). "
                "Visitor and proxy defaults after Complete are given in closed form for every record; "
                "Typed{Proxy,Visitor}Config.UnmarshalJSON have the expected statement sequence; definitions accepted "
                "by the client-side, visitor and server validators satisfy the documented constraints; client validation "
                "is exactly the conjunction of independent block validators (name, transport, local address, health "
                "check, plugin options, type fields), so the health check is judged with or without a plugin. Any "
                "number of overlapping LoadConfigure calls (regenerated lock / write / decode / unlock events), in "
                "every interleaving: each finished load has rejected its document exactly when it is strict and the "
                "document has an unknown key at some level; the negation is proved for a decode outside the mutex. "
                "Complete applied to a completed proxy definition (any user), or to a completed visitor definition "
                "without serverUser, changes no field; with serverUser it does (witness), so only the loader may apply it. "
                "The loader's type dispatch (regenerated statements of New…ConfigurerByType and of the two UnmarshalJSON, "
                "interpreted) accepts an element exactly when its `type` is byte for byte in the regenerated list; then the "
                "configurer's own Type (which the decoder overwrites with the spelling as written), the wrapper's Type and "
                "the selected struct agree, and for every configuration record carrying that Type the server round trip "
                "is the identity on the server-relevant fields; a Type outside the list is refused by the server, and a "
                "selection that folds the spelling first provably accepts `TCP` and breaks all three (witness). "
                "Server and client-common validation are exactly the conjunction of their blocks; the web server (frps "
                "dashboard, frpc admin API) is accepted iff its TLS pair block and its port block both are, so an "
                "accepted port is in 0..65535 with or without a webServer.tls section. Every `frpc <type>` / `<type> "
                "visitor` sub-command is wired to its own configuration objects (regenerated from init()), which in the "
                "model of pflag binding makes every flag incl. `--tls_enable` effective (one shared object provably "
                "loses it on all but the last command); the Run closures and frps RunE complete, validate and start "
                "with the registered object.",
        "note": "Trusted: Lean kernel, the translators' statement-shape recognisers, the hand-written lists of "
                "server-relevant fields, documented flags and defaults, the numeric/validation/pflag models (tied by "
                "12k generated ops + ~65 pairs of real frpc / frps processes per quick run). Not covered by theorems: the three file-format parsers, what "
                "counts as an unknown key, includes, template rendering (differential only); the legacy INI parser beyond single sections.",
    }
