from props import COMMON_TRUST


def nontrivial(tok, res):
    if tok[0] in ("freq", "fh2c"):
        return res.startswith("be=") and not res.startswith("be=-")
    if tok[0] in ("req", "treq"):
        return res.startswith("be=") and not res.startswith("be=-")
    if tok[0] in ("ws", "connect", "tws", "tconnect", "h2c"):
        return "up=" in res
    if tok[0] == "silent":
        return True
    if tok[0] == "ereq":
        return " ans=ok" in res
    if tok[0] == "plug":
        return res.startswith("m=")
    return False


def result_class(r):
    import re
    if " ans=" in r:
        m = re.search(r" st=(\d+)", r)
        a = re.search(r" ans=(\w+) c100=(\d)", r)
        return "err:%s:%s ans=%s c100=%s" % ("noroute" if " rt=- " in r else "route", m.group(1) if m else "?", a.group(1) if a else "?", a.group(2) if a else "?")
    if r.startswith("be=") and (" pre=" in r or " up=" in r and " ! st=" in r and " b=" in r and " fr=" not in r):
        # fault ops: who was reached, how the message ended at its final reader
        m = re.search(r" end=(\w+)", r)
        w = re.search(r" whole=(\d)", r)
        f = re.search(r" fr=(\w+)", r)
        return "fault:%s%s%s%s" % ("nobe" if r.startswith("be=-") else "be", " fr=" + f.group(1) if f else "",
                                   " end=" + m.group(1) if m else "", " whole=" + w.group(1) if w else "")
    if r.startswith("be="):
        m = re.search(r" st=(\d+)", r)
        be = "err" if r.startswith("be=-") else "fwd"
        m2 = re.search(r"be=(\S+) rt=(\S+)", r)
        own = ""
        if m2 and m2.group(1) != "-" and m2.group(1) != m2.group(2):
            own = ":noroute" if m2.group(2) == "-" else ":stale-owner"
        return "%s:%s%s" % (be, m.group(1) if m else "?", own)
    if r.startswith("m="):
        m = re.search(r" st=(\d+)", r)
        return "plugin:%s%s" % (m.group(1) if m else "?", "" if "582d466f727761726465642d466f72" in r.split(" ! ")[0] else ":no-xff")
    return r.split(" ")[0][:14]


def grp_nontrivial(tok, res):
    return tok[0] == "req" and res.startswith("be=") and not res.startswith("be=-")


def grp_class(r):
    import re
    if r.startswith("be="):
        m = re.search(r" ! st=(\d+)", r)
        m2 = re.search(r"be=(\S+) rt=(\S+)", r)
        who = "none" if r.startswith("be=-") else ("first" if m2 and m2.group(1) == m2.group(2) else "later-member")
        return "%s:%s" % (who, m.group(1) if m else "?")
    return r[:10]


def e2e_nontrivial(tok, res):
    if tok[0] == "hc":
        return ",ok" in res
    if tok[0] == "hl":
        return "probe=ok" in res
    if tok[0] == "hf":
        return res.startswith("be=") and not res.startswith("be=-")
    return tok[0] == "hx" and res.startswith("be=") and not res.startswith("be=-")


def e2e_class(r):
    # proxy of the lattice (kind/enc/comp/limiter) x how the user's read ended x body beyond one small burst
    if r.startswith("u0="):
        # a concurrent round: kinds x useCompression of its users, how many users, did every exchange end ok
        exs = [e.split(",") for u in r.split(";") for e in u.split("=", 1)[1].split("+")]
        kinds = sorted({"%s%s" % (e[0].split("/")[0], "+comp" if e[0].split("/")[2:3] == ["1"] else "") for e in exs if e[0] != "-"})
        n = len(r.split(";"))
        return "%s users=%s %s" % (",".join(kinds) or "-", "2-4" if n <= 4 else "5-8", "ok" if all(e[-1] == "ok" for e in exs) else "NOT-OK")
    if r.startswith("open="):
        kv = dict(x.split("=", 1) for x in r.split(";"))
        n = int(kv["open"])
        return "held=%s probe=%s %s" % ("1-8" if n <= 8 else "9-16" if n <= 16 else "17-24", kv["probe"],
                                         "all-ended" if kv["open"] == kv["fin"] and kv["bad"] == "0" else "NOT-ALL-ENDED")
    if not r.startswith("be="):
        return r[:20]
    kv = dict(x.split("=", 1) for x in r.split(";") if "=" in x)
    if "uw" in kv:
        # fault op: proxy kind, did the request arrive whole, how the answer ended at the user
        return "%s uw=%s st=%s dfr=%s end=%s" % (kv["be"].split("/")[0], kv["uw"], "0" if kv["st"] == "0" else ("err" if kv["tag"] == "-" else "be"), kv["dfr"], kv["end"])
    big = lambda v: v not in (None, "-") and int(v.split(".")[0]) > 8192
    return "%s end=%s%s%s" % (kv.get("be"), kv.get("end"), " up>burst" if big(kv.get("up")) else "", " down>burst" if big(kv.get("down")) else "")


PROP = {
    "level": "proof",
    "gens": ["CodecFacts", "HttpFacts"],
    "theorems": [
        "Frp.C02.request_line_body_untouched", "Frp.C02.host_spec", "Frp.C02.request_headers_preserved",
        "Frp.C02.configured_header_spec", "Frp.C02.configured_order_irrelevant", "Frp.C02.configured_dup_witness",
        "Frp.C02.xff_spec", "Frp.C02.xfh_spec", "Frp.C02.xfp_spec", "Frp.C02.forwarded_stripped", "Frp.C02.hop_removed",
        "Frp.C02.response_status_body", "Frp.C02.response_headers_preserved", "Frp.C02.response_configured",
        "Frp.C02.response_date_ctype_kept", "Frp.C02.errorMap_total", "Frp.C02.errorMap_timeout", "Frp.C02.errorMap_other",
        "Frp.C02.poolKey_injective", "Frp.C02.distinct_routes_distinct_keys", "Frp.C02.freshB_iff",
        "Frp.C02.pool_stale_owner_witness", "Frp.C02.pool_noroute_witness", "Frp.C02.pool_witnesses_fixed",
        "Frp.C02.pool_fresh_partial", "Frp.C02.step_fixed_inv", "Frp.C02.serve_fixed_fresh", "Frp.C02.pool_fresh_fixed",
        "Frp.C02.model_reqHolds", "Frp.C02.model_respHolds",
        "Frp.C02.plugin_headers_preserved", "Frp.C02.plugin_h2h_drops_forwarded", "Frp.C02.plugin_h2h_witness",
        "Frp.C02.plugin_copy_keeps_forwarded", "Frp.C02.plugin_tls_xff", "Frp.C02.model_plugHolds",
        "Frp.C02.headerTimeout_pos", "Frp.C02.streamed_exchange_complete", "Frp.C02.frp_streamed_exchange_complete",
        "Frp.C02.header_timeout_bounded", "Frp.C02.answer_backend_iff", "Frp.C02.ctx_deadline_cuts_stream",
        "Frp.C02.connect_tunnel_transparent", "Frp.C02.upgrade_tunnel_transparent", "Frp.C02.ctx_deadline_cuts_tunnel",
        "Frp.C02.timedHolds_frp",
        "Frp.C02.frp_upgrade_switches", "Frp.C02.upgrade_needs_hijacker", "Frp.C02.tunnelHolds_sound", "Frp.C02.tunnelHolds_model",
        "Frp.C02.httpServerLayer_eq", "Frp.C02.e2e_request_delivered", "Frp.C02.e2e_request_prefix",
        "Frp.C02.e2e_response_delivered", "Frp.C02.e2e_response_prefix", "Frp.C02.e2e_exchange_transparent",
        "Frp.C02.limited_write_whole", "Frp.C02.e2eHolds_sound", "Frp.C02.model_e2eHolds",
        "Frp.C02.codec_frp_safe", "Frp.C02.codec_exclusive", "Frp.C02.codec_own_stream", "Frp.C02.codec_own_stream_from",
        "Frp.C02.codec_frp_own_stream", "Frp.C02.codec_release_at_return_witness", "Frp.C02.codec_double_release_witness",
        "Frp.C02.codec_unsafe_breaks", "Frp.C02.roundHolds_sound", "Frp.C02.model_roundHolds",
        "Frp.C02.plugin_raw_serves_all", "Frp.C02.plugin_wrapped_serves_one", "Frp.C02.plugin_wrapped_keepalive_witness",
        "Frp.C02.codec_source_disc", "Frp.C02.codec_source_safe", "Frp.C02.codec_source_plugins_queue",
        "Frp.C02.abort_chain_faithful",
        "Frp.C02.upload_chain_faithful",
        "Frp.C02.abort_source_no_recover",
        "Frp.C02.frpEnv_propagates",
        "Frp.C02.abort_frp_faithful",
        "Frp.C02.abort_recovered_witness",
        "Frp.C02.abort_unfaithful_env_breaks",
        "Frp.C02.abort_cl_always_cut",
        "Frp.C02.abort_eof_indistinguishable",
        "Frp.C02.abortHolds_sound",
        "Frp.C02.model_abortHolds",
        "Frp.C02.limit_unlimited_forwards_all",
        "Frp.C02.limit_kth_concurrent_forwarded",
        "Frp.C02.limit_source_no_cap",
        "Frp.C02.limit_source_paths_uncapped",
        "Frp.C02.limit_source_paths_forward",
        "Frp.C02.limit_cap_blocks",
        "Frp.C02.longHolds_sound",
        "Frp.C02.group_route_by_all",
        "Frp.C02.group_route_by_eq_iff",
        "Frp.C02.group_source_fields",
        "Frp.C02.group_source_carries_all",
        "Frp.C02.group_source_route",
        "Frp.C02.grouping_transparent",
        "Frp.C02.grouping_member_independent",
        "Frp.C02.group_drops_rewrite_witness",
        "Frp.C02.groupHolds_sound",
        "Frp.C02.err_source_no_body_read",
        "Frp.C02.err_source_handler",
        "Frp.C02.err_answer_at_once",
        "Frp.C02.err_dialled_answer_at_once",
        "Frp.C02.waitFor_bound_any_tail",
        "Frp.C02.err_dialled_expect_waits_witness",
        "Frp.C02.err_answer_bound_any_tail",
        "Frp.C02.err_answer_by_end",
        "Frp.C02.err_drain_open_stream_hangs",
        "Frp.C02.err_drain_unbounded",
        "Frp.C02.errHolds_sound",
        "Frp.C02.err_classes_answered",
    ],
    "engines": [
        {"name": "http", "quick_n": 3000, "thorough_n": 12000, "thorough_seeds": 4,
         "nontrivial": nontrivial, "result_class": result_class, "search_seeds": 2, "search_n": 3000},
        {"name": "httpgrp", "quick_n": 600, "thorough_n": 3000, "thorough_seeds": 4,
         "nontrivial": grp_nontrivial, "result_class": grp_class, "search_seeds": 2, "search_n": 600},
        {"name": "httpe2e", "quick_n": 60, "thorough_n": 300, "thorough_seeds": 3,
         "nontrivial": e2e_nontrivial, "result_class": e2e_class, "search_seeds": 1, "search_n": 60, "reruns": 1},
    ],
    "rule": "http engine: a real vhost.HTTPReverseProxy behind a real http.Server on loopback; every route's CreateConnFn "
            "hands out a loopback TCP connection served by a recording raw HTTP/1.1 backend (exact request line, header "
            "lines, framing, body). Generated raw HTTP/1.1 traffic from three persistent user connections "
            "(127.0.0.2-4): 11 methods, percent-encoded paths, queries, multi-valued / mixed-case / 4-8 KiB / "
            "hop-by-hop / forwarding headers, bodies empty / Content-Length / chunked up to 260 KiB, origin-form and "
            "absolute-form, 17 status codes, answers with Content-Length / chunked / close-delimited framing, route "
            "configs with RewriteHost / Headers / ResponseHeaders, register / unregister / re-register overlap, "
            "unreachable and silent backends (ResponseHeaderTimeoutS=1), WebSocket upgrade, h2c upgrade (RFC 7540 3.2, answer read as "
            "HTTP/2 frames) and CONNECT tunnels, hosts "
            "spelling synthetic pool names, plus a malformed stream. TIMED exchanges (treq / tws / tconnect, about 30 "
            "per quick run, real sleeps): request bodies uploaded and answer bodies (cl / ch / eof) sent in 1-5 "
            "pieces with pauses, header block 0-300 ms or 1700 ms late, tunnels of 1-3 rounds with idle periods "
            "before / inside / between rounds; classes: whole exchange inside the 1 s header timeout, one phase alone "
            "longer than it (1.3-1.8 s), phases each shorter that add up to more. Their time lines are replayed on "
            "HttpTime.relay / upgrade / tunnel under frpLimits 1; timedHolds demands: backend reached, bodies byte for "
            "byte (len + FNV), the user's read ended at the end of the body, 504 only for a late header block. Non-trivial = a request or tunnel that reached a "
            "backend; distinct = distinct (op line, result). The Lean predicates reqHolds / respHolds / freshB are "
            "evaluated on what the backend and the user really received; for upgrade / h2c / CONNECT ops tunnelHolds demands: "
            "when a backend received the handshake (it records before it answers 101 / 200) the user gets that status and "
            "every tunnel byte of both directions, otherwise 404 + the not-found page. "
            "ERROR PATHS AGAINST A BODY IN FLIGHT (op ereq, 65-90 per quick run: every 70th op and two after every reset, "
            "fresh connection each): hosts without a route (none registered, a route that went away, a host the table does "
            "not cover) and a route whose CreateConnFn fails x request bodies none / small / Content-Length of which at "
            "least 256 KiB are still to come (nothing, one byte, a part, all but 256 KiB sent) / chunked stream that has "
            "delivered more than 256 KiB and stays open / large and complete / Expect: 100-continue (body only after a 100 "
            "Continue); the user withholds the rest and waits (2 s read deadline, event driven); Frp/Model/HttpErr.lean says "
            "when the answer is due (net/http's own post-handler read of at most 256 KiB + 1 bytes ASSUMED), errHolds demands "
            "404 + page inside the bound whenever the model says it comes; uploads net/http itself waits for are skipped. "
            "httpgrp engine: real vhost.Routers + HTTPReverseProxy + group.HTTPGroupController on the same Routers (the two "
            "registration paths of server/proxy/http.go), 600 ops per quick run: proxies without group, first and later "
            "members of 4 groups (wrong key / other domain / other credentials are refused), the first member leaving while "
            "the group goes on, every route option on its own and all together (hostHeaderRewrite, requestHeaders.set, "
            "responseHeaders.set, httpUser / httpPassword, locations, routeByHTTPUser), requests as in engine http with right / "
            "wrong / missing credentials; which member served is taken from the result; groupHolds demands: a live member of "
            "the route's group, reqHolds / respHolds for the options THAT MEMBER declared, credentials checked (401 exactly "
            "when they do not fit). "
            "httpe2e engine: a real frps (vhost HTTP port) + real frpc in one process, 2 transport configurations (tcpMux / TLS / "
            "pool on, all off), 38 proxies each: 20 plain http proxies useEncryption x useCompression x bandwidthLimit {none, 8KB "
            "server, 8KB client, 1MB server, 1MB client}, http proxies with the http2http and http2https client plugins and "
            "https proxies (vhost HTTPS port, routed by SNI) with the https2http and https2https plugins, each plugin x "
            "useEncryption x useCompression (+ 2 http2http with the 8KB client limiter), every proxy with its own recording raw "
            "HTTP/1.1 backend (behind TLS for the *2https plugins; answers tagged with the proxy key and the id of the "
            "exchange). 68 single exchanges (op hx) per quick run on a persistent user "
            "connection (work connections stay pooled between requests): GET / POST / PUT, request and answer bodies "
            "Content-Length / chunked / close-delimited, sizes 0 .. 1.2 MiB with the classes burst-1, burst, burst+1, "
            "1.2-2.6 bursts for the small limit (8192 < the 16 / 32 KiB copy buffers that feed limit.Writer) and above "
            "1 MiB for the large one, random / zero / mixed-run content, header block and body in ONE write or in 1000 / "
            "4096 / 16384-byte / random writes on either side; 8 fixed class representatives first (each limiter side with "
            "a body above the burst in one write, both framings, plugin, large limit, large unlimited). e2eHolds demands: "
            "the backend of the proxy named by Host got method, target and the body byte for byte (len + FNV-32a; bodies "
            "up to 24 bytes in full), the user got that backend's status and body, the read ended at the end of the body. "
            "A timeout alone is executed once more on a fresh connection before it counts; a truncated / different body, "
            "status or backend is never retried. No upper time bound is checked. CONCURRENT rounds (op hc, 40 per quick "
            "run, about 400 exchanges): 2-8 users at once, each on ITS OWN connection (TCP to the vhost HTTP port, TLS + SNI "
            "to the vhost HTTPS port), 1-3 exchanges back to back per connection, every exchange with its own id, request "
            "body (cl / ch, 1 B .. 70 KB) and answer body; classes: all users on ONE proxy (the first ten rounds walk over "
            "plain, http2http, http2https, https2http, https2https with useCompression on, then off), several proxies with "
            "the same useCompression, any mix; hold=1: the backends hold the first exchange of every user until all have "
            "arrived (event driven, bounded 1.5 s), so n work connections of the frpc are alive at the same moment; hold=0: "
            "free overlap; work connections of http proxies stay pooled in frps' Transport between rounds. roundHolds "
            "demands for EVERY exchange of EVERY user: the backend of the proxy its Host / SNI names got method, target and "
            "body, the user got that backend's status and body, complete, and the answer carries the id of THIS exchange. "
            "The Lean engine runs the round's schedule on CodecPool.run with the discipline READ FROM client/proxy/proxy.go "
            "(Gen.CodecFacts.disc), pool state carried from round to round, and predicts 'own answer' only while every "
            "Read / Write works on its own stream. A user whose only symptom is a timeout takes its result from ONE more "
            "execution of the whole round (same concurrency); a foreign / mixed-up / truncated answer is never retried. "
            "FAULT ops (hf, about 30 per quick run; first one answer fault per kind): the same faults d / q / u through the plain "
            "path and the four plugins x useEncryption x useCompression (one relaying hop more: the plugin's ReverseProxy behind "
            "the plugin's http.Server), and w = the backend stops after k bytes and the WORK CONNECTION is killed (pairs without "
            "tcpMux reach frps through a relay of the harness; only work connections in use are closed, frps' spare ones stay); "
            "abortHolds on the chain of hops of the proxy kind; frp's own error answer (404 page / the plugins' 502 / 504) is "
            "accepted instead of a cut. LONG-LIVED rounds (hl, 11 per quick run; first one round of 17-24 per kind, then 3 / 9 / 16 / "
            "17 / 20 / 24): n users each open an exchange the backend HOLDS open (chunked stream, close-delimited stream: header "
            "block + first half of the body at once; long poll: nothing), when all n are open (event driven, 1.5 s bound) one more "
            "short request (GET / POST) goes through the same proxy and must be served while they are open, then all are released "
            "and must end completely with their own body; longHolds (all opened, probe served, all ended). The Lean engine "
            "predicts it from ConnLimit.pathForwards over the Transport literals READ FROM the source (Gen.HttpFacts.transports). "
            "A round whose only symptom is a timeout is executed once more with 3 s bounds.",
    "trusted": COMMON_TRUST + [
        "models Frp/Model/HttpRewrite.lean, HttpPool.lean written by hand from pkg/util/vhost/http.go and from the "
        "go1.23 sources of net/http/httputil.ReverseProxy, http.Transport, http.Server (those standard-library "
        "steps are ASSUMED and only sampled: hop-by-hop list, stripping of Forwarded/X-Forwarded-*, User-Agent rule, "
        "Accept-Encoding: gzip, Pragma->Cache-Control, Connection: close handling, Date / sniffed Content-Type, 304)",
        "bodies are opaque values in the theorems; byte-for-byte transport, chunked / Content-Length framing and the "
        "Transport's idle pool are net/http's and are only sampled (length + FNV-32a of what arrived)",
        "model Frp/Model/HttpTime.lean (which clocks bound an exchange: Transport.ResponseHeaderTimeout between "
        "'request written' and 'header block read', NO deadline on the request context, none at all on CONNECT) written "
        "by hand from pkg/util/vhost/http.go and net/http transport.go / reverseproxy.go; tied to the code only by the "
        "timed exchanges of the engine (real timers, nothing within 600 ms of the 1 s timeout)",
        "model Frp/Model/CodecPool.lean (golib's process-wide sync.Pool of snappy readers / writers as a resource: Get with any "
        "choice, Reset binds the object to a stream, Put; the events of HandleTCPWorkConnection on the plain, plugin and "
        "error paths) written by hand from golib io/io.go, pool/snappy.go and client/proxy/proxy.go; WHERE the recycle "
        "function is called (Disc) is regenerated from the source by translate/gen_codecfacts.go on every run and proved "
        "equal to the hand-written frpDisc (codec_source_disc); that libio.Join returns only after both copy directions "
        "ended and that Handle of the HTTP plugins only queues the connection (checked syntactically: PutConn, no Join) "
        "are assumptions of the event alphabet; the server side (server/proxy/proxy.go, http.go) uses the same pool with "
        "the same after-Join discipline and is covered by the same rounds but not by the generator",
        "model Frp/Model/ConnReader.lean (net/http conn.serve + abortPendingRead against sticky crypto / snappy reader "
        "errors) written by hand; tied by harness/corpus/httpe2e/01-plugin-keepalive-wrapped.ops (known finding)",
        "models Frp/Model/HttpAbort.lean (how a body ends per framing; httputil.ReverseProxy's panic(http.ErrAbortHandler) and "
        "shouldPanicOnCopyError; http.Server finishing the answer of a handler that returns; Transport.writeLoop closing the "
        "backend connection on a failed request body) and Frp/Model/ConnLimit.lean (Transport.MaxConnsPerHost: queueForDial / "
        "decConnsPerHost) written by hand from the go1.23 net/http sources (ASSUMED; sampled by the fault ops and the long-lived "
        "rounds); the facts about frp's own code — no `defer` with `recover()` in pkg/util/vhost/http.go and the four plugin "
        "files, which fields the http.Transport literals of their ReverseProxies set — are regenerated by "
        "translate/gen_httpfacts.go on every run (abort_source_no_recover, limit_source_no_cap); a recover or a Transport built "
        "in another file is outside that syntactic fact (the engines still drive the real code)",
        "models Frp/Model/HttpGroup.lean (the route an http load-balancing group registers: the member's RouteConfig with "
        "the connection functions replaced) and Frp/Model/HttpErr.lean (when the not-found answer goes out against a request "
        "body still in flight: frp's handler does not touch the body; net/http's cw.writeHeader / body.Close read at most "
        "256 KiB of it first — ASSUMED from go1.23 server.go / transfer.go, sampled by op ereq) written by hand; regenerated "
        "by translate/gen_httpfacts_routes.go on every run: the field list of vhost.RouteConfig, which fields the route "
        "built in (*HTTPGroup).Register carries from the member's (whole-struct copy minus the fields assigned afterwards, "
        "or the keys `K: param.K` of a literal, directly or through a helper of the file), and for every call in "
        "pkg/util/vhost/http.go that answers with the not-found page whether the block around it or a helper on the way "
        "contains a `.Body` selector (group_source_fields, group_source_carries_all, err_source_no_body_read); a body read "
        "hidden behind a function that does not itself reach getNotFoundPageContent is outside that syntactic fact (op ereq "
        "still drives the real code)",
        "relational: which member of a group served a request (round robin), which idle connection the Transport picked, framing of empty bodies and of answers, Content-Type "
        "sniffing of unknown-length answers (timer race inside ReverseProxy) are taken from the implementation's result",
    ],
    "assumptions": [
        "HTTP/1.1 towards the backend, no trailers, no gzip answers to Transport-added Accept-Encoding; Expect: 100-continue only "
        "on the error paths (op ereq): towards a reachable backend it is not driven",
        "error paths against a body in flight: a user that withholds LESS than 256 KiB of an announced body (or of a chunked "
        "stream) is waited for by net/http itself before any answer of any handler goes out (cw.writeHeader), and after a "
        "failed dial a user that insists on its 100 Continue is waited for by the Transport's close of the request body "
        "(err_dialled_expect_waits_witness; real clients send the body after their own expect timeout): both are skipped, "
        "counted; a backend that closes early while the upload is still going on races the Transport's write loop and is "
        "driven only with complete requests (fault q)",
        "groups: members of one group declare the same options (frp compares only domain, location, routeByHTTPUser, "
        "httpUser, httpPassword and keeps the first member's RouteConfig for the others); member names are never re-used "
        "inside a world (the pool key of a group route carries the endpoint name but regID 0)",
        "queries containing ';' or an invalid % escape are re-encoded by httputil.ReverseProxy (cleanQueryParams) before "
        "frp's hook runs: outside the model's domain (skipped, counted); the backend does NOT get such a query unchanged",
        "the four client plugins are driven directly (real plugin Handle, TLS on either side where the plugin "
        "uses it), about 35 requests per quick run (header rewriting compared there), and through a real frps+frpc pair "
        "in the concurrent rounds of httpe2e (routing, request line, bodies, own answer); the socks5 / http_proxy / "
        "static_file / unix_domain_socket / tls2raw plugins are not HTTP-forwarding plugins of the property and are not driven",
        "KNOWN_FINDINGS C02-plugin-keepalive-wrapped: a work connection with useEncryption / useCompression served by a "
        "client plugin answers ONE request; generated rounds therefore carry one exchange per connection for such users and "
        "hold them (http proxies) so that no work connection is re-used inside a round; a second request on such a "
        "connection is driven by the corpus file only (https proxies: deterministic cut), the 404 an http proxy may answer to "
        "a POST written onto the dying idle work connection is a race and is not generated",
        "httpe2e: header rewriting is not compared there (engine http does that), only routing to the right backend, "
        "request line, status, bodies and the end of the read; cipher / compression lawfulness and yamux / TLS / TCP "
        "transports are C01's assumptions (Layers.Lawful), sampled here with real golib layers on both ends; real-time "
        "cost of the 8 KB/s limiters bounds the volume (about 240 KB per quick run through them)",
        "httpe2e: the recording backends answer a request that has a body 3 ms after its last byte (and hold the first "
        "exchange of a round until all have arrived): an answer in the same instant races net/http itself — the server "
        "closes the request body when the proxy handler writes the answer's header, a Transport still doing its last "
        "probing Read of that body fails with 'invalid Read on closed Body' and closes the connection the answer comes "
        "from (httputil.ReverseProxy without full duplex, in frps and in the plugins; observed as a truncated answer in "
        "about 1 of 50-100 runs on a loaded machine, root-caused with a stack trace of the closing goroutine); that "
        "scheduling artefact of the standard library is not sampled",
        "faults: a close-delimited body cut short cannot be told from a complete one (abort_eof_indistinguishable): only 'a "
        "prefix, every byte written before the close' is demanded there; how many bytes a hop had read but not yet passed on "
        "when it aborted is taken from the implementation (any prefix is accepted); a cut answer whose status line never left a "
        "server's buffer (small Content-Length answers) shows as a closed connection or, behind a plugin, as frps' not-found "
        "page — accepted; a backend that dies before answering behind a plugin gives the plugin's 502 (httputil's default "
        "ErrorHandler) — accepted besides the 404 page / 504; faults inside a header block, trailers and 1xx are not driven; "
        "the work connection is killed only without tcpMux (with it a work connection is a yamux stream of the control "
        "connection)",
        "long-lived rounds: streamed answers and long polls, at most 24 open at once per proxy; upgraded (WebSocket) connections "
        "held open are not part of these rounds; frps' own limits (transport.maxPoolCount), yamux windows and the OS are sampled "
        "only up to that number",
        "h2c: only the upgrade of RFC 7540 3.2 with one request (stream 1) is driven; prior-knowledge h2c (PRI) has no Host "
        "and is answered 404 by frp's no-route branch; later streams of an upgraded connection are not driven",
        "TLS termination: X-Forwarded-Proto=https branch is proved but not sampled (vhost HTTP port is plain)",
        "time: only vhostHTTPTimeout = 1 s is sampled and exchanges of up to about 3 s; the default 60 s, "
        "Transport.IdleConnTimeout (60 s) and the http.Server of server/service.go (ReadHeaderTimeout only) are not "
        "driven; time of arrival of streamed pieces (flushing) is not part of the property and not compared",
    ],
}

META = {
    "engine": "lean+translator(CodecFacts,HttpFacts)+harness(http,httpgrp,httpe2e)",
    "design_ref": "DESIGN.md §6 C02, §7 item 14",
    "technique": "Lean 4 theorems over all requests / header maps / route configs / histories / time lines (per-header-key "
                 "characterisation of the Rewrite and ModifyResponse closures around the standard reverse proxy, "
                 "pool-key injectivity via the base64 no-dot lemma, inductive invariant of the repaired idle pool) + "
                 "differential correspondence against the real HTTPReverseProxy over TCP with a recording backend",
    "text": "Proof (partial): for every request and route config the modelled proxy leaves method, path, query, body "
            "and every end-to-end header (values and their order) untouched; X-Forwarded-For = prior values + user "
            "address, X-Forwarded-Host/Proto set, Host rewritten iff RewriteHost is set, configured request / response "
            "headers carry exactly the configured value (map order irrelevant unless two keys collide after "
            "canonicalisation - witness), hop-by-hop headers dropped, status and body of answers untouched; the error "
            "mapping has exactly the 504 / 404-page answers; on the clock model (response-header timeout only, no "
            "deadline on the request context) every exchange whose header block arrives within the timeout relays "
            "all request- and response-body pieces and every tunnel piece in order for ALL time lines (any dial time, "
            "pace, idle period, total duration), a late header block gives 504 exactly timeout after the request was "
            "written, and under ANY whole-exchange deadline some stream / tunnel is cut (why the hypothesis is needed); the synthetic pool host is injective in (domain, "
            "location, routeUser, endpoint). NOT true on the code as it is (witness theorems, reproduced on the real "
            "code, KNOWN_FINDINGS C02-pool-stale-owner and C02-pool-key-as-host): pooled backend connections survive "
            "UnRegister and serve a re-registered route from the former owner's backend, and a Host header spelling a "
            "pool name reaches a backend without any route. The repaired model (key carries the registration id, "
            "no-route requests never reach the Transport) satisfies the full statement for all histories. Upgrades: the "
            "handler gets http.Server's own (hijackable) writer, so the model's upgrade IS a tunnel; behind a writer that is no "
            "Hijacker none is (upgrade_needs_hijacker). End to end: composed with C01's tunnel theorems (frps' GetRealConn "
            "stack against frpc's different stack, limit.Writer's chunk loop) the request and answer bodies, in any "
            "framing, written in any pieces, over any chunking of the wire, reach the other side unchanged for EVERY "
            "combination of useEncryption / useCompression / bandwidthLimit mode and every burst > 0, prefixes at any "
            "moment; one Write of any size through the limiter never asks WaitN for more than the burst. Tie: 3000 "
            "generated ops per quick run on the real HTTPReverseProxy (about 30 timed exchanges, about 130 upgrades, 20 "
            "h2c upgrades) + 68 exchanges through a real frps+frpc pair over the tunnel-option lattice + 40 rounds of 2-8 "
            "SIMULTANEOUS users (about 400 exchanges) through the plain path and the http2http / http2https / https2http / "
            "https2https plugins x useEncryption x useCompression, each user checked for exactly its own answer, + about 30 "
            "mid-exchange faults (dying backend, dying user, killed work connection) and 11 rounds of up to 24 exchanges held "
            "open at once with a further request that must still be served, through the plain path and every plugin, + 65-90 "
            "error-path exchanges against a body still in flight + 600 ops on the real Routers / HTTPReverseProxy / "
            "HTTPGroupController over every route option x {no group, first member, later member}. Grouping is transparent to "
            "every route option: the route a group registers is, field list and copy read from the source, the member's with "
            "only the connection functions replaced, so backend and user observe through a group what they observe without it "
            "(a field-by-field route is transparent iff it carries all eight option fields; witness without RewriteHost). The "
            "not-found answer does not depend on the rest of the request body: no answer site touches req.Body (read from the "
            "source), so it is out at once for Expect / >= 256 KiB unread and by the arrival of the first 256 KiB + 1 bytes "
            "whatever follows; a draining handler never answers an open stream (witnesses). Concurrency: "
            "the pooled snappy reader / writer of compressed work connections is a shared resource; with the recycle sites "
            "of client/proxy/proxy.go (read from the source: once, after Join returned; never on the plugin path) no two live "
            "connections ever hold the same object and every Read / Write works on its own stream, for ALL interleavings and "
            "all choices of sync.Pool.Get; recycling at the return of the plugin path, or twice, breaks it (witnesses; every "
            "unsafe discipline has a breaking schedule). NOT true on the code as it is (KNOWN_FINDINGS "
            "C02-plugin-keepalive-wrapped, witness plugin_wrapped_keepalive_witness): a work connection with useEncryption or "
            "useCompression served by an HTTP client plugin answers one request only.",
    "note": "Trusted: Lean kernel; hand-written models; net/http, httputil.ReverseProxy, http.Transport (assumed, "
            "sampled); harness generators and canonicalisation. Switch to the repaired model: HttpPool.poolIsFixed := true "
            "after committing hooks/C02-fix-pool-key.patch.",
}
