from props import COMMON_TRUST


def visitor_nontrivial(tok, res):
    k = tok[0]
    if k in ("conn", "svis", "vbegin", "vend"):
        return res.startswith(("queued", "dropped", "paused", "ok:", "err:auth", "err:notallowed", "err:closed", "err:norun",
                               "err:encfail"))
    if k in ("natv", "snat", "natflood"):
        return res.startswith(("sid:", "preok", "err:auth", "err:notallowed"))
    if k == "slogin":
        return res == "ok"
    if k == "accept":
        return res.startswith("c")
    if k == "drain":
        return res != "-"
    if k in ("sreg", "listen", "nlisten", "close"):
        return res in ("exists", "repeated", "blocked")
    if k == "echo":
        return res != "none"
    return False


def visitor_class(r):
    head = r.split(" ")[0]
    if "*" in head:            # natflood: <answer>*<k>
        a = head.split("*")[0]
        return ("mixed" if head.startswith("mixed:") else a.split(":")[0] if a.startswith("sid:") else a) + "*k" + \
            ("" if r.endswith(" left=0") else " +left")
    if " left=" in r and not r.endswith(" left=0"):
        return head.split(":")[0][:12] + " +left"
    if head.startswith("ok:") and head.count(":") == 2:
        return "ok:" + head.rsplit(":", 1)[1]
    if head.startswith(("ok:", "sid:")):
        return head.split(":")[0]
    if head.startswith("c") and head[1:2].isdigit():
        return "conn" + (":bytes-bad" if "bytes-bad" in head else "")
    if " w=[" in r:
        ws = r.split(" w=[", 1)[1]
        return head[:16] + (" +writers" if ws != "]" else "")
    if head.startswith("x"):
        return "hex"
    if "=" in head:
        return "queued-left"
    return head[:16]


def xtcp_nontrivial(tok, res):
    k = tok[0]
    if k in ("uconn", "silent"):
        return "route=" in res
    if k == "burst":
        return res.startswith("tunnel=")
    if k == "vstop":
        return res.startswith("closed=") and not res.startswith("closed=0")
    return False


def xtcp_class(r):
    if "route=" in r:
        d = dict(p.split("=", 1) for p in r.split(";") if "=" in p)
        ok = d.get("hits") in ("0", "1") and d.get("up") == d.get("down") == d.get("tag")
        return (("quiet=" + d["quiet"] + ",") if "quiet" in d else "") + d.get("route", "?") + ("" if ok else ":BAD") + \
            ("" if d.get("tm") in ("ok", "na") else ":" + d.get("tm", "?"))
    if r.startswith("tunnel="):
        d = dict(p.split("=", 1) for p in r.split(";"))
        return "t%s f%s o%s b%s" % tuple("0" if d[k] == "0" else "+" for k in ("tunnel", "fallback", "other", "bad"))
    return r[:12]


def vhs_nontrivial(tok, res):
    # the frame and payload bytes share a segment, or a segment boundary falls inside the frame, and something was bridged / refused
    if tok[0] != "hs":
        return False
    d = dict(t.split("=", 1) for t in tok[1:] if "=" in t)
    return res.startswith("hello=ok") and (d.get("g", "-") != "-" or d.get("resp") == "err") and d.get("cuts") != "e0"


def vhs_class(r):
    d = dict(p.split("=", 1) for p in r.split(";") if "=" in p)
    if "hello" not in d:
        return r[:12]
    cuts = d.get("abs", "-")
    fl = int(d.get("fl", "0") or 0)
    if cuts == "-":
        seg = "one-segment"
    else:
        offs = [int(x) for x in cuts.split(".")]
        seg = "byte-by-byte" if len(offs) > 40 else "+".join(sorted({"in-frame" if o < fl else "at-frame-end" if o == fl else "in-payload" for o in offs}))
    return "%s %s %s%s" % (d["hello"], seg, "intact" if d.get("sent") == d.get("got") else "BROKEN" if d.get("sent") else "nothing",
                           "" if d.get("end") == "eof" else " end=" + d.get("end", "?"))


PROP = {
        "level": "proof",
        "gens": ["VisitorFacts"],
        "theorems": [
            "Frp.C08.newConn_sound", "Frp.C08.newConn_refused_unchanged", "Frp.C08.newConn_queued_shape",
            "Frp.C08.newConn_not_queued_unchanged", "Frp.C08.newConn_inadmissible_error", "Frp.C08.newConn_error_kinds",
            "Frp.C08.newConn_complete", "Frp.C08.newConn_queued_effect", "Frp.C08.resolveUser_ok", "Frp.C08.resolveUser_err",
            "Frp.C08.visitorConn_sound", "Frp.C08.visitorConn_unknown_run", "Frp.C08.register_default_allow",
            "Frp.C08.default_only_owner_user", "Frp.C08.default_list_end_to_end", "Frp.C08.nat_grant_partial",
            "Frp.C08.nat_grant_sound_partial", "Frp.C08.nat_grant_sound_fixed", "Frp.C08.nat_allow_witness",
            "Frp.C08.nat_witness_precheck_refuses", "Frp.C08.precheck_sound", "Frp.C08.precheck_ignores_key",
            "Frp.C08.natVisit_state", "Frp.C08.natDone_restores", "Frp.C08.natVisit_agrees_C20", "Frp.C08.qinv_step",
            "Frp.C08.qinv_reachable", "Frp.C08.reachable_fixed_all_granted_sound", "Frp.C08.step_refused_unchanged",
            "Frp.C08.mirror", "Frp.C08.decode_encode", "Frp.C08.transparent", "Frp.C08.holdsOn_sound",
            "Frp.C08.holdsOn_sound_nat", "Frp.C08.model_holdsOn", "Frp.C08.model_holdsOn_nat_fixed",
            "Frp.C08.finv_step", "Frp.C08.finv_reachable", "Frp.C08.newConn_eq_checks_put", "Frp.C08.finishPut_is_newConn",
            "Frp.C08.finish_refines_newConn", "Frp.C08.finish_delivery_sound", "Frp.C08.write_waits_for_readers",
            "Frp.C08.finish_failed_unchanged", "Frp.C08.begin_refused_unchanged", "Frp.C08.begin_atomic",
            "Frp.C08.cqinv_step", "Frp.C08.cqinv_reachable", "Frp.C08.deliveredOkB_iff",
            "Frp.C08.reachable_accept_delivered_ok",
            # §7 the xtcp visitor of frpc, §8 tunnel stacks, §9 fallback visitor + predicate of the xtcp engine
            "Frp.C08.xv_request_signed", "Frp.C08.xv_hole_ok_iff", "Frp.C08.xv_hole_ok_entitled", "Frp.C08.xv_served_once",
            "Frp.C08.xv_never_both", "Frp.C08.xv_closed_reason", "Frp.C08.xv_fallback_never_drops",
            "Frp.C08.xv_deadline_hands_over", "Frp.C08.xv_hand_timing", "Frp.C08.xv_tunnel_entitled",
            "Frp.C08.xv_hole_starts_paced", "Frp.C08.xv_keep_budget", "Frp.C08.xv_session_kinds_agree",
            "Frp.C08.step_hands", "Frp.C08.step_phase", "Frp.C08.step_rstep", "Frp.C08.xt_stacks_are_common",
            "Frp.C08.xt_mirror_iff", "Frp.C08.xt_tunnel_down_prefix", "Frp.C08.xt_tunnel_down_complete",
            "Frp.C08.xt_tunnel_up_prefix", "Frp.C08.xt_tunnel_up_complete", "Frp.C08.xt_tunnel_keyed",
            "Frp.C08.xt_tunnel_keyed_iff", "Frp.C08.xv_fallback_served_entitled", "Frp.C08.xtAdmB_entitled",
            "Frp.C08.xv_hole_ok_admB", "Frp.C08.xtHoldsOn_sound",
            # §10 run ids over login / re-login / logout histories (ControlManager), §11 refused NAT-hole requests
            "Frp.C08.cm_designates", "Frp.C08.owns_unique", "Frp.C08.visitor_user_is_current_owner",
            "Frp.C08.visitor_user_unknown", "Frp.C08.relogin_takes_over", "Frp.C08.stale_del_noop",
            "Frp.C08.owner_del_forgets", "Frp.C08.resolveUser_users", "Frp.C08.ctls_track_step",
            "Frp.C08.ctls_track_manager", "Frp.C08.visitorConn_user_is_designated",
            "Frp.C08.relogin_closes_replaced", "Frp.C08.natVisit_out_indep", "Frp.C08.nat_refused_leaves_nothing",
            "Frp.C08.flood_refused_leaves_nothing", "Frp.C08.leavesNothingB_sound", "Frp.C08.model_leavesNothing",
            # §12 allow lists as a class (order, multiplicity, "", "*", exact entries); the list given at registration
            # is the list visitors are judged by
            "Frp.C08.allowed_perm_dedup", "Frp.C08.allowed_perm", "Frp.C08.mem_canonAllow", "Frp.C08.allowed_canon",
            "Frp.C08.allowed_append_self", "Frp.C08.empty_user_allowed_iff", "Frp.C08.allowed_exact",
            "Frp.C08.unlisted_refused", "Frp.C08.star_anywhere", "Frp.C08.newConn_perm_dedup",
            "Frp.C08.natVisit_perm_dedup", "Frp.C08.listen_stores", "Frp.C08.register_stores",
            "Frp.C08.fresh_conn_iff", "Frp.C08.listen_then_conn_iff", "Frp.C08.register_then_visit_iff",
            "Frp.C08.natListen_then_visit_iff",
            # §13 client side: the visitor's handshake leaves the connection intact for every segmentation (Props/C08Hand.lean)
            "Frp.C08.cread_split", "Frp.C08.cread_le", "Frp.C08.cread_progress", "Frp.C08.direct_ok", "Frp.C08.buffered_ok",
            "Frp.C08.readFullAux_spec", "Frp.C08.readFull_exact", "Frp.C08.readFrame_exact",
            "Frp.C08.hs_consumes_exactly_frame", "Frp.C08.visitorEnd_lawful", "Frp.C08.serverEnd_eq",
            "Frp.C08.hs_stream_complete", "Frp.C08.hs_stream_prefix", "Frp.C08.hs_refused_nothing",
            "Frp.C08.hs_unreadable_nothing", "Frp.C08.bread_conn_nil", "Frp.C08.bfull_conn_nil", "Frp.C08.bbody_conn_nil",
            "Frp.C08.bheader_conn_nil", "Frp.C08.hs_buffered_loses", "Frp.C08.hs_buffered_witness",
            "Frp.C08.visitor_reads_from_handed_conn", "Frp.C08.hsHoldsOn_sound", "Frp.C08.hsHoldsOn_refused",
        ],
        "engines": [
            {"name": "visitor", "quick_n": 9000, "thorough_n": 20000, "thorough_seeds": 5,
             "search_n": 4000, "search_seeds": 3,
             "nontrivial": visitor_nontrivial, "result_class": visitor_class},
            # n = visitor scenarios (one real frpc each); a run of 20 takes ~25 s
            {"name": "xtcp", "quick_n": 20, "thorough_n": 40, "thorough_seeds": 3,
             "search_n": 8, "search_seeds": 2,
             "nontrivial": xtcp_nontrivial, "result_class": xtcp_class},
            # one real visitor.Manager + visitor per op against a scripted peer; ~20 ms per op
            {"name": "vhs", "quick_n": 240, "thorough_n": 1200, "thorough_seeds": 5,
             "search_n": 120, "search_seeds": 2,
             "nontrivial": vhs_nontrivial, "result_class": vhs_class},
        ],
        "rule": "visitor engine: (A) the real visitor.Manager and nathole.Controller driven directly, the harness holding "
                "every listener / sid channel ever returned (accept, drain = negative oracle: every connection that comes out "
                "of a listener is checked against the key and list that very listener was registered with, and the stream "
                "is exercised both ways, again later while other streams are open); NewConn calls are held up inside "
                "WithEncryption (gate on crypto/rand.Reader, also made to fail) while the same name is closed, registered "
                "again with another key / list, its listener closed or emptied — Listen / CloseListener must wait for the "
                "manager's lock until the NewConn has returned; (B) one real server.Service "
                "on loopback with scripted raw peers (login, NewProxy stcp/sudp/xtcp, NewVisitorConn with own/empty/unknown/"
                "foreign run ids, NatHoleVisitor with pre-check on/off, CloseProxy, disconnect), owners checked for "
                "ReqWorkConn by a ping barrier, admitted streams echoed both ways under all enc/comp declarations; run ids "
                "change hands: logins under a run id that is still registered (re-login: frps replaces the control), "
                "logout-then-login, run ids never seen before, with the same and with different users, between visits of "
                "one proxy that allows the first user only — each login carries a control number (Login.Hostname) and "
                "after every visitor request the service's own ControlManager is asked which control it holds under the "
                "claimed run id (compared with the model's table; the request is judged for the user of the control that "
                "currently owns the run id). \"Leaves no session state behind\": after every NAT-hole request (single, and "
                "floods of 2-41 identical requests handled concurrently: unknown proxy, wrong key, right key with a user "
                "outside the list, pre-checks, granted ones) the controller's own session table is counted (layer A and, "
                "through Service.rc, layer B); a request that was not granted must not have made it bigger. "
                "Allow lists as a class (both layers; through Manager.Listen, Controller.ListenClient and, in layer B, NewProxy "
                "messages -> server/proxy/{stcp,sudp,xtcp}.go Run incl. the default list): 1-4 names, optionally \"\", * (first, "
                "in the middle, last), entries equal to another one up to case / white space, near-wildcards (**, al*), some "
                "entries repeated once or several times (adjacent or apart), the whole permuted; each registered list is probed "
                "by key-holding visitors of every kind: nobody (no run id / a client that logged in without user), the owner's "
                "user, every listed entry, entries up to case / white space, unlisted users, * as a user name — NewConn, the "
                "NAT-hole pre-check and request proper; the predicate (admitted => user in the list GIVEN at registration, or * "
                "in it) is evaluated on each answer. "
                "A case is non-trivial when a request is admitted or refused for the key, the user, the run id or a "
                "closed listener; distinct = distinct (op line, result) pairs. "
                "xtcp engine: one real frps, one real frpc owning xtcp and stcp proxies (every enc/comp declaration, allow lists "
                "owner-only / named users / *, entries repeated and permuted), and one real frpc PER VISITOR SCENARIO (user ua/ub/uc or none configured; an XTCPVisitor, optionally an STCPVisitor it "
                "falls back to), all in-process on loopback; NAT discovery against a STUN responder of the harness, or against a "
                "socket that never answers (no hole can be prepared: deterministic fallback). Scenario classes: tunnel possible "
                "(quic and kcp, keepTunnelOpen on/off), tunnel possible but the fallback timeout shorter than a hole takes (either "
                "outcome accepted, exactly one), tunnel impossible (wrong key | user not allowed | STUN dead | no such proxy | proxy "
                "of another type) with a fallback visitor (own key right/wrong, own allow list) or without, nobody connecting "
                "(keepTunnelOpenWorker alone, 1 s checks). Every proxy has its own tagged backend: per user connection the harness "
                "reports who served it, how many backend connections were made on ALL backends together (exactly one, or none), "
                "whether generated payloads (1 B … 200 KB, several chunkings, both directions) arrived intact, and that a "
                "fallback did not happen before fallbackTimeoutMs; a result that is a timeout is retried alone once, a wrong "
                "backend / broken bytes / an unentitled service never. "
                "vhs engine (client side of an admitted stream): per op a real client/visitor.Manager with a real STCPVisitor, "
                "SUDPVisitor or XTCPVisitor that falls back (fallbackTimeoutMs) to an STCPVisitor; ConnectServer returns a "
                "connection (net.Pipe: one Write = one segment; or loopback TCP) to a scripted peer playing frps + owner + "
                "backend: it checks the NewVisitorConn (name, GetAuthKey signature, declared enc/comp, run id), builds the "
                "NewVisitorConnResp frame (ok | error), puts the stack of Manager.NewConn (enc with the secret key, comp, as "
                "declared) on the connection, lets the backend speak first through it (0-3 writes of 1-700 B: text, random, "
                "frame-header look-alikes; sudp: Ping and UDPPacket frames) and delivers frame ++ image in the segments the op "
                "names: ONE segment (a relay / TCP that coalesces), one cut inside the frame (after the type byte, inside the "
                "length, inside the body), exactly behind it (the quiet case), inside the payload (around the 16-byte IV, around "
                "bufio-sized 460-600 B), several cuts, byte by byte; then the user writes (or only listens), the backend "
                "answers, the peer closes. The model runs the handshake on the peer's exact wire image at the reported cuts; the "
                "predicate (what the user read until EOF / the datagrams it got = what the backend wrote, from byte 0; the backend "
                "read what the user wrote; nothing after a refusal) is evaluated on the implementation's own delivery",
        "trusted": COMMON_TRUST + [
            "models Frp/Model/Visitor.lean, Frp/Model/VisitorLock.lean (+ Frp/Model/Md5.lean for the driver) written by hand; tied by the visitor engine "
            "(real visitor.Manager.Listen/NewConn/CloseListener, InternalListener.PutConn/Close/Accept, nathole.Controller."
            "ListenClient/CloseClient/HandleVisitor, util.GetAuthKey, and through a real server.Service: RegisterControl, "
            "Control.RegisterProxy/CloseProxy, stcp/sudp/xtcp Run/Close, RegisterVisitorConn, handleNatHoleVisitor)",
            "verif hooks pkg/nathole/verif_export.go (VerifSessions: the stored session ids) and server/verif_sess.go "
            "(VerifSessDump: run id -> Login.Hostname of the control the ControlManager holds); the service's NAT-hole "
            "controller is reached through the unexported field Service.rc by reflection (read-only)",
            "model Frp/Model/CtlMgr.lean (ControlManager.Add / Del / GetByID with control identities, RegisterVisitorConn's "
            "user resolution) written by hand; tied by layer B of the visitor engine (real RegisterControl incl. replacement, "
            "ControlManager.Add/Del/GetByID, RegisterVisitorConn)",
            "model Frp/Model/XtcpVisitor.lean (client/visitor/xtcp.go as a transition system; makeNatHole answered by the "
            "server model) written by hand; tied by the xtcp engine (real client.Service with XTCPVisitor.Run / worker / "
            "handleConn / openTunnel / getTunnelConn / makeNatHole / processTunnelStartEvents / keepTunnelOpenWorker / Close, "
            "KCP and QUIC tunnel sessions, visitor.Manager.TransferConn, STCPVisitor; client/proxy/xtcp.go InWorkConn / "
            "listenByKCP / listenByQUIC; nathole.PreCheck / Prepare / Discover / ExchangeInfo / MakeHole in detect mode 0; "
            "server/proxy/xtcp.go, Controller.HandleVisitor / HandleClient / HandleReport / analysis)",
            "model Frp/Model/VisitorHandshake.lean (golib readMsg over net.Conn.Read / io.ReadFull on a segmented connection, a bufio "
            "reader on top, what stcp.go handleConn / sudp.go getNewVisitorConn hand on) written by hand; tied by the regenerated "
            "fact Gen/VisitorFacts.lean (every msg.ReadMsg / ReadMsgInto call of client/visitor: its reader argument is the "
            "connection from ConnectServer that is used again afterwards, or a net.Conn parameter) and by the vhs engine (real "
            "visitor.Manager.UpdateAll / TransferConn, STCPVisitor.handleConn, SUDPVisitor.dispatcher / getNewVisitorConn / worker, "
            "XTCPVisitor.handleConn fallback, udp.ForwardUserConn, golib crypto / snappy wrappers on both ends)",
            "the harness replaces crypto/rand.Reader by a pass-through reader that stops only calls coming from a vbegin "
            "goroutine (the one place where NewConn can be held up without touching frp)",
        ],
        "assumptions": [
            "theorems hold for an arbitrary key derivation H; nothing about md5 (collision resistance, secrecy of sk given "
            "signatures) is claimed.  GetAuthKey concatenates sk and the decimal timestamp without a separator: ('s1', 2) "
            "and ('s', 12) give the same key — kept faithfully in the model",
            "a run id is a bearer token: RegisterVisitorConn takes the user of whatever live session carries the claimed "
            "run id (modelled as is; possession is not proved by the visitor connection); run ids are chosen by the client, a "
            "login under a live run id replaces its control and from its acknowledgement on the run id stands for the new "
            "login's user (spec `Owns`); the window between ControlManager.Add and the end of the replaced control "
            "(its proxies still registered, the run id already the new user's) is not driven (C12/C16's subject)",
            "the pre-check branch does not look at the key (modelled as is: theorem precheck_ignores_key); it stores nothing "
            "and notifies nobody",
            "GenSid never repeats a live session id; NatHoleTimeout set to 0 in the harness so that an admitted NAT-hole "
            "round ends at once (what follows the notification is C20's subject)",
            "interleavings: NewConn is modelled in two steps (lookup + checks | wrappers + PutConn) with the manager's "
            "RWMutex (writers wait for readers, in arrival order from one owner goroutine; a reader arriving behind a "
            "waiting writer is not driven); only the direct manager (layer A) is driven with held-up NewConn calls, and "
            "only calls that declare encryption can be held up",
            "xtcp visitor model: the outcome of NAT discovery (STUN answered), of the traversal (MakeHole found the peer) and of "
            "session.Init, the moment a session breaks, goroutine scheduling and wall-clock time are INPUTS of the transition "
            "system (theorems hold for all of them); the server's client table is static during one makeNatHole (changes are "
            "§3/§6's subject); helper.TransferConn and the IV source are inputs, too (`xferOk`, `ivOk`)",
            "xtcp engine: on loopback both ends classify as public network, so only detect mode 0 / behaviour 0 of nathole is "
            "executed; the traversal is assumed to succeed there whenever the server granted it (a run where it does not shows "
            "as a disagreement); run ids are symbolic in the model (one per user); keys are printable (a key travels as a JSON "
            "string in NewProxy); visitor and proxy declare the same enc/comp for a tunnel (xt_mirror_iff: otherwise the "
            "stream is not transparent — such lines are skipped, the generator does not produce them)",
            "observation (modelled as is, `XtcpVisitor.announcedOnOpen`): over a QUIC tunnel the proxy's frpc learns of a new "
            "stream only with its first STREAM frame, i.e. after the user wrote something — a backend that speaks first is not "
            "dialled / heard until then (yamux over KCP announces the stream at once); each keepTunnelOpenWorker check opens "
            "and closes a tunnel stream, for which the proxy's frpc dials the backend",
            "byte transparency is proved on an abstract layer algebra (which end applies which of enc/comp, with which key) "
            "and sampled on the real AES/snappy wrappers by the echo through the real proxy and by the vhs engine's scripted peer; "
            "bandwidth limiter, plugins and the client-side proxy code are not driven here (C01/C19)",
            "client-side handshake: a connection is modelled as the list of segments still to arrive (one Read never crosses a "
            "segment boundary, returns at most what was asked for, at least one byte when something is there); AES-CFB / snappy "
            "are lawful layers (C01's assumption); read errors in the middle of the frame other than the stream ending, and "
            "deadlines, are not modelled; net.Pipe stands for the transport (tls / yamux / kcp / quic / websocket connections "
            "deliver a byte stream in segments all the same; their own framing is C01's / C17's subject)",
        ],
    }

META = {
        "engine": "lean+harness(visitor,xtcp,vhs)",
        "design_ref": "DESIGN.md §6 C08, §7 item 5",
        "technique": "Lean 4: decision functions proved sound for all listener tables and messages, invariant over all "
                     "operation histories, witness + repaired model behind a switch; differential correspondence with the "
                     "real visitor.Manager, nathole.Controller and a real server.Service with adversarial scripted peers; "
                     "transition system of the xtcp visitor proved for all label histories, tied by real frps + frpc(proxy) + "
                     "frpc(visitor) triples on loopback with real NAT-hole punching (quic and kcp) and forced fallback",
        "text": "Proof (partial at one named point): for every listener table and every visitor message the stream path "
                "(stcp, sudp) hands a connection to an owner only if the signature is the proxy's key for the message's "
                "timestamp and the visitor's user (the login user of the session named by the run id, \"\" for the empty "
                "run id) is in the allow list or the list contains *; with no list configured the list is exactly the "
                "owner's user; what a list means depends only on its set of entries (order and repetitions are irrelevant, "
                "entries are compared byte for byte, a visitor without user gets in only if \"\" or * is listed), and the "
                "list given at registration (Listen / ListenClient / NewProxy) is the list a key holder is judged by, in both "
                "directions; every other request gets an error and the whole server state is unchanged; over all "
                "histories everything waiting in any accept queue was admitted under the key and list of the entry "
                "holding it — also for every interleaving of NewConn (held up between its checks and the hand-over) with "
                "Listen / CloseListener under the manager's lock: the listener a connection is handed to is the one "
                "registered under the requested name at that moment and the one it was checked against. Whose user a run id "
                "stands for: over all histories of ControlManager.Add / Del calls (logins, re-logins under a run id that is "
                "still registered, Dels by owners and by replaced controls) GetByID designates exactly the control that "
                "currently owns the run id, and the user RegisterVisitorConn checks is that control's login user. A refused "
                "NAT-hole request, and any flood of them, leaves the sessions map as it was. The NAT-hole request branch checks the key but not the allow list: witness proved and "
                "reproduced on the real code on the tree as pinned; repaired by b3dd5ae, full theorem proved for the repaired branch "
                "(hooks/C08-fix-nathole-allowusers.patch, switch Visitor.natFixed). "
                "Client side (xtcp): for every history of the xtcp visitor's goroutines (connections arriving, openTunnel's "
                "ticker, the fallback timeout, its 20 s limit, makeNatHole finishing with any outcome, sessions breaking, "
                "keep-alive checks, Close) a user connection is handed over at most once — to a stream of the tunnel session "
                "or to the fallback visitor, never both —, is closed unserved only when no fallback is configured or "
                "TransferConn / the IV source fails, reaches the fallback visitor not before fallbackTimeoutMs, and a tunnel "
                "session exists only if the server answered the visitor's pre-check and its request signed with "
                "GetAuthKey(secretKey, now) positively, i.e. for the proxy's key and an allowed user; the stacks both ends put "
                "on a tunnel stream (secret key, enc next to the wire) mirror each other iff the declarations agree and are "
                "then byte-transparent both ways (C01's stack lemmas). "
                "Client side (stcp, sudp, the stcp visitor an xtcp visitor falls back to): reading the NewVisitorConnResp from the "
                "connection itself consumes exactly the frame for EVERY segmentation in which frame and first payload bytes "
                "arrive (one segment, cuts anywhere, byte by byte), so the user reads exactly what the backend wrote, from byte 0 — "
                "at every moment a prefix, finally all of it — for all enc/comp declarations, and nothing after a refusal or an "
                "unreadable frame; a buffered reader that is dropped after the handshake provably loses the whole first burst of "
                "a coalesced wire (witness); the source reads from the connection it hands on (regenerated from go/ast).",
        "note": "Trusted: Lean kernel; hand-written models tied by the visitor and xtcp engines. Not covered: NAT traversal "
                "itself beyond loopback (detect modes 1-4, port prediction), openTunnel's 20 s limit and the 10 s pacing "
                "running out in real time, real AES/snappy beyond the sampled echo, races between closure and admission "
                "in the NAT-hole controller and the service layer (C16/C20; the stream manager's own lock is covered here), "
                "and that run ids are unguessable.",
    }
