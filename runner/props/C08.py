from props import COMMON_TRUST


def visitor_nontrivial(tok, res):
    k = tok[0]
    if k in ("conn", "svis", "vbegin", "vend"):
        return res.startswith(("queued", "dropped", "paused", "ok:", "err:auth", "err:notallowed", "err:closed", "err:norun",
                               "err:encfail"))
    if k in ("natv", "snat"):
        return res.startswith(("sid:", "preok", "err:auth", "err:notallowed"))
    if k == "accept":
        return res.startswith("c")
    if k == "drain":
        return res != "-"
    if k in ("sreg", "listen", "nlisten", "close"):
        return res in ("exists", "repeated", "blocked")
    if k == "echo":
        return res != "none"
    return False


def visitor_class(r):
    head = r.split(" ")[0]
    if head.startswith("ok:") and head.count(":") == 2:
        return "ok:" + head.rsplit(":", 1)[1]
    if head.startswith(("ok:", "sid:")):
        return head.split(":")[0]
    if head.startswith("c") and head[1:2].isdigit():
        return "conn" + (":bytes-bad" if "bytes-bad" in head else "")
    if " w=[" in r:
        ws = r.split(" w=[", 1)[1]
        return head[:16] + (" +writers" if ws != "]" else "")
    if head.startswith("x"):
        return "hex"
    if "=" in head:
        return "queued-left"
    return head[:16]


PROP = {
        "level": "proof",
        "gens": [],
        "theorems": [
            "Frp.C08.newConn_sound", "Frp.C08.newConn_refused_unchanged", "Frp.C08.newConn_queued_shape",
            "Frp.C08.newConn_not_queued_unchanged", "Frp.C08.newConn_inadmissible_error", "Frp.C08.newConn_error_kinds",
            "Frp.C08.newConn_complete", "Frp.C08.newConn_queued_effect", "Frp.C08.resolveUser_ok", "Frp.C08.resolveUser_err",
            "Frp.C08.visitorConn_sound", "Frp.C08.visitorConn_unknown_run", "Frp.C08.register_default_allow",
            "Frp.C08.default_only_owner_user", "Frp.C08.default_list_end_to_end", "Frp.C08.nat_grant_partial",
            "Frp.C08.nat_grant_sound_partial", "Frp.C08.nat_grant_sound_fixed", "Frp.C08.nat_allow_witness",
            "Frp.C08.nat_witness_precheck_refuses", "Frp.C08.precheck_sound", "Frp.C08.precheck_ignores_key",
            "Frp.C08.natVisit_state", "Frp.C08.natDone_restores", "Frp.C08.natVisit_agrees_C20", "Frp.C08.qinv_step",
            "Frp.C08.qinv_reachable", "Frp.C08.reachable_fixed_all_granted_sound", "Frp.C08.step_refused_unchanged",
            "Frp.C08.mirror", "Frp.C08.decode_encode", "Frp.C08.transparent", "Frp.C08.holdsOn_sound",
            "Frp.C08.holdsOn_sound_nat", "Frp.C08.model_holdsOn", "Frp.C08.model_holdsOn_nat_fixed",
            "Frp.C08.finv_step", "Frp.C08.finv_reachable", "Frp.C08.newConn_eq_checks_put", "Frp.C08.finishPut_is_newConn",
            "Frp.C08.finish_refines_newConn", "Frp.C08.finish_delivery_sound", "Frp.C08.write_waits_for_readers",
            "Frp.C08.finish_failed_unchanged", "Frp.C08.begin_refused_unchanged", "Frp.C08.begin_atomic",
            "Frp.C08.cqinv_step", "Frp.C08.cqinv_reachable", "Frp.C08.deliveredOkB_iff",
            "Frp.C08.reachable_accept_delivered_ok",
        ],
        "engines": [
            {"name": "visitor", "quick_n": 6000, "thorough_n": 20000, "thorough_seeds": 5,
             "search_n": 4000, "search_seeds": 3,
             "nontrivial": visitor_nontrivial, "result_class": visitor_class},
        ],
        "rule": "visitor engine: (A) the real visitor.Manager and nathole.Controller driven directly, the harness holding "
                "every listener / sid channel ever returned (accept, drain = negative oracle: every connection that comes out "
                "of a listener is checked against the key and list that very listener was registered with, and the stream "
                "is exercised both ways, again later while other streams are open); NewConn calls are held up inside "
                "WithEncryption (gate on crypto/rand.Reader, also made to fail) while the same name is closed, registered "
                "again with another key / list, its listener closed or emptied — Listen / CloseListener must wait for the "
                "manager's lock until the NewConn has returned; (B) one real server.Service "
                "on loopback with scripted raw peers (login, NewProxy stcp/sudp/xtcp, NewVisitorConn with own/empty/unknown/"
                "foreign run ids, NatHoleVisitor with pre-check on/off, CloseProxy, disconnect), owners checked for "
                "ReqWorkConn by a ping barrier, admitted streams echoed both ways under all enc/comp declarations. "
                "A case is non-trivial when a request is admitted or refused for the key, the user, the run id or a "
                "closed listener; distinct = distinct (op line, result) pairs",
        "trusted": COMMON_TRUST + [
            "models Frp/Model/Visitor.lean, Frp/Model/VisitorLock.lean (+ Frp/Model/Md5.lean for the driver) written by hand; tied by the visitor engine "
            "(real visitor.Manager.Listen/NewConn/CloseListener, InternalListener.PutConn/Close/Accept, nathole.Controller."
            "ListenClient/CloseClient/HandleVisitor, util.GetAuthKey, and through a real server.Service: RegisterControl, "
            "Control.RegisterProxy/CloseProxy, stcp/sudp/xtcp Run/Close, RegisterVisitorConn, handleNatHoleVisitor)",
            "verif hook pkg/nathole/verif_export.go (VerifSessions: number of stored sessions)",
            "the harness replaces crypto/rand.Reader by a pass-through reader that stops only calls coming from a vbegin "
            "goroutine (the one place where NewConn can be held up without touching frp)",
        ],
        "assumptions": [
            "theorems hold for an arbitrary key derivation H; nothing about md5 (collision resistance, secrecy of sk given "
            "signatures) is claimed.  GetAuthKey concatenates sk and the decimal timestamp without a separator: ('s1', 2) "
            "and ('s', 12) give the same key — kept faithfully in the model",
            "a run id is a bearer token: RegisterVisitorConn takes the user of whatever live session carries the claimed "
            "run id (modelled as is; possession is not proved by the visitor connection)",
            "the pre-check branch does not look at the key (modelled as is: theorem precheck_ignores_key); it stores nothing "
            "and notifies nobody",
            "GenSid never repeats a live session id; NatHoleTimeout set to 0 in the harness so that an admitted NAT-hole "
            "round ends at once (what follows the notification is C20's subject)",
            "interleavings: NewConn is modelled in two steps (lookup + checks | wrappers + PutConn) with the manager's "
            "RWMutex (writers wait for readers, in arrival order from one owner goroutine; a reader arriving behind a "
            "waiting writer is not driven); only the direct manager (layer A) is driven with held-up NewConn calls, and "
            "only calls that declare encryption can be held up",
            "byte transparency is proved on an abstract layer algebra (which end applies which of enc/comp, with which key) "
            "and sampled on the real AES/snappy wrappers by the echo through the real proxy; bandwidth limiter, plugins "
            "and the client-side visitor/proxy code are not driven here (C01/C19)",
        ],
    }

META = {
        "engine": "lean+harness(visitor)",
        "design_ref": "DESIGN.md §6 C08, §7 item 5",
        "technique": "Lean 4: decision functions proved sound for all listener tables and messages, invariant over all "
                     "operation histories, witness + repaired model behind a switch; differential correspondence with the "
                     "real visitor.Manager, nathole.Controller and a real server.Service with adversarial scripted peers",
        "text": "Proof (partial at one named point): for every listener table and every visitor message the stream path "
                "(stcp, sudp) hands a connection to an owner only if the signature is the proxy's key for the message's "
                "timestamp and the visitor's user (the login user of the session named by the run id, \"\" for the empty "
                "run id) is in the allow list or the list contains *; with no list configured the list is exactly the "
                "owner's user; every other request gets an error and the whole server state is unchanged; over all "
                "histories everything waiting in any accept queue was admitted under the key and list of the entry "
                "holding it — also for every interleaving of NewConn (held up between its checks and the hand-over) with "
                "Listen / CloseListener under the manager's lock: the listener a connection is handed to is the one "
                "registered under the requested name at that moment and the one it was checked against. The NAT-hole request branch checks the key but not the allow list: witness proved and "
                "reproduced on the real code (known finding), full theorem proved for the repaired branch "
                "(hooks/C08-fix-nathole-allowusers.patch, switch Visitor.natFixed).",
        "note": "Trusted: Lean kernel; hand-written model tied by the visitor engine. Not covered: the client side "
                "(frpc visitor and proxy), real AES/snappy beyond the sampled echo, races between closure and admission "
                "in the NAT-hole controller and the service layer (C16/C20; the stream manager's own lock is covered here), "
                "and that run ids are unguessable.",
    }
