from props import COMMON_TRUST


def udp_nontrivial(tok, res):
    if tok[0] in ("tunnel", "e2e"):
        return "socks=" in res and not res.startswith("B=;")
    if tok[0] in ("sudp", "spx"):
        return "conns=" in res and not res.startswith("W=;")
    if tok[0] == "cpx":
        return "alive=" in res and not res.startswith("B=;")
    if tok[0] == "upx":
        return ";X=" in res and (not res.startswith("B=;") or ";X=0;" not in res)
    if tok[0] == "e2ev":
        return "socks=" in res and not res.startswith("B=;")
    if tok[0] == "batch":
        return res.startswith("W0=") and "err" not in res
    if tok[0] == "frame":
        return "rd=toolong" in res or "rd=ok" in res
    if tok[0] == "dec":
        return res != "err"
    if tok[0] == "b64":
        return len(tok[1]) > 1
    return False


def udp_class(r):
    if r.startswith("B=") and ";alive=" in r:
        al = r.rsplit("alive=", 1)[-1].split(";")[0]
        n = len(al)
        return "px-conns%s-%s" % ("1" if n == 1 else "2-3" if n <= 3 else "4+",
                                  "allopen" if "0" not in al else "allclosed" if "1" not in al else "someclosed")
    if r.startswith("B=") and ";X=" in r:
        x = r.split(";X=", 1)[1].split(";")[0]
        return "upx-%s-extra%s" % ("data" if not r.startswith("B=;") else "nodata", "0" if x == "0" else "1" if x == "1" else "N")
    if r.startswith("W0="):
        return "batch-w%s" % ("1" if ";W1=" not in r else "N")
    if r.startswith("B="):
        ferr = r.rsplit("ferr=", 1)[-1] if "ferr=" in r else "0"
        socks = r.rsplit("socks=", 1)[-1].split(";")[0]
        return "socks%s%s" % ("1" if socks == "1" else "N", "+frameerr" if ferr != "0" else "")
    if r.startswith("W="):
        conns = r.rsplit("conns=", 1)[-1].split(";")[0]
        bad = r.rsplit("bad=", 1)[-1]
        c = "0" if conns == "0" else "1" if conns == "1" else "2-3" if conns in ("2", "3") else "4+"
        return "conns%s%s" % (c, "" if bad == "0" else "+bad")
    if r.startswith("len="):
        return r.split(";")[2]
    if r == "err":
        return "err"
    if ":" in r:
        return "rt" + r.rsplit(":", 1)[-1]
    return "bytes" if r.startswith("x") else r[:10]


PROP = {
        "level": "proof",
        "gens": ["UdpWire", "MsgSchema"],
        "extra_targets": ["Frp.Props.C03Wire"],
        "theorems": [
            "Frp.C03.contentOf_packetOf", "Frp.C03.view_packetOf", "Frp.C03.packetOf_injective",
            "Frp.C03.content_length", "Frp.C03.content_chars",
            "Frp.C03.base64_roundtrip", "Frp.C03.base64_length", "Frp.C03.base64_no_dot", "Frp.C03.base64_alphabet",
            "Frp.C03.body_length_path", "Frp.C03.fits_iff", "Frp.C03.fits_of_le_7605",
            "Frp.C03.default_packet_size_fits", "Frp.C03.not_fits_of_gt_7674", "Frp.C03.fits_7606_witness",
            "Frp.C03.reachable_inv", "Frp.C03.conservation_up", "Frp.C03.conservation_down", "Frp.C03.sentV_eq",
            "Frp.C03.backend_payload_sent", "Frp.C03.backend_no_dup", "Frp.C03.socket_exclusive",
            "Frp.C03.reply_routing", "Frp.C03.reply_no_dup", "Frp.C03.reply_tag",
            "Frp.C03.lossless_if_no_drop", "Frp.C03.drop_full_only_when_full", "Frp.C03.no_codec_drop",
            "Frp.C03.no_frame_drop", "Frp.C03.drops_only_overload_witness",
            "Frp.C03.dropsOnlyOverloadOrReconnect_partial",
            "Frp.C03.msEq_sound", "Frp.C03.holdsOn_sound", "Frp.C03.model_safe",
            "Frp.C03.sudp_reachable_inv", "Frp.C03.sudp_conservation_up", "Frp.C03.sudp_conservation_down",
            "Frp.C03.sudp_sentV_eq", "Frp.C03.sudp_no_dup_across_connections", "Frp.C03.sudp_wire_payload_sent",
            "Frp.C03.sudp_reply_routing", "Frp.C03.sudp_reply_no_dup", "Frp.C03.sudp_drop_reasons",
            "Frp.C03.sudp_drop_causes", "Frp.C03.sudp_lossless_if_no_drop", "Frp.C03.sudp_one_worker",
            "Frp.C03.sudp_first_datagram_delivered", "Frp.C03.sudp_next_datagram_delivered",
            "Frp.C03.msSub_sound", "Frp.C03.holdsOnSudp_sound", "Frp.C03.sudp_model_safe",
            "Frp.C03.srv_reachable_inv", "Frp.C03.srv_conservation_up", "Frp.C03.srv_conservation_down",
            "Frp.C03.srv_sentV_eq", "Frp.C03.srv_no_dup_across_connections", "Frp.C03.srv_wire_payload_sent",
            "Frp.C03.srv_reply_routing", "Frp.C03.srv_reply_no_dup", "Frp.C03.srv_drop_reasons",
            "Frp.C03.srv_drop_causes", "Frp.C03.srv_dead_conn_is_being_replaced", "Frp.C03.srv_lossless_if_no_drop",
            "Frp.C03.srv_one_reader", "Frp.C03.srv_stale_sender_cancelled", "Frp.C03.srv_quiesce_eq",
            "Frp.C03.srv_quiescent_one_sender", "Frp.C03.srv_taken_on_current", "Frp.C03.srv_next_datagram_delivered",
            "Frp.C03.srv_replace_idle_healthy", "Frp.C03.srv_delivered_after_replacements",
            "Frp.C03.holdsOnSrv_sound", "Frp.C03.srv_model_safe",
            "Frp.C03.px_reachable_inv", "Frp.C03.px_conservation_up", "Frp.C03.px_conservation_down",
            "Frp.C03.px_reply_routing", "Frp.C03.px_reply_no_dup", "Frp.C03.px_backend_payload",
            "Frp.C03.px_socket_exclusive", "Frp.C03.px_step_other", "Frp.C03.px_open_keeps", "Frp.C03.px_frame",
            "Frp.C03.px_projection", "Frp.C03.px_close_causes", "Frp.C03.px_open_conn_healthy",
            "Frp.C03.px_closed_has_cause", "Frp.C03.px_delivers_despite_others",
            "Frp.C03.px_reply_delivers_despite_others", "Frp.C03.holdsOnPx_sound", "Frp.C03.px_model_safe",
            "Frp.C03.batch_roundtrip", "Frp.C03.batch_independent", "Frp.C03.batch_prefix_stable",
            "Frp.C03.holdsOnBatch_sound",
            "Frp.C03.buf_read_packet", "Frp.C03.buf_queued_owns_bytes", "Frp.C03.buf_wire_then_queue",
            "Frp.C03.buf_wire_prefix", "Frp.C03.buf_burst_delivers", "Frp.C03.buf_refines_forwarder",
            "Frp.C03.buf_byref_witness", "Frp.C03.buf_byref_pingpong_unobservable", "Frp.C03.holdsOnBurst_sound",
            "Frp.C03.udp_layers_mirror", "Frp.C03.udp_layers_order", "Frp.C03.sudp_layers_mirror",
            "Frp.C03.udp_layers_are_C01s", "Frp.C03.udp_layers_swapped_iff", "Frp.C03.udp_workconn_transparent",
            "Frp.C03.toy_layers_lawful", "Frp.C03.udp_layers_swapped_witness",
            "Frp.C03.holdsOnUpx_sound",
            "Frp.C03.wire_readers_suit_peers", "Frp.C03.wire_ctl_decodes_empty", "Frp.C03.wire_step_core_or_id",
            "Frp.C03.wire_backend_only_user_datagrams", "Frp.C03.wire_gen_backend_only_user_datagrams",
            "Frp.C03.wire_gen_sudp_backend_only_user_datagrams", "Frp.C03.wire_server_ping_witness",
            "Frp.C03.wire_typed_reader_ignores_ctl",
        ],
        "engines": [
            {"name": "udp", "quick_n": 6000, "thorough_n": 20000, "thorough_seeds": 4,
             "search_n": 3000, "search_seeds": 3,
             "nontrivial": udp_nontrivial, "result_class": udp_class},
        ],
        "rule": "udp engine: codec ops (NewUDPPacket/GetContent on every length 0..2048 + random to 64 KiB, "
                "GetContent on malformed strings, msg.WriteMsg/ReadMsg of UDPPacket around the 10240 limit) and "
                "tunnel runs (real ForwardUserConn + Forwarder on loopback sockets, 1-6 users, 20-200 datagrams) and "
                "e2e runs (the same traffic through real frps + frpc in-process, plain / encrypted / compressed) and "
                "sudp runs (the real client/visitor SUDPVisitor against a scripted far side: 1-4 users, 8-48 script "
                "tokens = datagrams, bursts, replies, pings, loss of the visitor connection by FIN / unknown frame / "
                "oversize frame at arbitrary points, connection attempts failing at dial / by error response / by "
                "close, also several in a row; plain / encrypted / compressed) and e2es runs (tunnel traffic through "
                "real SUDPVisitor + frps + sudp proxy in-process) and spx runs (the real udp proxy of the server inside a "
                "real frps - Service, Control, proxy.NewProxy(udp).Run, work-connection loop, reader / sender per work "
                "connection, ForwardUserConn -, the harness playing frpc over the real dialer: NewProxy, a NewWorkConn for "
                "every ReqWorkConn, 1-4 users, 10-40 script tokens = datagrams, bursts, replies, pings, UDPPackets without "
                "remote address or with undecodable content, loss of the work connection by close / unknown frame / "
                "oversize frame while idle - 1 to 3 replacements in a row followed by single datagrams - and right behind "
                "a burst; plain / encrypted / compressed) and cpx runs (the real client-side sudp proxy - "
                "proxy.NewProxy(sudp).Run / InWorkConn / Close - with 1 to 8 scripted work connections of which several are "
                "alive at once, the harness playing frps + the visitors on the far end of each and the backend: connections "
                "opened while requests of the others are outstanding (the backend holds answers back and releases them "
                "later) and while bursts are in flight, the same user address on several connections, connections taken "
                "away by FIN / unknown frame / oversize frame while the others carry traffic, undecodable contents, "
                "Close of the proxy) and e2ev runs (2-3 real SUDPVisitors, fresh per op, through a real frps to ONE real "
                "frpc sudp proxy, 2-5 users, requests whose answers are held back across the first datagram of another "
                "visitor; plain / encrypted+compressed) and batch ops (1-6 goroutines each build 2-25 packets with the "
                "real NewUDPPacket, decode all of them with the real GetContent keeping every result, and the kept results "
                "are hashed only after all goroutines are done) and BURSTS on all of these paths: tunnel / e2e / e2es ops "
                "with g=20..100 (the users send g distinct datagrams back to back - one user, the users in turn, arbitrary "
                "users, the length changing from datagram to datagram -, the backend keeps its g answers and then sends them "
                "back to back; e2e with all four encryption x compression settings), runs of 20-100 D tokens (datagrams "
                "without waiting) and R tokens (replies without waiting) at arbitrary points of sudp and spx scripts, runs "
                "of 20-100 D tokens and of q tokens followed by `a` (the backend releases the kept answers back to back on "
                "the per-user sockets of the Forwarder) in cpx scripts; every datagram and every answer of a burst is "
                "compared by content (length + hash), the expected wire of a burst being computed on the explicit-buffer "
                "machine UdpBuf; the first four sudp / spx / cpx scripts of a run take the four encryption x compression "
                "settings in turn; "
                "upx runs (the real client-side udp proxy - proxy.NewProxy(udp).Run / InWorkConn / Close: its reader, "
                "sender, heartbeat and Forwarder - with a scripted work connection, the harness playing frps and the backend: "
                "UDPPackets of 1-3 user addresses, single and in bursts, interleaved with messages of EVERY other type of the "
                "protocol (Ping with and without fields, Pong, Login…, NatHole…: single, runs of one type, all types in a row, "
                "before the first and behind the last datagram) and UDPPacket frames without content and address; EVERYTHING "
                "the backend receives is looked at; a datagram nobody sent is excused only by a message of a type the real "
                "server end never writes - that set is regenerated from server/proxy/udp.go); "
                "non-trivial = a tunnel / sudp / spx / cpx / upx / e2ev run that delivered something, a batch without error, a frame accepted or rejected, a malformed "
                "string that decodes, a non-empty payload; distinct = distinct (op line, result) pairs",
        "trusted": COMMON_TRUST + [
            "models Frp/Model/Base64.lean, Frp/Model/Udp.lean, Frp/Model/Sudp.lean, Frp/Model/UdpSrv.lean, "
            "Frp/Model/SudpPx.lean, Frp/Model/UdpBuf.lean (read loop with its reused buffer), Frp/Model/UdpLayers.lean "
            "(wrapper order at the five sites of the udp / sudp path; Frp/Model/Layers.lean of C01 is only read) written by hand; "
            "tied by the udp engine (real udp.NewUDPPacket/GetContent/ForwardUserConn/Forwarder, msg.WriteMsg/ReadMsg/"
            "ReadMsgInto, visitor.NewVisitor(SUDPVisitorConfig).Run/Close with a scripted visitor.Helper, "
            "server.NewService + a scripted frpc for server/proxy/udp.go, client proxy.NewProxy(SUDPProxyConfig).Run/"
            "InWorkConn/Close with scripted work connections, stand-alone SUDPVisitors against a real frps + frpc)",
            "cpx ops: the far end of every work connection (frps + visitor) and the backend are played by the harness; "
            "the light-load schedule of a script (each request is forwarded and answered before the next token of the "
            "same connection, held answers are sent at the `a` token) is computed by the Lean engine from the model; "
            "e2ev ops: the visitors' Helper dials the real frps directly (tcpMux off on that frps + frpc pair)",
            "spx ops: the frpc end of the work connections is played by the harness; the light-load schedule of a script "
            "(cancelled senders have left before the next datagram, the current sender takes it) is computed by the Lean "
            "engine from the model; the placement of a datagram that was in flight when the work connection was taken "
            "away (old connection, new connection, lost) is taken over from the implementation when it is an allowed one",
            "sudp ops: the far side of the visitor connection (frps + sudp proxy) is played by the harness; the light-load "
            "schedule of a script (which datagram opens which connection, which one is consumed by a failing attempt) is "
            "computed by the Lean engine from the model and by the harness from the same rules",
            "the harness never names the type of msg.UDPPacket.Content: packets are built with udp.NewUDPPacket and read "
            "with udp.GetContent; a packet with an arbitrary content text is written as a frame by hand (spx / cpx `b` tokens) "
            "or built through reflection (`dec` op), the content text of a packet is read off the real msg.WriteMsg (`b64` "
            "op) - a change of the field's representation is observed as behaviour, it does not break the build",
            "the order of the wrappers on the harness side of spx / sudp / cpx ops is the peer's as the code has it today "
            "(encryption next to the wire, compression above); the e2e / e2es / e2ev ops have real code at both ends",
            "translate UdpWire (go/ast, name-based: channels are told apart by their last name within a file; the types that "
            "flow into a `chan msg.Message` are the composite literals sent into it in that file plus UDPPacket when it is handed "
            "to udp.Forwarder / udp.ForwardUserConn) regenerates Frp/Gen/UdpWire.lean: message types passed to msg.WriteMsg and "
            "kind of reader (ReadMsg + type switch / ReadMsgInto) for server/proxy/udp.go Run, client/proxy/udp.go InWorkConn, "
            "client/proxy/sudp.go InWorkConn, client/visitor/sudp.go worker; Frp/Model/UdpWire.lean (typed stream, both kinds "
            "of reader) is written by hand, its configuration Frp/Model/UdpWireGen.lean only pairs the generated facts; the "
            "theorems that depend on the facts are in Frp/Props/C03Wire.lean, which the driver does not import",
            "upx ops: the frps end of the work connection and the backend are played by the harness; a control message "
            "of a type other than UDPPacket has no JSON key c / l / r (proved from the regenerated message schema)",
            "tunnel ops re-state the goroutines of server/proxy/udp.go and client/proxy/udp.go that join channels "
            "and work connection in the harness pump; e2e ops run those goroutines themselves (real frps + frpc)",
        ],
        "assumptions": [
            "kernel UDP on loopback; ReadFromUDP cuts a datagram longer than the buffer (Linux)",
            "a burst of g <= 100 datagrams whose payloads are bounded by 110000/g - 800 bytes fits the default receive "
            "buffer of the sockets frp opens (208 KiB): back-to-back traffic of that size is not overload (queues hold 1024); "
            "an op in which something is missing and nothing is wrong is executed again before it is reported (after three "
            "re-executions in one harness process that came back with something missing again no further op is re-executed: "
            "a loss that repeats is the implementation's); a frps + frpc pair whose readiness probe never makes the round "
            "trip is remembered as carrying nothing",
            "golib crypto (AES-CFB, IV first) and snappy are lawful stream layers (Layers.Lawful, as in C01) - assumed for "
            "udp_workconn_transparent, sampled by the e2e ops with all four settings",
            "net.IP text form is at most 39 characters, zone at most 15, port < 65536 (AddrOK); "
            "UDPAddr.String() is injective on the addresses that occur (map key of udpConnMap)",
            "reconnect is modelled coarsely: the old Forwarder generation is discarded at once (in Go its "
            "reader goroutine still drains the closed channel and old sockets live up to 30 s)",
            "sudp visitor model: SUDPVisitor.Close (closing sendCh/readCh) is not a label; the 60 s read deadline is "
            "the label readerDie; 15 ms after the far side has seen the visitor close its end the worker has returned "
            "(sudp ops re-run once when a datagram sent right after a connection loss is missing)",
            "server udp proxy model: UDPProxy.Close (closing sendCh/readCh/checkCloseCh) is not a label; the 60 s read "
            "deadline of a work connection is the label readerDie; a failing wrapper set-up (WithEncryption) is not a "
            "label; 15 ms after the next StartWorkConn has been read the cancelled sender of the previous connection "
            "has returned (spx ops re-run once when a datagram sent after that is missing)",
            "client sudp proxy model: a failing wrapper set-up in InWorkConn (WithEncryption) is not a label; the reader's "
            "own look at pxy.closeCh is covered by hbClose followed by readerDie; the 30 s heartbeat is the label tick "
            "(never due inside an op); the 30 s idle expiry of a per-user socket is the label sockExit (never due "
            "inside an op)",
            "batch ops see aliasing of a returned payload only when the implementation actually re-uses the memory "
            "while the harness still holds the result (same size class of golib/pool, same P); they keep up to 25 "
            "results per goroutine and up to 6 goroutines",
            "encryption/compression/bandwidth-limit wrappers of the work connection are byte-transparent (C01/C05)",
        ],
    }

META = {
        "engine": "lean+harness(udp)",
        "design_ref": "DESIGN.md §6 C03",
        "technique": "Lean 4 + go/ast translator (message types written / kind of reader per end of a UDPPacket connection); "
                     "base64 round-trip and frame-length arithmetic; the read loop with its reused buffer and the "
                     "queue behind it as a transition system with a refinement to the value semantics of the other machines; "
                     "wrapper-order mirror of both ends with the stream-layer algebra of C01; labelled transition systems of the "
                     "UDP forwarding path, the sudp visitor, the server-side work-connection life cycle and the client-side sudp proxy with "
                     "several concurrent work connections, with multiset-conservation, socket-ownership and non-interference "
                     "(frame / projection) theorems proved for "
                     "all interleavings; differential correspondence with the real codec and forwarder",
        "text": "Proof (partial): (1) GetContent(NewUDPPacket(b)) = b for every byte string, encoding injective, "
                "length 4*ceil(n/3); (2) the JSON body of a tunnel-path UDPPacket has length "
                "40+4*ceil(n/3)+|ip|+|port|+|zone|, so every payload <= 7605 bytes fits the 10240-byte reader limit "
                "for every address and no payload > 7674 ever fits; (3) for every interleaving of user datagrams "
                "from any number of addresses, queue transfers, backend replies, socket expiry, connection loss "
                "and reconnect: datagrams sent = queued + handed to backend + dropped at a listed site (as "
                "multisets, so nothing is duplicated, merged, split or invented), every datagram the backend "
                "sees on a socket comes from the one user address the socket was dialled for, every reply is "
                "written back to exactly that address; with packet sizes <= 7605 the only drop reasons are full "
                "queue, dead/re-established work connection, failed write to the backend; (4) sudp visitor "
                "(client/visitor/sudp.go dispatcher / worker / ForwardUserConn as a transition system): for every "
                "interleaving including any number of losses and re-establishments of the visitor connection and "
                "failed connection attempts, datagrams received = queued + held in firstPacket + written on exactly "
                "one visitor connection + dropped (multisets), so nothing is written twice - in particular the datagram "
                "that opened a connection is not repeated on a later one -, every written packet is one sent datagram "
                "with its sender's address, replies go to the address they carry, drops only by full queue, failed "
                "connection attempt or failed write, and at light load the canonical schedule delivers; (5) server side "
                "of a udp proxy (server/proxy/udp.go Run: work-connection loop, one reader and one sender goroutine per "
                "work connection, sendCh / readCh / checkCloseCh shared by all work connections, per-connection cancel, as "
                "a transition system): for every interleaving including any number of replacements of the work "
                "connection, idle or under traffic: datagrams received = queued + written on exactly one work "
                "connection + dropped (multisets), every written packet is one sent datagram with its sender's address "
                "on a connection the proxy obtained, replies go to the address they carry and packets without address "
                "or with undecodable content reach nobody, there is one reader and it belongs to the current "
                "connection, every live sender other than the current connection's has been cancelled (it is not "
                "parked on sendCh alone), once the cancelled senders have left at most one sender remains and a "
                "datagram taken from sendCh is written on the CURRENT connection, drops only by full queue or a failed "
                "write, and a connection closed locally under a live sender is being replaced; after any number k of "
                "idle replacements the next datagram is written on connection gen+k and nothing is dropped; (6) client side "
                "of a sudp proxy (client/proxy/sudp.go InWorkConn: per work connection its own reader / sender / heartbeat "
                "goroutines, readCh / sendCh, closeFn and Forwarder; several work connections - one per visitor connection - "
                "alive at once, as a transition system): for every interleaving of further InWorkConn calls, traffic, "
                "failures and Close: per connection, packets read from work connection i = queued on i + handed to the "
                "backend through sockets of i + dropped on i, replies read from sockets of i = queued on i + written on "
                "work connection i + dropped on i (multisets), a socket serves one user address of one connection, an "
                "action of connection j and the opening of a further connection leave every other connection exactly as "
                "it was (frame theorem for whole runs; projection theorem: a connection's state is a function of its own "
                "actions), a connection is closed only by its own reader / sender failing or its heartbeat seeing the "
                "proxy closed, an open connection has dropped nothing except by overload / undecodable content / failed "
                "backend write, and at light load a datagram and its reply are carried on connection i whatever the "
                "other connections do; (7) decoding a batch of packets gives each payload back independently of what "
                "else is decoded (the kept results of the real GetContent are compared after the whole batch, also "
                "from several goroutines at once); (8) a queued packet owns its bytes: the read loops of ForwardUserConn / "
                "Forwarder.writerFn with their ONE reused read buffer as explicit state and the sender goroutine of the work "
                "connection serialising later (transition system UdpBuf): for every interleaving of reads and sends, what has "
                "been serialised followed by what waits in the queue is exactly the sequence of datagrams that found room, "
                "each as it was when it was read - no later read can change a queued message -, a burst of up to 1024 "
                "datagrams read before the first is serialised goes out datagram by datagram with its own payload, and the "
                "queue of this machine is the sendCh of the forwarding machine of (3) (refinement); a machine that enqueues "
                "buf[:n] by reference instead sends a payload nobody sent on a two-datagram burst (witness) while request / "
                "reply traffic cannot tell the two apart (theorem); (9) both ends of every connection that carries UDPPackets "
                "build the same byte-transforming wrapper stack - encryption next to the wire, compression above - for every "
                "option combination (udp work connection frps / frpc, sudp work connection, sudp visitor connection), with "
                "any lawful cipher / compression layers frames written at one end are read intact at the other, and the "
                "swapped order would be understood exactly when at most one of the two options is set (with a concrete "
                "pair of lawful layers on which it is not); (10) the stream of a connection that carries UDPPackets is "
                "typed in both directions (transition system UdpWire over the forwarding machine of (3): either end may write a "
                "message of any type it writes in the source at any point; a reader either switches on the type - Ping ignored, "
                "other types have no case - or unmarshals whatever arrives into a UDPPacket without looking at the type byte, "
                "as frpc's readers do): for every interleaving of datagrams, replies and keep-alives of both sides, what the "
                "backend is handed is a sub-multiset of what the users sent and what the users get is a sub-multiset of what "
                "the backend sockets answered, PROVIDED every reader suits its peer (an untyped reader's peer writes nothing but "
                "UDPPacket; a typed reader has a case for everything its peer writes) - which holds for the sets of message "
                "types REGENERATED from the four sites (frps -> frpc on the udp work connection: UDPPacket only; frpc -> frps: "
                "UDPPacket, Ping; visitor -> sudp proxy: UDPPacket only; back: UDPPacket, Ping); with a server end that also "
                "writes Ping one keep-alive hands the backend a zero-length datagram nobody sent (witness). The models "
                "are tied to the code by ~5650 ops per quick run against the real functions, the Lean predicate "
                "being evaluated on the implementation's results.",
        "note": "Known finding: udpPacketSize is not validated; above 7605 a single large datagram produces a "
                "frame the peer rejects (client side: reader goroutine exits, connection stays up, tunnel is "
                "dead until restart). Not covered: kernel UDP, goroutine timing (30 s idle-expiry window of a "
                "per-user socket), the old Forwarder generation after a reconnect, SUDPVisitor.Close, UDPProxy.Close, "
                "the 60 s read deadline of a work connection in real time, "
                "loss of the visitor connection inside a real frps (the scripted far side plays frps there; the "
                "e2es runs go over one visitor connection; the e2ev runs have several, none of them is lost).",
    }
