from props import COMMON_TRUST


def router_nontrivial(tok, res):
    if tok[0] in ("get", "mget"):
        return res != "none"
    if tok[0] in ("add", "madd"):
        return res == "conflict"
    return False


PROP = {
        "level": "proof",
        "gens": [],
        "theorems": [
            "Frp.C06.inv_reachable", "Frp.C06.get_longest", "Frp.C06.get_none",
            "Frp.C06.getVhost_some", "Frp.C06.getVhost_none", "Frp.C06.getVhost_case",
            "Frp.C06.add_conflict_iff", "Frp.C06.add_conflict_unchanged", "Frp.C06.add_ok_mem",
            "Frp.C06.del_mem", "Frp.C06.del_get_other", "Frp.C06.del_not_returned",
            "Frp.C06.wildLevels_eq", "Frp.C06.holdsOn_sound", "Frp.C06.model_holdsOn",
        ],
        "engines": [
            {"name": "router", "quick_n": 20000, "thorough_n": 100000, "thorough_seeds": 6,
             "nontrivial": router_nontrivial,
             "result_class": lambda r: "hit" if r.isdigit() else r[:10]},
        ],
        "rule": "router engine: generated add/del/get histories over an overlap-rich alphabet; a case is "
                "non-trivial when a lookup returns a route or a registration is refused as duplicate; "
                "distinct = distinct (op line, result) pairs",
        "trusted": COMMON_TRUST + [
            "model Frp/Model/Router.lean, Frp/Model/Host.lean written by hand; tied by the router engine "
            "(real vhost.Routers via HTTPReverseProxy.Register/UnRegister/GetRouteConfig and vhost.Muxer.Listen/getListener, CanonicalHost)",
        ],
        "assumptions": [
            "strings.ToLower is modelled for ASCII only; non-ASCII hosts are counted and skipped",
            "keep-alive reuse of pooled backend connections is not covered by the router model",
        ],
    }

META = {
        "engine": "lean+harness(router)",
        "design_ref": "DESIGN.md §6 C06",
        "technique": "Lean 4 invariant + refinement-to-spec proof over all add/del histories; differential correspondence with the real vhost.Routers / getVhost / Muxer.getListener",
        "text": "Proof: for every reachable route table (any history of registrations/removals) and every host, path, user, the modelled lookup returns a registered matching route that is at least as specific (host pattern, then user restriction, then location length) as every other registered matching route, and none iff nothing matches; duplicates are refused leaving the table unchanged; removal affects only the removed triple. Kernel-checked, axioms propext/Classical.choice/Quot.sound only. The model is hand-written and tied to the code by replaying 20k (quick) generated operations per run on the real Routers/HTTPReverseProxy/Muxer and on the model, with the Lean property predicate evaluated on the implementation's own answers.",
        "note": "Trusted: Lean kernel; the hand-written model of router.go/getVhost/getListener/CanonicalHost and the correspondence harness generators (ASCII hosts; non-ASCII skipped and counted). Not covered by the theorem: reuse of pooled keep-alive backend connections across re-registration (net/http Transport), the golib mux dispatch when the vhost port is shared with the control port.",
    }
