from props import COMMON_TRUST


def router_nontrivial(tok, res):
    if tok[0] in ("get", "mget", "hreq"):
        return res != "none"
    if tok[0] in ("add", "madd"):
        return res == "conflict"
    if tok[0] == "spell":
        return tok[2] == "1" or tok[3] != "-"
    return False


def vreg_nontrivial(tok, res):
    if tok[0] in ("hreq", "creq", "sreq", "areq"):
        return res != "none"
    if tok[0] == "run":
        return res not in ("ok", "busy")
    return False


PROP = {
        "level": "proof",
        "gens": [],
        "theorems": [
            "Frp.C06.inv_reachable", "Frp.C06.get_longest", "Frp.C06.get_none",
            "Frp.C06.getVhost_some", "Frp.C06.getVhost_none", "Frp.C06.getVhost_case",
            "Frp.C06.add_conflict_iff", "Frp.C06.add_conflict_unchanged", "Frp.C06.add_ok_mem",
            "Frp.C06.del_mem", "Frp.C06.del_get_other", "Frp.C06.del_not_returned",
            "Frp.C06.wildLevels_eq", "Frp.C06.holdsOn_sound", "Frp.C06.model_holdsOn",
            # the server-side registration layer (Run / Close of http, https, tcpmux proxies, http groups)
            "Frp.C06.reg_inv_reachable", "Frp.C06.reg_table_eq_live", "Frp.C06.reg_served",
            "Frp.C06.reg_lookup_most_specific", "Frp.C06.reg_run_ok", "Frp.C06.reg_refused_unchanged",
            "Frp.C06.reg_close_hs", "Frp.C06.reg_close_effective",
            # host spellings (case, trailing dot, port suffix)
            "Frp.C06.canonicalHost_spell", "Frp.C06.spellHoldsOn_sound", "Frp.C06.model_spellHolds",
            "Frp.C06.spelled_lookup_holds",
            # histories of registration changes INTERLEAVED WITH TRAFFIC: a lookup has no memory
            "Frp.C06.traffic_leaves_no_trace", "Frp.C06.lookup_depends_only_on_table", "Frp.C06.same_changes_same_answer",
            "Frp.C06.same_table_same_answer", "Frp.C06.traffic_most_specific",
            # credentials of the route a request is forwarded along (http groups; clause of C07 / C13, KNOWN finding)
            "Frp.C06.uniform_sound", "Frp.C06.httpGroup_checked_uniform", "Frp.C06.httpGroup_creds_checked_sound",
            "Frp.C06.httpGroup_creds_partial", "Frp.C06.httpGroup_creds_witness",
        ],
        "engines": [
            {"name": "router", "quick_n": 20000, "thorough_n": 100000, "thorough_seeds": 6,
             "nontrivial": router_nontrivial,
             "result_class": lambda r: "hit" if r.isdigit() else ("host" if r.startswith("x") else r[:10])},
            {"name": "vreg", "quick_n": 8000, "thorough_n": 40000, "thorough_seeds": 6,
             "nontrivial": vreg_nontrivial,
             "result_class": lambda r: "hit" if r.isdigit() else ("dump" if r.startswith("http[") else
                                                                  ("hit:" + r.split(":", 1)[1] if r[:1].isdigit() and ":" in r else r[:10]))},
        ],
        "rule": "router engine: generated add/del/get histories over an overlap-rich alphabet, real requests through "
                "ServeHTTP with Host spellings combining letter case, trailing dot and port suffix; vreg engine: generated "
                "histories of real proxy Run/Close (http incl. groups, https, tcpmux; multi-domain, multi-location, "
                "subdomain, colliding names, httpUser/httpPassword) interleaved with real HTTP requests (with and without a "
                "basic-auth pair), TLS ClientHellos and CONNECTs and table dumps; request lines are REPEATED byte for byte "
                "after later registration changes, and bracketed changes put the same requests immediately before and after "
                "each kind of change (plain proxy starts / closes, first member of a group, further member, member leaves, "
                "last member leaves) and after its undoing; a case is non-trivial when a request reaches a proxy / a lookup returns a route, a registration is "
                "refused, or a spelling carries a dot or a port; distinct = distinct (op line, result) pairs",
        "trusted": COMMON_TRUST + [
            "model Frp/Model/Router.lean, Frp/Model/Host.lean written by hand; tied by the router engine "
            "(real vhost.Routers via HTTPReverseProxy.Register/UnRegister/GetRouteConfig/ServeHTTP and vhost.Muxer.Listen/getListener, CanonicalHost)",
            "model Frp/Model/VhostReg.lean (HTTPProxy/HTTPSProxy/TCPMuxProxy Run+Close, HTTPGroupController) written by hand; tied by the "
            "vreg engine (real proxy.NewProxy(...).Run()/Close() on a real controller.ResourceController, requests through the real "
            "HTTPReverseProxy.ServeHTTP, HTTPS muxer and tcpmux CONNECT muxer; which proxy instance is asked for a work connection)",
        ],
        "assumptions": [
            "strings.ToLower is modelled for ASCII only; non-ASCII hosts are counted and skipped",
            "keep-alive reuse of pooled backend connections is not covered by the router model",
            "credentials (httpUser/httpPassword) enter only as far as they decide whether a request is forwarded at all (401) and, "
            "for http groups, whose credentials the group's route carries (KNOWN finding C06-httpgroup-member-credentials-ignored); "
            "the credential clauses themselves are C07's",
            "which member of an http load-balancing group serves a request is left open (any member agrees; rotation is C13); "
            "tcpmux load-balancing groups (server/group/tcpmux.go) are not in the registration model",
            "the registration model covers sequential Run/Close; their interleaving inside one Control is C10/C12",
        ],
    }

META = {
        "engine": "lean+harness(router,vreg)",
        "design_ref": "DESIGN.md §6 C06",
        "technique": "Lean 4 invariant + refinement-to-spec proof over all add/del histories; differential correspondence with the real vhost.Routers / getVhost / Muxer.getListener",
        "text": "Proof: for every reachable route table (any history of registrations/removals) and every host, path, user, the modelled lookup returns a registered matching route that is at least as specific (host pattern, then user restriction, then location length) as every other registered matching route, and none iff nothing matches; duplicates are refused leaving the table unchanged; removal affects only the removed triple; every spelling of a plain host name (any letter case, optional trailing dot, optional port suffix) canonicalises to the lower-case name and is routed like it. The same holds through the server-side registration layer: for every history of proxy Run/Close (http with customDomains x locations + subdomain, group and non-group path with rollback, https, tcpmux) the route table is exactly the union of the live proxies' (domain, location, user) triples, a refused Run leaves the live set unchanged, Close removes exactly the proxy's own routes from the next lookup on, and every lookup hands the request to a live proxy whose route is the most specific live match. Histories interleaved with traffic: a request leaves no trace in the state, the answers given during any history are, request by request, the lookup in the table produced by the registration changes preceding the request (whatever was asked or answered before, however often), hence every request of every history is answered by the most specific route live at that moment. For http load-balancing groups the credentials of the forwarding route are the first member's: proved unsound for members configured differently (witness; KNOWN finding, clause of C07/C13), sound for uniformly configured members and, for all join/leave histories, once joins compare credentials (repaired model behind a switch). Kernel-checked, axioms propext/Classical.choice/Quot.sound only. The model is hand-written and tied to the code by replaying 20k (quick) generated operations per run on the real Routers/HTTPReverseProxy(ServeHTTP)/Muxer and 8k operations on real proxy.NewProxy Run/Close with real routed HTTP/TLS/CONNECT requests (identical requests repeated across every kind of registration change), and on the models, with the Lean property predicate evaluated on the implementation's own answers.",
        "note": "Trusted: Lean kernel; the hand-written models of router.go/getVhost/getListener/CanonicalHost and of the Run/Close registration code (server/proxy/http.go, https.go, tcpmux.go, server/group/http.go) and the correspondence harness generators (ASCII hosts; non-ASCII skipped and counted). Not covered by the theorem: reuse of pooled keep-alive backend connections across re-registration (net/http Transport), the golib mux dispatch when the vhost port is shared with the control port.",
    }
