from props import COMMON_TRUST


def router_nontrivial(tok, res):
    if tok[0] in ("get", "mget", "hreq"):
        return res != "none"
    if tok[0] in ("copen", "creq"):
        return res[:3] in ("h1:", "h2:") and not res.endswith(":none") or res == "pri"
    if tok[0] in ("add", "madd"):
        return res == "conflict"
    if tok[0] == "spell":
        return tok[2] == "1" or tok[3] != "-"
    return False


def vreg_nontrivial(tok, res):
    if tok[0] in ("hreq", "creq", "sreq", "areq"):
        return res != "none"
    if tok[0] in ("hopen", "hnext"):
        return res[:3] in ("h1:", "h2:") and not res.endswith(":none") or res == "pri"
    if tok[0] == "run":
        return res not in ("ok", "busy")
    return False


PROP = {
        "level": "proof",
        "gens": ["RouteCtxFacts"],
        "theorems": [
            "Frp.C06.inv_reachable", "Frp.C06.get_longest", "Frp.C06.get_none",
            "Frp.C06.getVhost_some", "Frp.C06.getVhost_none", "Frp.C06.getVhost_case",
            "Frp.C06.add_conflict_iff", "Frp.C06.add_conflict_unchanged", "Frp.C06.add_ok_mem",
            "Frp.C06.del_mem", "Frp.C06.del_get_other", "Frp.C06.del_not_returned",
            "Frp.C06.wildLevels_eq", "Frp.C06.holdsOn_sound", "Frp.C06.model_holdsOn",
            # the server-side registration layer (Run / Close of http, https, tcpmux proxies, http groups)
            "Frp.C06.reg_inv_reachable", "Frp.C06.reg_table_eq_live", "Frp.C06.reg_served",
            "Frp.C06.reg_lookup_most_specific", "Frp.C06.reg_run_ok", "Frp.C06.reg_refused_unchanged",
            "Frp.C06.reg_close_hs", "Frp.C06.reg_close_effective",
            # host spellings (case, trailing dot, port suffix)
            "Frp.C06.canonicalHost_spell", "Frp.C06.spellHoldsOn_sound", "Frp.C06.model_spellHolds",
            "Frp.C06.spelled_lookup_holds",
            # histories of registration changes INTERLEAVED WITH TRAFFIC: a lookup has no memory
            "Frp.C06.traffic_leaves_no_trace", "Frp.C06.lookup_depends_only_on_table", "Frp.C06.same_changes_same_answer",
            "Frp.C06.same_table_same_answer", "Frp.C06.traffic_most_specific",
            # credentials of the route a request is forwarded along (http groups; clause of C07 / C13, KNOWN finding)
            "Frp.C06.uniform_sound", "Frp.C06.httpGroup_checked_uniform", "Frp.C06.httpGroup_creds_checked_sound",
            "Frp.C06.httpGroup_creds_partial", "Frp.C06.httpGroup_creds_witness",
            # requests SHARING A CLIENT CONNECTION (keep-alive, h2c by upgrade / prior knowledge) interleaved with registration
            # changes, idle backend connections re-used by the transport (Props/C06Conn.lean over Model/HttpConn.lean)
            "Frp.C06.wrapped_own_route", "Frp.C06.serveHTTP_own_route", "Frp.C06.conn_history_eq_ref",
            "Frp.C06.conn_structure_irrelevant", "Frp.C06.regInv_reachable", "Frp.C06.conn_request_most_specific",
            "Frp.C06.unregister_gone", "Frp.C06.former_owner_never_answers",
            "Frp.C06.trusting_context_user_witness", "Frp.C06.trusting_context_owner_witness",
            "Frp.C06.source_handlers_resolve_first",
        ],
        "extra_targets": ["Frp.Props.C06Conn"],
        "engines": [
            {"name": "router", "quick_n": 20000, "thorough_n": 100000, "thorough_seeds": 6,
             "nontrivial": router_nontrivial,
             "result_class": lambda r: "hit" if r.isdigit() else ("host" if r.startswith("x") else
                                      (r[:3] + ("none" if r.endswith(":none") else "hit") if r[:3] in ("h1:", "h2:") else r[:10]))},
            {"name": "vreg", "quick_n": 8000, "thorough_n": 40000, "thorough_seeds": 6,
             "nontrivial": vreg_nontrivial,
             "result_class": lambda r: "hit" if r.isdigit() else ("dump" if r.startswith("http[") else
                                                                  ("hit:" + r.split(":", 1)[1] if r[:1].isdigit() and ":" in r else
                                                                   (r[:3] + ("none" if r.endswith(":none") else "hit") if r[:3] in ("h1:", "h2:") else r[:10])))},
        ],
        "rule": "router engine: generated add/del/get histories over an overlap-rich alphabet, real requests through "
                "ServeHTTP with Host spellings combining letter case, trailing dot and port suffix, every registration with a "
                "backend of its own that ANSWERS (so the transport pools and re-uses backend connections); client connections to a "
                "real http.Server in front of the reverse proxy as a class — HTTP/1.1 keep-alive, h2c opened by the RFC 7540 "
                "section 3.2 upgrade (asked again on every request until it succeeds), h2c with prior knowledge (with and without a "
                "route the PRI pseudo request resolves to) —, 1 to 7 requests / streams each (the same request again, the same host "
                "and path with another / no user, another path, aimed at another registered route, free), several connections open "
                "at once and across unrelated operations, interleaved with registration changes next to the routes they use (same "
                "triple again, removed, removed and registered anew = another owner, user-restricted / unrestricted sibling, "
                "other location); the answer is the registration whose backend answered; vreg engine: generated "
                "histories of real proxy Run/Close (http incl. groups, https, tcpmux; multi-domain, multi-location, "
                "subdomain, colliding names, httpUser/httpPassword) interleaved with real HTTP requests (with and without a "
                "basic-auth pair), TLS ClientHellos and CONNECTs and table dumps; client connections (keep-alive, h2c upgrade, h2c prior "
                "knowledge) to a real http.Server in front of the ResourceController's reverse proxy whose requests / streams (the same "
                "again, same host and path with another user, aimed at other live proxies, remembered probes) alternate with proxies that "
                "start (user-restricted / unrestricted sibling of the proxy the connection was opened through, group members, any) or "
                "close (that proxy, coming back as a new instance or not); request lines are REPEATED byte for byte "
                "after later registration changes, and bracketed changes put the same requests immediately before and after "
                "each kind of change (plain proxy starts / closes, first member of a group, further member, member leaves, "
                "last member leaves) and after its undoing; a case is non-trivial when a request reaches a proxy / a lookup returns a route, a registration is "
                "refused, or a spelling carries a dot or a port; distinct = distinct (op line, result) pairs",
        "trusted": COMMON_TRUST + [
            "model Frp/Model/Router.lean, Frp/Model/Host.lean written by hand; tied by the router engine "
            "(real vhost.Routers via HTTPReverseProxy.Register/UnRegister/GetRouteConfig/ServeHTTP and vhost.Muxer.Listen/getListener, CanonicalHost)",
            "model Frp/Model/HttpConn.lean (ServeHTTP / authorize / injectRequestInfoToCtx / the handler wrapped by h2c.NewHandler / Rewrite's "
            "pool key / DialContext -> CreateConnection; client connections, the transport's idle backend connections) written by hand; its "
            "policy `never` (no handler takes inherited context values for the request's) is tied to the source by the regenerated "
            "Gen/RouteCtxFacts (go/ast: order of resolve / read events per handler; name-based call graph inside pkg/util/vhost) and "
            "C06.source_handlers_resolve_first, and to the behaviour by the router engine's copen / creq / cclose ops (real http.Server, "
            "x/net/http2 Framer client, net/http's and x/net's h2c / http2 server code as vendored)",
            "model Frp/Model/VhostReg.lean (HTTPProxy/HTTPSProxy/TCPMuxProxy Run+Close, HTTPGroupController) written by hand; tied by the "
            "vreg engine (real proxy.NewProxy(...).Run()/Close() on a real controller.ResourceController, requests through the real "
            "HTTPReverseProxy.ServeHTTP — directly and through an http.Server with keep-alive / h2c client connections (hopen / hnext / hshut over "
            "Model/HttpConn) —, HTTPS muxer and tcpmux CONNECT muxer; which proxy instance is asked for a work connection)",
        ],
        "assumptions": [
            "strings.ToLower is modelled for ASCII only; non-ASCII hosts are counted and skipped",
            "the transport's pool is modelled as a set of (pool key, backend) pairs with an arbitrary choice between an idle connection "
            "and a new one per request; IdleConnTimeout / MaxIdleConnsPerHost only restrict that choice; requests of the connection ops "
            "are sequential (one stream at a time), GET without a body, request targets starting with '/'",
            "credentials (httpUser/httpPassword) enter only as far as they decide whether a request is forwarded at all (401) and, "
            "for http groups, whose credentials the group's route carries (KNOWN finding C06-httpgroup-member-credentials-ignored); "
            "the credential clauses themselves are C07's",
            "which member of an http load-balancing group serves a request is left open (any member agrees; rotation is C13); "
            "tcpmux load-balancing groups (server/group/tcpmux.go) are not in the registration model",
            "the registration model covers sequential Run/Close; their interleaving inside one Control is C10/C12",
        ],
    }

META = {
        "engine": "lean+harness(router,vreg)",
        "design_ref": "DESIGN.md §6 C06",
        "technique": "Lean 4 invariant + refinement-to-spec proof over all add/del histories; differential correspondence with the real vhost.Routers / getVhost / Muxer.getListener",
        "text": "Proof: for every reachable route table (any history of registrations/removals) and every host, path, user, the modelled lookup returns a registered matching route that is at least as specific (host pattern, then user restriction, then location length) as every other registered matching route, and none iff nothing matches; duplicates are refused leaving the table unchanged; removal affects only the removed triple; every spelling of a plain host name (any letter case, optional trailing dot, optional port suffix) canonicalises to the lower-case name and is routed like it. The same holds through the server-side registration layer: for every history of proxy Run/Close (http with customDomains x locations + subdomain, group and non-group path with rollback, https, tcpmux) the route table is exactly the union of the live proxies' (domain, location, user) triples, a refused Run leaves the live set unchanged, Close removes exactly the proxy's own routes from the next lookup on, and every lookup hands the request to a live proxy whose route is the most specific live match. Histories interleaved with traffic: a request leaves no trace in the state, the answers given during any history are, request by request, the lookup in the table produced by the registration changes preceding the request (whatever was asked or answered before, however often), hence every request of every history is answered by the most specific route live at that moment. Requests sharing a client connection (HTTP/1.1 keep-alive; streams of an h2c connection opened by the upgrade or with prior knowledge, whose contexts inherit the opening request's route information) and the transport's idle backend connections: the handler wrapped by h2c.NewHandler, handed ANY inherited context, answers a request from the backend of the registration getVhost finds for the request's own host, path and user in the table at that moment; for every history of registrations, connections of every kind, requests on them and every choice of the transport between an idle and a new backend connection the answers equal those of a server without connections, contexts and pool (so the connection's earlier streams do not enter), every one is the most specific registered match, registrations are numbered apart, and once a route is un-registered no later request — on a kept connection, as a later stream, over a pooled backend connection — is answered by the former owner, re-registered triple or not; a handler that trusts the inherited context when host, path and peer agree violates both (witnesses), and the source is read (go/ast) to show that ServeHTTP and the wrapped handler resolve unconditionally before anything reads the context keys. For http load-balancing groups the credentials of the forwarding route are the first member's: proved unsound for members configured differently (witness; KNOWN finding, clause of C07/C13), sound for uniformly configured members and, for all join/leave histories, once joins compare credentials (repaired model behind a switch). Kernel-checked, axioms propext/Classical.choice/Quot.sound only. The model is hand-written and tied to the code by replaying 20k (quick) generated operations per run on the real Routers/HTTPReverseProxy(ServeHTTP)/Muxer — incl. about 2k requests on keep-alive / h2c client connections to a real http.Server with answering, pooled backends — and 8k operations on real proxy.NewProxy Run/Close with real routed HTTP/TLS/CONNECT requests (identical requests repeated across every kind of registration change), and on the models, with the Lean property predicate evaluated on the implementation's own answers.",
        "note": "Trusted: Lean kernel; the hand-written models of router.go/getVhost/getListener/CanonicalHost and of the Run/Close registration code (server/proxy/http.go, https.go, tcpmux.go, server/group/http.go) and the correspondence harness generators (ASCII hosts; non-ASCII skipped and counted). Not covered by the theorem: net/http's Transport and x/net's h2c / http2 server themselves (modelled: pool keyed by the context's RouteConfig, later streams entering the wrapped handler with the opening request's context; exercised for real by the router engine), concurrent streams of one connection, the golib mux dispatch when the vhost port is shared with the control port.",
    }
