from props import COMMON_TRUST


def sess_nontrivial(tok, res):
    r = res.split("|", 1)[0]
    if tok[0] in ("reset", "randid"):
        return tok[0] == "randid"
    return r not in ("disabled", "badop", "timeout")


def sess_class(r):
    r = r.split("|", 1)[0]
    if r.startswith("old:"):
        return "old"
    if r.startswith("p:"):
        return "p"
    if r.startswith("err:"):
        return "err"
    return r[:14]


PROP = {
        "level": "proof",
        "gens": [],
        "theorems": [
            "Frp.Sess.ninv_step", "Frp.Sess.rinv_step", "Frp.C12.reachable_inv",
            "Frp.C12.holds_is_named", "Frp.C12.one_live_proxy_per_name", "Frp.C12.named_is_live",
            "Frp.C12.reg_exist_refused", "Frp.C12.reg_exist_free", "Frp.C12.reg_add_refused",
            "Frp.C12.reg_add_free", "Frp.C12.refused_iff_occupied",
            "Frp.C12.step_frame", "Frp.C12.names_entry_stable", "Frp.C12.close_only_own",
            "Frp.C12.ack_after_teardown", "Frp.C12.ack_after_all_earlier",
            "Frp.C12.one_active_session_per_run", "Frp.C12.own_run_never_blocks",
            "Frp.C12.byRun_is_newest", "Frp.C12.newest_is_designated",
            "Frp.C12.late_del_keeps_newer", "Frp.C12.del_removes_only_self", "Frp.C12.unguarded_del_witness",
            "Frp.C12.fresh_id_unused", "Frp.C12.fresh_login_replaces_nobody", "Frp.C12.fresh_add_finds_slot_empty",
            "Frp.C12.holdsOn_sound",
        ],
        "engines": [
            {"name": "sess", "quick_n": 9000, "thorough_n": 30000, "thorough_seeds": 5,
             "nontrivial": sess_nontrivial, "result_class": sess_class},
        ],
        "rule": "sess engine: a real server.Service in-process, scripted raw clients over net.Pipe on the internal "
                "listener; every goroutine of RegisterControl / Control.worker / RegisterProxy / CloseProxy is parked "
                "at the verifhook gates and released label by label in generated orders (hand-written hand-over "
                "schedules + random walks over the enabled labels + blindly chosen labels); after each label the "
                "real ctlsByRunID and pxys tables are dumped and compared with the model, and C12.holdsOn is "
                "evaluated on the dumped tables; non-trivial = a label that was enabled; distinct = distinct "
                "(op line, result+tables) pairs",
        "trusted": COMMON_TRUST + [
            "model Frp/Model/Sess.lean written by hand from server/service.go RegisterControl, server/control.go, "
            "server/proxy/proxy.go Manager, pkg/msg/handler.go; tied by the sess engine",
            "verifhook gates of commit 75a0848 (ctl.*, worker.*, reg.*, close.*) perturb timing only; "
            "Service.VerifSessDump / proxy.Manager.VerifDump are read-only",
            "fact check (op randid): util.RandID output = first 16 hex digits of the bytes it read from crypto/rand.Reader",
        ],
        "assumptions": [
            "the id generator is abstract in the model: a generated run id is one no session has, and no login presents "
            "an id before the LoginResp disclosed it (unpredictability itself is not a theorem)",
            "the dispatcher runs handlers sequentially and closes Done only after the last handler returned (pkg/msg/handler.go)",
            "resources behind a proxy (ports, routes, visitors: C09/C10), the work-connection pool (C11), plugins, "
            "MaxPortsPerClient and Control.runID=\"\" written by Replaced are outside this model; pxy.Run's outcome is an oracle",
            "session identity = Login.Hostname chosen by the harness; pointer equality c == ctl of ControlManager.Del is session-number equality",
        ],
    }

META = {
        "engine": "lean+harness(sess)",
        "design_ref": "DESIGN.md §6 C12, Appendix A.1",
        "technique": "Lean 4 small-step labelled transition system of the session bookkeeping (16 labels = atomic "
                     "actions between mutex sections / gates); two inductive invariant bundles proved for every label and "
                     "lifted to all label sequences; differential correspondence by gated schedules on the real Service "
                     "with table dumps after every label",
        "text": "Proof (model level) + correspondence. For every interleaving of the atomic actions of any number of "
                "sessions: at most one live proxy per name and its holder is the session stored in the global table; "
                "a registration meeting an occupied name (at the Exist check or at the Add) is refused and changes "
                "nothing but the caller's program counter; an entry of the name table is removed only by an action "
                "of the session it designates and never overwritten, a close request changes at most the sender's own "
                "entry; a login is acknowledged only after the session it replaced - and every earlier session of the "
                "run id, chains of simultaneous re-logins included - has closed its done channel and stands in no entry "
                "of the name table, hence at most one acknowledged live session per run id and a session's registration "
                "is never blocked by another session of its own run id; the run-id table designates an added, not "
                "deleted session with the largest Add stamp, and conversely the newest session is designated until its "
                "own Del; a late Del of another session never removes an entry (witness: without the c==ctl guard it "
                "would); a login without run id finds its slot empty and replaces nobody (id freshness as assumed of "
                "the generator).",
        "note": "Trusted: Lean kernel; hand-written model; harness generators; gates. model_holdsOn (the model's own "
                "tables satisfy the executable predicate) is not proved separately - the predicate is evaluated on the "
                "implementation's tables and the tables are also compared with the model's after every label.",
    }
