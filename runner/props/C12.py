from props import COMMON_TRUST


def sess_nontrivial(tok, res):
    r = res.split("|", 1)[0]
    if tok[0] in ("reset", "randid", "randconc"):
        return tok[0] != "reset"
    if tok[0] == "name":
        return False
    return r not in ("disabled", "badop", "timeout", "wedged", "blocked")


def sess_class(r):
    r = r.split("|", 1)[0]
    if r.startswith("old:"):
        return "old"
    if r.startswith("p:"):
        return "p"
    if r.startswith("req:"):
        return "req:<session>"
    if r.startswith("wfail:"):
        return "wfail:<session>" + (";done" if r.endswith(";done") else "")
    if r.startswith("err:"):
        return "err"
    if r.startswith("fresh:"):
        return "fresh:<id>"
    if r.startswith("ids:"):
        return "ids:<ids>" + (";own=all" if ";other=0;bgdup=0" in r else "")
    if r.startswith("sum:"):
        return "sum:" + ("clean" if r.endswith(";bad=;dup=") else "repeats")
    return r[:14]


def relog_class(r):
    if not r.startswith("ids:"):
        return r[:14]
    ids = r[4:].split(";")[0].split(",")
    kept = sum(1 for i in range(1, len(ids)) if ids[i] == ids[i - 1] and ids[i] != "x")
    return "ids:%d logins,%d presenting the id of the one before" % (len(ids), kept)


PROP = {
        "level": "proof",
        "gens": ["RandFacts", "KeyFacts", "DispFacts"],
        "extra_targets": ["Frp.Props.C12Res", "Frp.Props.C12Keys", "Frp.Props.C12Disp", "Frp.Props.C12DispCode"],
        "theorems": [
            "Frp.Sess.ninv_step", "Frp.Sess.rinv_step", "Frp.C12.reachable_inv",
            "Frp.C12.holds_is_named", "Frp.C12.one_live_proxy_per_name", "Frp.C12.named_is_live",
            "Frp.C12.reg_exist_refused", "Frp.C12.reg_exist_free", "Frp.C12.reg_add_refused",
            "Frp.C12.reg_add_free", "Frp.C12.refused_iff_occupied",
            "Frp.C12.step_frame", "Frp.C12.names_entry_stable", "Frp.C12.close_only_own",
            "Frp.C12.ack_after_teardown", "Frp.C12.ack_after_all_earlier",
            "Frp.C12.one_active_session_per_run", "Frp.C12.own_run_never_blocks",
            "Frp.C12.byRun_is_newest", "Frp.C12.newest_is_designated",
            "Frp.C12.late_del_keeps_newer", "Frp.C12.del_removes_only_self", "Frp.C12.unguarded_del_witness",
            "Frp.C12.fresh_id_unused", "Frp.C12.fresh_login_replaces_nobody", "Frp.C12.fresh_add_finds_slot_empty",
            "Frp.C12.randid_code_shape", "Frp.C12.randid_concurrent_calls_return_own_draws", "Frp.C12.randid_is_hex16",
            "Frp.C12.randid_same_id_same_draw", "Frp.C12.randid_shared_pool_witness",
            "Frp.C12.idsOK_sound", "Frp.C12.burstOK_sound", "Frp.C12.fresh_login_enabled",
            "Frp.C12.ackOn_sound", "Frp.C12.model_ackSpec", "Frp.C12.holdsOn_sound",
            # the incumbent keeps working: name-keyed resources behind a proxy (Frp/Props/C12Res.lean)
            "Frp.Sess.vinv_step", "Frp.C12.reachable_vinv", "Frp.C12.entry_holder_open", "Frp.C12.incumbent_owns_entry",
            "Frp.C12.vis_entry_stable", "Frp.C12.nat_entry_stable", "Frp.C12.reg_run_refused",
            "Frp.C12.reg_run_refused_iff_occupied", "Frp.C12.reg_run_free", "Frp.C12.refused_reg_frame",
            "Frp.C12.teardown_releases_all", "Frp.C12.ack_after_entries_released", "Frp.C12.run_fail_close_witness",
            "Frp.C12.resOn_sound", "Frp.C12.vis_entry_new", "Frp.C12.nat_entry_new", "Frp.C12.model_resSpec",
            # names as the client sends them; the client half of a re-login (Frp/Props/C12Keys.lean, Frp/Gen/KeyFacts.lean)
            "Frp.C12.serverName_is_sent_name", "Frp.C12.key_is_sent_name", "Frp.C12.key_facts_shape",
            "Frp.C12.table_keys_are_the_sent_name", "Frp.C12.client_login_shape", "Frp.C12.src_not_early",
            "Frp.C12.refused_login_keeps_run_id", "Frp.C12.every_login_presents_last_assigned",
            "Frp.C12.relogin_presents_last_assigned", "Frp.C12.work_conns_carry_assigned",
            "Frp.C12.early_assign_forgets_witness", "Frp.C12.presentsOK_sound",
            # what the teardown relies on in the dispatcher: pkg/msg/handler.go as a small-step system in product with the
            # session model (Frp/Model/SessDisp.lean, Frp/Props/C12Disp.lean, C12DispCode.lean, Frp/Gen/DispFacts.lean)
            "Frp.C12.closed_mono", "Frp.C12.hp_idle_kept", "Frp.C12.dinv_init", "Frp.C12.dinv_step",
            "Frp.C12.dinv_run", "Frp.C12.reachable_dinv", "Frp.C12.done_only_after_read_loop",
            "Frp.C12.no_handler_after_done", "Frp.C12.refines_step", "Frp.C12.refines_run",
            "Frp.C12.disp_refines_sess", "Frp.C12.teardown_without_handler", "Frp.C12.write_failure_changes_nothing",
            "Frp.C12.disp_named_is_live", "Frp.C12.disp_teardown_releases_all", "Frp.C12.disp_own_run_never_blocks",
            "Frp.C12.send_err_stops_orphan_witness", "Frp.C12.async_handlers_orphan_witness",
            "Frp.C12.orphan_traces_not_frp", "Frp.C12.send_err_stops_blocks_own_relogin",
            "Frp.C12.async_handlers_blocks_own_relogin", "Frp.C12.frp_trace_runs", "Frp.C12.dispatcher_code_shape",
            "Frp.C12.code_cfg_is_frp", "Frp.C12.code_disp_refines_sess", "Frp.C12.code_no_handler_after_done",
        ],
        "engines": [
            {"name": "sess", "quick_n": 20000, "thorough_n": 60000, "thorough_seeds": 5,
             "nontrivial": sess_nontrivial, "result_class": sess_class},
            {"name": "relog", "quick_n": 24, "thorough_n": 64, "thorough_seeds": 3,
             "nontrivial": lambda tok, res: tok[0] == "rlwait" and res.startswith("ids:"),
             "result_class": relog_class},
        ],
        "rule": "sess engine: a real server.Service in-process, scripted raw clients over net.Pipe on the internal "
                "listener; every goroutine of RegisterControl / Control.worker / RegisterProxy / CloseProxy is parked "
                "at the verifhook gates and released label by label in generated orders (hand-written hand-over "
                "schedules incl. chains of simultaneous re-logins released at every stage of the first session's "
                "teardown + random walks over the enabled labels + blindly chosen labels + Start attempts of waiters whose "
                "predecessor is not done); after each label the real ctlsByRunID and pxys tables are dumped and compared "
                "with the model, and C12.holdsOn (incl. ackOn: the implementation's own LoginResps against its own name "
                "table and the teardown state of every earlier session of the run id) is evaluated on them. Run ids: the id "
                "generated for every gated fresh login is checked with C12.freshOK against all ids handed out before; "
                "freshburst = 8..64 concurrent logins without run id on the real Service next to the gated sessions while "
                "0..8 goroutines draw ids from util.RandID (C12.burstOK on the LoginResp ids, every id designates its own "
                "session, no id shared with a background caller, tables as before afterwards); randconc = 4..128 goroutines x "
                "32..2000 calls of the real util.RandID with Gosched interleaving (<= 4096 ids: C12.idsOK in the driver, "
                "larger: malformed/repeated ids reported by the harness). Every wait is event driven and bounded (2 s, halved "
                "by every expiry down to 125 ms); an expired wait is a DIFF and wedges that world. non-trivial = a label that "
                "was enabled; distinct = distinct (op line, result+tables) pairs. "
                "Resources behind a name: NewProxy of type tcp / stcp / sudp / xtcp; after every label also the keys of "
                "visitor.Manager.listeners, nathole.Controller.clientCfgs and of ctl.proxies of every designated session are "
                "dumped and compared, and C12.resOn is evaluated on them (an entry disappears only by an action of the "
                "session that holds it, never by a refused registration / foreign close / foreign teardown; every entry is "
                "held by a live session; own-table keys stand in the name table); name races: 2..4 sessions pass the Exist "
                "check for ONE name (one rendez-vous table or mixed types) before any of them runs, then Run / Add / insert "
                "interleave at random; after every refusal the incumbent is probed: vprobe (Service.RegisterVisitorConn "
                "with the right key: the listener exists and the session that receives ReqWorkConn is the holder), nprobe "
                "(NatHoleVisitor pre-check through an unrelated session), tprobe (connect to the incumbent's remote port). "
                "The dispatcher under a session: the server side of every control connection is wrapped so that failed reads "
                "(= the read loop ends) and failed writes of frps are events; wpoke n p = a visitor with the right key / a tcp "
                "user connects to session n's registered stcp / sudp / tcp proxy p, so that the proxy asks n's dispatcher "
                "for a work connection (GetWorkConn -> Send -> sendLoop -> WriteMsg) - generated for open connections "
                "(req:n) and, with weight, for sessions whose connection was closed WHILE their read loop sits inside a "
                "handler parked at reg.checked / reg.ran / reg.added / close.deleted: the write must fail (wfail:n) and "
                "nothing else may move - every step of the teardown (dispdone, drain, closeproxy x |own|, done, del) is "
                "attempted right afterwards and must be disabled, then the handler is driven on; if the worker has passed "
                "<-Done() (wfail:n;done, dispdone ok: DIFF) the model follows the implementation and holdsOn / resOn judge "
                "the implementation's tables: a name or listener entering under a session that closed its done channel, "
                "a re-login refused its own name. "
                "Names travel as the client sends them: per world 4 raw names generated as variants of one base (leading / "
                "trailing / inner blanks incl. tab, newline, NBSP, U+3000, zero-width; case variants; empty; blank only; "
                "unicode; 60..3000 bytes; dotted), pairwise different raw strings are different keys. "
                "relog engine: the REAL client.Service against a scripted raw server: per scenario 3..5 logins answered by "
                "accept(run id: 16 hex / short / long / with blanks / empty; echoed or replaced on re-login) + cut, "
                "refuse (LoginResp.Error without and with a run id), dropped connection, garbage; at most two failures in a "
                "row; the run id of every Login and of the work connection opened for every accepted session are judged by "
                "C12.presentsOK against the model of the login state (12 scenarios run concurrently)",
        "trusted": COMMON_TRUST + [
            "model Frp/Model/Sess.lean written by hand from server/service.go RegisterControl, server/control.go, "
            "server/proxy/proxy.go Manager, pkg/msg/handler.go; tied by the sess engine",
            "model Frp/Model/SessDisp.lean (readLoop / sendLoop / Send / Done / the worker's <-Done() as labels, in product with "
            "Sess) written by hand from pkg/msg/handler.go; tied to the source by translate/gen_dispfacts.go (go/ast): every "
            "occurrence of the field doneCh in package msg with its kind (init / close / recv / return / other), every user of "
            "msgDispatcher.Done() in server/ and client/, the go statements of Run, the statements of readLoop's for body, "
            "go / defer / closures / sends in readLoop, the context of every handler call, the statements and calls of sendLoop, "
            "whether WriteMsg's error is dropped, the statements of Send and Done -> Frp/Gen/DispFacts.lean, regenerated on "
            "every run (C12.dispatcher_code_shape, C12.code_cfg_is_frp decide); tied to behaviour by the wpoke op",
            "the harness wraps the server side of each scripted control connection (net.Pipe) to observe failed reads / writes; "
            "the wrapper forwards every call unchanged",
            "verifhook gates of commit 75a0848 (ctl.*, worker.*, reg.*, close.*) perturb timing only; "
            "Service.VerifSessDump / proxy.Manager.VerifDump are read-only",
            "fact check (op randid): util.RandID output = first 16 hex digits of the bytes it read from crypto/rand.Reader",
            "translate/gen_randfacts.go (go/ast): statements, calls, buffer definition, Read call, free package-level "
            "identifiers of RandID / RandIDWithLen -> Frp/Gen/RandFacts.lean, regenerated on every run; "
            "Model/RandID.lean (hex formatting, calls in flight with private buffers) written by hand from those six statements",
            "randconc with more than 4096 ids: duplicate / format detection is done by the harness (Go map), not by the driver",
            "translate/gen_keyfacts.go (go/ast): key expression of every pxyManager.Exist/Add/Del call and every ctl.proxies "
            "index / delete / range in server/control.go; writers of a proxy config's Name (pkg/config/v1/proxy.go), the calls "
            "of NewProxyConfigurerFromMsg on the configurer, BaseProxy.name initialiser and GetName body; client/service.go "
            "login(): Login.RunID expression, assignments to svr.runID and their position relative to the LoginResp.Error "
            "check, SessionContext.RunID, NewWorkConn.RunID -> Frp/Gen/KeyFacts.lean, regenerated on every run; "
            "Model/ClientLogin.lean (ClientLogin, NameKey) written by hand from those statements",
            "the rendez-vous tables and ctl.proxies are read through reflect (Service.rc is unexported) with the existing "
            "read-only hooks VisitorManager.VerifNames / NatHoleController.VerifClients / Service.VerifAuthSessions; the "
            "holder of an entry is the model's bookkeeping (the dumps carry names only), confirmed behaviourally by the probes",
        ],
        "assumptions": [
            "the id generator is abstract in the session model: a generated run id is one no session has, and no login presents "
            "an id before the LoginResp disclosed it. What is proved about the generator: RandIDWithLen has the private-buffer "
            "shape (regenerated facts), and for that shape every concurrent call returns the 16-hex id of its own 8-byte draw. "
            "Assumed: crypto/rand's bytes are unpredictable and N draws of 64 random bits are pairwise different - the "
            "collision probability is <= N^2/2^65 (N = 128000: < 5e-10), so pairwise distinctness of the ids observed in a "
            "run is a sound oracle for 'each id is new'",
            "the dispatcher: no longer assumed - for the regenerated shape of pkg/msg/handler.go (doneCh closed only at the top of "
            "readLoop after a failed ReadMsg, handlers called by the read loop itself, write errors dropped) Done fires only "
            "after the read loop has returned and no handler runs afterwards, for every interleaving (C12.disp_refines_sess). "
            "Still assumed: handlers registered through msg.AsyncHandler (nat hole messages) touch none of the session tables; "
            "the send side of a closed connection fails (net.Pipe semantics in the engine)",
            "ports and routes behind a proxy (C09/C10), the work-connection pool (C11), plugins, MaxPortsPerClient and "
            "Control.runID=\"\" written by Replaced are outside this model; pxy.Run's outcome is an oracle for tcp proxies "
            "(determined by the model for stcp / sudp / xtcp)",
            "client half: the scripted server stands for frps (it assigns / echoes run ids and refuses logins the way "
            "server/service.go does); an answer that is a well-formed frame of another message type is outside the domain "
            "(msg.ReadMsgInto ignores the type byte: frpc would take it for an accepted login without run id)",
            "session identity = Login.Hostname chosen by the harness; pointer equality c == ctl of ControlManager.Del is session-number equality",
        ],
    }

META = {
        "engine": "lean+harness(sess, relog)",
        "design_ref": "DESIGN.md §6 C12, Appendix A.1",
        "technique": "Lean 4 small-step labelled transition system of the session bookkeeping (16 labels = atomic "
                     "actions between mutex sections / gates); two inductive invariant bundles proved for every label and "
                     "lifted to all label sequences; differential correspondence by gated schedules on the real Service "
                     "with table dumps after every label; run-id generator: go/ast facts about RandIDWithLen + a model of "
                     "concurrent calls with private buffers + concurrent executions of the real generator (direct and "
                     "through bursts of fresh logins) judged by the executable freshness predicate; the two name-keyed "
                     "rendez-vous tables (visitor listeners, nat hole clients) inside the session model with a third "
                     "invariant bundle, census + behavioural probes of the incumbent on the real Service; go/ast facts about "
                     "the key expression of every table operation and about frpc's login(); a model of frpc's run-id state "
                     "tied by the real client.Service against a scripted server; the message dispatcher as a small-step system in product "
                     "with the session model, refinement proof for the regenerated shape of pkg/msg/handler.go, witnesses for the "
                     "two other shapes, write-side faults driven through the real Control while a handler is parked",
        "text": "Proof (model level) + correspondence. For every interleaving of the atomic actions of any number of "
                "sessions: at most one live proxy per name and its holder is the session stored in the global table; "
                "a registration meeting an occupied name (at the Exist check or at the Add) is refused and changes "
                "nothing but the caller's program counter; an entry of the name table is removed only by an action "
                "of the session it designates and never overwritten, a close request changes at most the sender's own "
                "entry; a login is acknowledged only after the session it replaced - and every earlier session of the "
                "run id, chains of simultaneous re-logins included - has closed its done channel and stands in no entry "
                "of the name table, hence at most one acknowledged live session per run id and a session's registration "
                "is never blocked by another session of its own run id; the run-id table designates an added, not "
                "deleted session with the largest Add stamp, and conversely the newest session is designated until its "
                "own Del; a late Del of another session never removes an entry (witness: without the c==ctl guard it "
                "would); a login without run id finds its slot empty and replaces nobody, given that its id is fresh - "
                "freshOK/idsOK/burstOK state that assumption executably (sound w.r.t. well-formed + pairwise distinct; "
                "it is exactly the enabling condition of the model's fresh login) and are evaluated on the ids of the "
                "real Service. Generator: RandIDWithLen is, statement by statement, make-private-buffer / one "
                "crypto/rand.Read of the whole buffer / Sprintf(%x) of that buffer with no package-level state "
                "(regenerated facts); for that shape, under every interleaving of any number of calls in flight each "
                "call returns the 16 lower-case hex id of the block it read itself, equal ids imply equal first 8 "
                "bytes drawn (witness: with a shared pool buffer two overlapping calls return the same id). The "
                "acknowledgement clause is also evaluated on the implementation's own LoginResps (ackOn; the model "
                "satisfies it: model_ackSpec). The incumbent keeps working: the visitor-listener table (stcp, sudp) and the "
                "nat hole client table (xtcp) are part of the model - Run creates the entry unless the name has one, Close "
                "deletes it BY NAME; for every interleaving an entry is held by a live session with an open proxy of that "
                "name, it stays exactly as it is unless its holder closes that proxy itself, a refused registration "
                "(Exist check, Run, Add) changes no entry / record / table of anybody else and a failed Run changes no "
                "table at all (witness: a Run that closes by name on failure removes the incumbent's listener), a session "
                "that closed its done channel holds no entry, hence a re-login is acknowledged only after every entry of "
                "its predecessors is gone; the executable clause resOn (sound w.r.t. ResSpec, satisfied by the model: "
                "model_resSpec) is evaluated on the implementation's own tables after every label, and the incumbent is "
                "probed behaviourally (who is asked for the work connection). One key everywhere: every table operation "
                "of server/control.go is keyed by pxyMsg.ProxyName / closeMsg.ProxyName / pxy.GetName() (regenerated), and "
                "the proxy object's name is the message's name unchanged (UnmarshalFromMsg, Complete(\"\"), NewProxy, "
                "GetName: regenerated), so all of them are the name exactly as the client sent it; names with blanks, "
                "case variants, empty, unicode and very long names are driven through the real Service and no name of a "
                "torn down session may remain. Client half: svr.runID is written only after the LoginResp.Error check "
                "(regenerated), so for every history of accepted / refused / failed logins every Login carries the run id "
                "assigned last (witness: with the assignment before the check one refused re-login makes the client "
                "forget its id); evaluated on the real client.Service. The teardown's premise is proved, not assumed: the "
                "dispatcher (read loop, send loop, Send, Done, the worker's <-Done()) is a small-step system in product with the "
                "session model; for a dispatcher that closes its done channel only at the top of the read loop after a failed "
                "ReadMsg, calls handlers itself and drops write errors (regenerated facts about pkg/msg/handler.go and every user "
                "of msgDispatcher.Done()) - for every interleaving with Sends from anywhere and failing writes - Done fires only "
                "after the read loop has returned, no handler runs or is entered afterwards, a failed write changes nothing, and "
                "every reachable state of the product is a reachable state of the session model, so all clauses above hold for it; "
                "with a send loop that ends the dispatcher on a failed write, or with handlers outside the read loop, a reachable "
                "state has a name and a listener held by a session that closed its done channel and was deleted, and the client's "
                "re-login is refused its own name (witnesses); driven on the real Control: the connection breaks while a NewProxy / "
                "CloseProxy handler is parked and frps has a ReqWorkConn to write.",
        "note": "Trusted: Lean kernel; hand-written models; harness generators; gates; the translator's fact extraction. "
                "For holdsOnBase the model's own tables are not proved to satisfy the executable predicate (ackOn and resOn "
                "are: model_ackSpec, model_resSpec) - the predicate is evaluated on the implementation's tables and the "
                "tables are also compared with the model's after every label. tcp ports / vhost routes behind a proxy are "
                "C09/C10's; here a tcp incumbent is only probed (its port accepts and it is the one asked).",
    }
