from props import COMMON_TRUST


def nontrivial(tok, res):
    if tok[0] == "req":
        return res.startswith("fwd:") or res == "401"
    if tok[0] == "mreq":
        return res.startswith("acc:") or res == "407"
    if tok[0] in ("mw", "pl", "plc"):
        return True
    return False


PROP = {
    "level": "proof",
    "gens": [],
    "theorems": [
        "Frp.C07.checkAuth_true", "Frp.C07.serve_sound", "Frp.C07.serve_same_route",
        "Frp.C07.serve_unauthorized", "Frp.C07.serveOld_witness", "Frp.C07.serve_witness_fixed",
        "Frp.C07.muxHandle_sound", "Frp.C07.middleware_iff", "Frp.C07.pluginAuth_iff",
        "Frp.C07.holdsOn_sound", "Frp.C07.model_holdsOn",
        # wire-level request target (percent-decoding only) and raw-path routing
        "Frp.C07.serveWire_sound", "Frp.C07.getVhost_prefix", "Frp.C07.serve_forward_prefix",
        "Frp.C07.holdsOnWire_sound", "Frp.C07.model_holdsOnWire",
        # http_proxy plugin: Handle / ServeHTTP / handleConnectReq dispatch over a whole work connection
        "Frp.C07.pluginServeHTTP_reaches", "Frp.C07.pluginHandleConnect_reaches",
        "Frp.C07.pluginServeConn_sound", "Frp.C07.pluginHandle_sound", "Frp.C07.pluginHandle_refuses",
        "Frp.C07.pluginHandle_first_connect_refused", "Frp.C07.plHoldsOn_sound", "Frp.C07.model_plHoldsOn",
    ],
    "engines": [
        {"name": "httpauth", "quick_n": 4000, "thorough_n": 20000, "thorough_seeds": 5,
         "nontrivial": nontrivial,
         "result_class": lambda r: r.split(":")[0] if "," not in r else "seq"},
    ],
    "rule": "httpauth engine: generated route tables mixing protected / unprotected / user-routed proxies on the "
            "same hosts with default, root, nested and sibling locations; requests in origin-form, absolute-form "
            "and CONNECT whose target path is written on the wire from ordinary paths, 1-4 segments drawn from "
            "names / dot segments / empty segments / percent-encoded letters, dots and separators, and malformed "
            "escapes, with every combination of Authorization / Proxy-Authorization (absent, well-formed in three "
            "scheme casings, five malformed kinds), sent over TCP to a real http.Server{Handler: HTTPReverseProxy} "
            "whose per-route backends report their identity (oracle: the backend of a protected route answered "
            "=> exact credentials); a real HTTPConnectTCPMuxer; HTTPAuthMiddleware; the http_proxy plugin's Auth, "
            "and the plugin's real Handle given one work connection carrying 1-4 requests (CONNECT in three "
            "casings first or after GET/OPTIONS/DELETE, credentials exact / absent / malformed / other per "
            "request) in front of a recording target (oracle: the target saw request i => request i carried the "
            "exact credentials); non-trivial = a request that was forwarded / accepted or refused for "
            "credentials; distinct = distinct (op line, result)",
    "trusted": COMMON_TRUST + [
        "model Frp/Model/HttpAuth.lean written by hand; header parsing (net/http BasicAuth, base64) is not "
        "modelled: requests carry parsed credential pairs, the harness encodes them with encoding/base64",
        "request-target parsing is modelled as percent-decoding of the path only (net/url unescape, mode "
        "encodePath); targets with '?', '#', spaces, control or non-ASCII bytes are outside the model (skipped)",
        "http_proxy plugin: net/http request framing on the work connection (keep-alive, hijack) is modelled as "
        "'one ServeHTTP call per request until a handler hijacks'; the first-7-bytes sniff assumes the request "
        "line arrives in one read",
        "socks5 plugin credentials are enforced by the third-party go-socks5 library (StaticCredentials): assumed",
        "dashboard/admin API: that every /api route sits under the sub-router using the middleware is read from "
        "the code (server/dashboard_api.go:44, client/admin_api.go:46), not re-checked mechanically",
    ],
    "assumptions": [
        "h2c requests are not generated (HTTP/1.1 only)",
    ],
}

META = {
    "engine": "lean+harness(httpauth)",
    "design_ref": "DESIGN.md §6 C07",
    "technique": "Lean 4 theorems over all route tables, request targets and request sequences (decision logic stated outright) + differential correspondence against the real ServeHTTP / tcpmux muxer / middleware / http_proxy plugin Handle over TCP",
    "text": "Proof: for every route table and every request (origin/absolute form, CONNECT, any Authorization / Proxy-Authorization combination) the modelled ServeHTTP forwards to route r only if r is unprotected or the request presents exactly r's user name and password, and the route checked is the route forwarded to; same for the tcpmux CONNECT muxer and the HTTP auth middleware. The statement is also proved at wire level (serveWire_sound: the target path is only percent-decoded; serve_forward_prefix: the route forwarded to is selected by that path as received, no dot-segment or empty-segment normalisation between check and forwarding). http_proxy plugin: the model is the dispatch of a whole work connection (Handle's CONNECT sniff -> handleConnectReq, otherwise the embedded server's ServeHTTP per request: Auth, then ConnectHandler / HTTPHandler); pluginHandle_sound proves for every request sequence that request i reaches a target only if request i itself carries the exact credentials, pluginHandle_refuses that every other request gets the 407 challenge or is refused and closed. The pinned tree violated this (witness theorem serveOld_witness, replayed on the real code) and was repaired by /repo commit 015f090; the model is of the repaired code. Tie: 4000 generated ops per quick run against the real handlers over loopback TCP (request paths with dot / empty / percent-encoded segments against tables with protected non-default locations; ~100 multi-request work connections through the plugin's Handle), with the Lean predicates (holdsOnWire, plHoldsOn) evaluated on the implementation's answers.",
    "note": "Trusted: Lean kernel; hand-written model of ServeHTTP/CheckAuth/injectRequestInfoToCtx/Muxer.handle/HTTPConnectTCPMuxer.auth/HTTPAuthMiddleware/HTTPProxy.Handle+ServeHTTP+handleConnectReq+Auth; net/url path unescape; net/http and encoding/base64 header parsing; go-socks5 credential check; harness generators.",
}
