from props import COMMON_TRUST


def nontrivial(tok, res):
    if tok[0] == "req":
        return res.startswith("fwd:") or res == "401"
    if tok[0] == "mreq":
        return res.startswith("acc:") or res == "407"
    if tok[0] in ("mw", "pl", "plc", "wq", "s5"):
        return True
    if tok[0] == "h2c":
        return res.startswith(("fwd:", "pri", "401"))
    if tok[0] == "tconn":
        return res.startswith("acc:") or res == "407"
    if tok[0] == "tpx":
        return res in ("ok", "conflict")
    if tok[0] == "tview":
        return res != "-"
    if tok[0] == "wflush":
        return res != "-"
    if tok[0] == "hoconn":
        return res in ("park", "407")
    if tok[0] == "hoclose":
        return res != "-"
    if tok[0] == "hoaccept":
        return res.startswith("got:")
    if tok[0] == "gjoin":
        return res in ("ok", "params", "auth", "repeated", "conflict")
    if tok[0] == "greq":
        return res.startswith("fwd:") or res == "401"
    return False


def result_class(r):
    if ";" in r:   # h2c: class of the opening request; set of stream classes
        first, _, ss = r.partition(";")
        return first.split(":")[0] + ";" + "+".join(sorted({t.split(":")[0] for t in ss.split(",")}))
    if r.startswith("got:"):
        return "got"
    if r[:1].isdigit() and r.endswith((":c", ":o")):   # hoclose: what became of the waiting connections
        return "+".join(sorted({t.split(":")[1] for t in r.split(",")}))
    if r.startswith("x") and len(r) > 12:   # tview: number of listeners
        return "n=%d" % (r.count(",") + 1)
    toks = r.split(",")
    if all(len(t) == 4 and t[:3].isdigit() for t in toks):   # web ops: the set of status codes of the requests
        return "+".join(sorted({t[:3] for t in toks}))
    return r.split(":")[0] if "," not in r else "seq"


PROP = {
    "level": "proof",
    "gens": ["CredFacts"],
    "theorems": [
        "Frp.C07.checkAuth_true", "Frp.C07.serve_sound", "Frp.C07.serve_same_route",
        "Frp.C07.serve_unauthorized", "Frp.C07.serveOld_witness", "Frp.C07.serve_witness_fixed",
        "Frp.C07.muxHandle_sound", "Frp.C07.middleware_iff", "Frp.C07.pluginAuth_iff",
        "Frp.C07.holdsOn_sound", "Frp.C07.model_holdsOn",
        # wire-level request target (percent-decoding only) and raw-path routing
        "Frp.C07.serveWire_sound", "Frp.C07.getVhost_prefix", "Frp.C07.serve_forward_prefix",
        "Frp.C07.holdsOnWire_sound", "Frp.C07.model_holdsOnWire",
        # http_proxy plugin: Handle / ServeHTTP / handleConnectReq dispatch over a whole work connection
        "Frp.C07.pluginServeHTTP_reaches", "Frp.C07.pluginHandleConnect_reaches",
        "Frp.C07.pluginServeConn_sound", "Frp.C07.pluginHandle_sound", "Frp.C07.pluginHandle_refuses",
        "Frp.C07.pluginHandle_first_connect_refused", "Frp.C07.plHoldsOn_sound", "Frp.C07.model_plHoldsOn",
        # web endpoints from the header bytes: parseBasicAuth + base64 + HTTPAuthMiddleware, gorilla/mux router,
        # static_file plugin, frps dashboard, frpc admin API; socks5 plugin
        "Frp.C07.cutColon_some", "Frp.C07.cutColon_append", "Frp.C07.basicAuth_some",
        "Frp.C07.middlewareHdr_sound", "Frp.C07.middlewareHdr_complete", "Frp.C07.middlewareHdr_encoded",
        "Frp.C07.middlewareHdr_same_payload", "Frp.C07.nodesMatch_guarded", "Frp.C07.webServe_sound",
        "Frp.C07.webServe_refuses", "Frp.C07.staticFile_sound", "Frp.C07.staticFile_wire_sound",
        "Frp.C07.staticFile_method", "Frp.C07.dashboard_sound", "Frp.C07.admin_sound",
        "Frp.C07.webHoldsOn_sound", "Frp.C07.model_webHoldsOn", "Frp.C07.mwHoldsOn_sound", "Frp.C07.model_mwHoldsOn",
        "Frp.C07.socks5_sound", "Frp.C07.socks5_refuses", "Frp.C07.s5HoldsOn_sound", "Frp.C07.model_s5HoldsOn",
        # h2c: every stream of an upgraded / prior-knowledge connection is a request of its own (Props/C07Conn.lean)
        "Frp.C07.h2cConn_first_sound", "Frp.C07.h2cStream_checked_sound", "Frp.C07.h2cStream_checked_same_route",
        "Frp.C07.h2cConn_checked_sound", "Frp.C07.h2cConn_head_streams", "Frp.C07.h2cConn_head_partial",
        "Frp.C07.h2cHead_witness", "Frp.C07.h2cHeadFull_fails", "Frp.C07.h2cHead_misroute_witness",
        "Frp.C07.streamHoldsOn_sound", "Frp.C07.h2cHoldsOn_sound", "Frp.C07.model_h2cHoldsOn_checked",
        # server-side tcpmux proxy: listener fields and the CONNECT check over all start/stop histories
        "Frp.C07.tmListeners_fields", "Frp.C07.tmListeners_names", "Frp.C07.tmAgree_reach", "Frp.C07.tmProxy_sound",
        "Frp.C07.tmHoldsOn_sound", "Frp.C07.model_tmHoldsOn",
        # hand-off of a checked CONNECT to its listener over all listen / close / arrive / accept histories; http
        # load-balancing groups over all join / leave histories (Props/C07Hand.lean)
        "Frp.C07.muxHandle_lookup", "Frp.C07.hoInv_reach", "Frp.C07.ho_delivered_same_listener",
        "Frp.C07.ho_delivered_checked", "Frp.C07.ho_parked_checked", "Frp.C07.hoClose_drops",
        "Frp.C07.ho_head_example", "Frp.C07.ho_retry_witness", "Frp.C07.hoHoldsOn_sound", "Frp.C07.model_hoHoldsOn",
        "Frp.C07.hgInv_reach", "Frp.C07.hg_fields_agree", "Frp.C07.hg_member_checked", "Frp.C07.hg_serve_sound",
        "Frp.C07.hg_head_example", "Frp.C07.hg_unchecked_witness", "Frp.C07.hgHoldsOn_sound", "Frp.C07.model_hgHoldsOn",
        # regenerated ties (translate/gen_credfacts.go): shape of Muxer.handle and HTTPGroup.Register
        "Frp.C07.handle_code_shape", "Frp.C07.group_code_shape",
    ],
    "extra_targets": ["Frp.Props.C07Conn", "Frp.Props.C07Hand"],
    "engines": [
        {"name": "httpauth", "quick_n": 6000, "thorough_n": 24000, "thorough_seeds": 5,
         # one re-execution (the recorded h2c finding makes every run re-execute: keep that cheap)
         "reruns": 1,
         "nontrivial": nontrivial,
         "result_class": result_class},
    ],
    "rule": "httpauth engine: generated route tables mixing protected / unprotected / user-routed proxies on the "
            "same hosts with default, root, nested and sibling locations; requests in origin-form, absolute-form "
            "and CONNECT whose target path is written on the wire from ordinary paths, 1-4 segments drawn from "
            "names / dot segments / empty segments / percent-encoded letters, dots and separators, and malformed "
            "escapes, with every combination of Authorization / Proxy-Authorization (absent, well-formed in three "
            "scheme casings, five malformed kinds, and raw header values, see below), sent over TCP to a real "
            "http.Server{Handler: HTTPReverseProxy} whose per-route backends report their identity (oracle: the "
            "backend of a protected route answered => exact credentials); a real HTTPConnectTCPMuxer; the http_proxy "
            "plugin's Auth, and the plugin's real Handle given one work connection carrying 1-4 requests (CONNECT in "
            "three casings first or after GET/OPTIONS/DELETE, credentials exact / absent / malformed / other per "
            "request) in front of a recording target (oracle: the target saw request i => request i carried the "
            "exact credentials). Web endpoints: the real HTTPAuthMiddleware in front of a recording handler (mw), "
            "the real static_file plugin (NewStaticFilePlugin over a directory tree + Handle, one work connection "
            "per request, with and without strip prefix), the web server of real in-process frps instances "
            "(server.NewService, webServer.user/password, enablePrometheus on/off) and the admin server of real "
            "frpc instances (client.NewService) receive bursts of 20-60 queued requests (wq … / wflush): methods "
            "GET / HEAD / POST / PUT / DELETE / OPTIONS / PATCH / TRACE / PROPFIND and lower- / mixed-case "
            "spellings; paths = every registered route, neighbours of routes, files / directories / missing files, "
            "dot / empty / percent-encoded segments, malformed escapes; Authorization lines written byte for byte: "
            "exact, the expected base64 text with the case of one / some / all letters changed, near-miss and other "
            "credentials, same bytes in another base64 text, broken base64 (padding, alphabet, length), blanks "
            "inside and around, other / truncated / glued schemes, payloads without or with extra colons, junk; "
            "field name in four casings or Proxy-Authorization; a second Authorization line; absent. The driver "
            "classifies each answer (401 / router's own 301-404-405 / server's 400 / a route handler answered) and "
            "evaluates webHoldsOn (handler answered => exact credentials or a handler registered outside the "
            "middleware on purpose, i.e. /healthz). socks5 plugin (NewSocks5Plugin + Handle) in front of the "
            "recording target: version byte, offered methods, sub-negotiation version, user / password exact, near "
            "miss or other, for configurations with both, only a user, only a password or neither. Hand-off in "
            "vhost.Muxer.handle (ho… ops, ~10 bursts of 30-60 ops on a fresh real HTTPConnectTCPMuxer over an in-memory "
            "listener): listeners made with the real Muxer.Listen that the HARNESS accepts from or leaves alone — "
            "user-routed / unrestricted listeners on one name and on the wildcard levels above it, with equal, "
            "different or no credentials —, CONNECTs carrying the exact credentials of the listener aimed at, of "
            "another listener, a wrong password, nothing or a generated header, which stay open and wait in "
            "`l.accept <- c`; Listener.Close while connections wait (then a sweep of accepts over the listeners left), "
            "Listener.Accept before and after; every wait is for an event (answer, end of stream, SetDeadline(zero) on "
            "the server side of the connection, the mark an acceptor writes), bounded by 2 s; oracle hoHoldsOn: "
            "connection c came out of listener l => c carried l's user name and password. http load-balancing groups "
            "(g… ops, ~10 bursts on a fresh real HTTPGroupController over the Routers of a real HTTPReverseProxy "
            "behind a real http.Server): membership histories (joins, leaves, re-joins as configured before, a "
            "second group on the same route, wrong key, other route parameters, a name that is a member already) x "
            "credential pairs as a class relative to what the group's members were configured with so far (none / "
            "the same / another pair / only a user / only a password) in every order; requests aimed at a group's "
            "route without credentials, with the pair of any member past or present, a member's user with a wrong "
            "password, other pairs, generated headers; every member has its own backend; oracle hgHoldsOn: the "
            "backend of member m answered => the request carried the credentials m ITSELF is configured with. "
            "Non-trivial = a "
            "request that was forwarded / accepted / served or refused for credentials; distinct = distinct (op "
            "line, result)",
    "trusted": COMMON_TRUST + [
        "models Frp/Model/HttpAuth.lean and Frp/Model/WebAuth.lean written by hand. Header parsing IS modelled for "
        "the middleware, static_file, dashboard, admin API (parseBasicAuth + Frp/Model/Base64.lean, textproto "
        "trimming, Header.Get = first line) and, through raw header tokens, for the http proxies and tcpmux; the "
        "b<k>/m<k> tokens of req / mreq / pl / plc still carry parsed pairs that the harness encodes",
        "request-target parsing is modelled as percent-decoding of the path only (net/url unescape, mode "
        "encodePath); targets with '?', '#', spaces, control or non-ASCII bytes are outside the model (skipped)",
        "gorilla/mux v1.8.1 is modelled for the router shapes frp builds (leaf routes with a literal / {var} "
        "template or a prefix and an optional method list, one level of sub-routers, Use on router or "
        "sub-router, no NotFoundHandler / MethodNotAllowedHandler, skipClean off); that frp's three routers have "
        "exactly the modelled routes is tied by the differential run over every route x method, not read from the AST",
        "'a route handler answered' is observed from outside: any response other than 401, the router's 405 (empty "
        "body) / 404 ('404 page not found' or empty body, no gzip marker) / 301 on an unclean path, and the "
        "server's 400 for an undecodable target",
        "http_proxy plugin: net/http request framing on the work connection (keep-alive, hijack) is modelled as "
        "'one ServeHTTP call per request until a handler hijacks'; the first-7-bytes sniff assumes the request "
        "line arrives in one read",
        "h2c: that golang.org/x/net/http2/h2c hands every later stream to the wrapped handler with a context derived "
        "from the opening request's is modelled by hand (h2cStream) and tied by the differential run; the model is of "
        "/repo HEAD (HttpAuth.h2cStreamsChecked = false), which VIOLATES the property for later streams "
        "(KNOWN_FINDINGS C07-h2c-later-streams-unchecked, witness theorems); the repaired model "
        "(h2cStreamsChecked = true, hooks/C07-fix-h2c-stream-auth.patch) was run against the patched tree",
        "tcpmux proxy: BaseProxy / handleUserTCPConnection are not modelled; 'forwarded' is observed as the proxy's "
        "GetWorkConnFn being called",
        "hand-off: model Frp/Model/HttpAuthHand.lean written by hand (Muxer.Listen / handle / Listener.Close / Accept as "
        "a transition system; a send blocked on a channel that is closed panics — Go semantics — and handle then closes "
        "the connection); that handle has exactly one lookup, checks against the listener it returned and sends to "
        "that listener only is READ from the source (Gen/CredFacts.lean, C07.handle_code_shape); which of several "
        "blocked senders an Accept wakes is the runtime's choice (followed relationally). The window between the "
        "check and the send inside one handle call cannot be scheduled from outside (no gate there): a second lookup "
        "placed in that window is seen by the regenerated fact only",
        "http groups: model written by hand (HTTPGroupController.Register / UnRegister, HTTPGroup.Register / UnRegister: "
        "route copy, the group's own username / password, members with their own configuration); that the fields are "
        "written in the first-member branch only, that the registered copy is `tmp := routeConfig` unmodified in its "
        "credentials and that a joiner's Username / Password are compared is READ from the source "
        "(C07.group_code_shape); the rotation among members is the group's choice (followed relationally); health-check "
        "driven membership (ChooseEndpointFn) is the same member list",
        "socks5 plugin: armon/go-socks5 ServeConn / authenticate / UserPassAuthenticator / StaticCredentials are "
        "modelled by hand (version, method selection, RFC 1929 sub-negotiation) and tied by the differential run; "
        "the request phase after authentication (address parsing, rules, dial) is not modelled",
    ],
    "assumptions": [
        "h2c: streams are GET requests without body sent one after the other (no concurrent streams, no CONNECT "
        "streams, no CONTINUATION frames); the HTTP/2 server's own request validation is modelled only as ':path does "
        "not parse => RST_STREAM'",
        "tcpmux proxies are run without loadBalancer.group (the group path hands the same RouteConfig to "
        "TCPMuxGroupCtl.Listen; not driven) and with multiplexer = httpconnect, passthrough off",
        "hand-off ops: one CONNECT muxer without passthrough; a listener is closed at most once (Listener.Close twice "
        "panics in frp; BaseProxy.Close calls it once); the https muxer (no credentials) is not driven",
        "http groups are driven through HTTPGroupController directly (the layer server/proxy/http.go calls with the "
        "proxy's httpUser / httpPassword in RouteConfig.Username / Password — that mapping is C06's vreg engine), "
        "origin-form requests only, domains non-empty",
        "web servers are driven with webServer.pprofEnable = false and without TLS; with pprofEnable = true "
        "pkg/util/http/server.go registerPprofHandlers puts /debug/pprof/* on the outer router, outside the auth "
        "middleware (not covered by the model, reported as an observation)",
    ],
}

META = {
    "engine": "lean+harness(httpauth)",
    "design_ref": "DESIGN.md §6 C07",
    "technique": "Lean 4 theorems over all route tables, request targets, request sequences, h2c stream sequences, tcpmux proxy start/stop histories, muxer listen/close/arrive/accept histories, http group join/leave histories, routers, methods, paths and header bytes (decision logic stated outright) + differential correspondence against the real ServeHTTP (HTTP/1.1 and h2c streams) / tcpmux muxer / server-side tcpmux proxy / Muxer hand-off with harness-owned listeners / http load-balancing groups / middleware / http_proxy, static_file and socks5 plugins / frps dashboard / frpc admin API over TCP",
    "text": "Proof: for every route table and every request (origin/absolute form, CONNECT, any Authorization / Proxy-Authorization combination) the modelled ServeHTTP forwards to route r only if r is unprotected or the request presents exactly r's user name and password, and the route checked is the route forwarded to; same for the tcpmux CONNECT muxer. The statement is also proved at wire level (serveWire_sound: the target path is only percent-decoded; serve_forward_prefix: the route forwarded to is selected by that path as received, no dot-segment or empty-segment normalisation between check and forwarding). http_proxy plugin: the model is the dispatch of a whole work connection (Handle's CONNECT sniff -> handleConnectReq, otherwise the embedded server's ServeHTTP per request: Auth, then ConnectHandler / HTTPHandler); pluginHandle_sound proves for every request sequence that request i reaches a target only if request i itself carries the exact credentials, pluginHandle_refuses that every other request gets the 407 challenge or is refused and closed. Web endpoints (static_file plugin, frps dashboard, frpc admin API): the model runs from the header bytes to the handler — net/http parseBasicAuth (case-insensitive scheme, base64 decoding with the Lean base64 model, cut at the first colon), HTTPAuthMiddleware comparing the DECODED user and password, gorilla/mux ServeHTTP / Match (clean-path redirect, route loop, method mismatch, sub-routers, middlewares applied to matched routes only) and the three routers as frp builds them. middlewareHdr_sound / _complete: next runs iff the endpoint is unprotected or the header is 'Basic' (any case) + a base64 text that decodes to exactly user:password (a text that only resembles the expected one decodes to other bytes and is refused; two accepted headers decode to the same bytes); webServe_sound: for every router of the modelled shape, every method token, path and header a route handler runs only with exact credentials unless it was registered outside the middleware; staticFile_sound / staticFile_method: static_file has no such handler and only GET reaches the file handler (HEAD and everything else: the router's bare 405); dashboard_sound / admin_sound: everything but /healthz is behind the middleware. socks5 plugin: socks5_sound — with a user name or a password configured the target is dialled only after a user/password sub-negotiation carrying exactly both. h2c: a connection turned into HTTP/2 (Upgrade: h2c or prior knowledge) is modelled as its opening request plus the list of later streams, each a request with its own :authority / :path / authorization; h2cConn_checked_sound proves for the repaired handler that every request of every such connection — the first and each stream — reaches a backend only with the exact credentials of the route selected by ITS OWN host, path and user (h2cStream_checked_same_route). /repo HEAD is modelled as it is (h2cConn_head_streams: every later stream is answered along the opening request's route) and VIOLATES the clause: h2cHead_witness / h2cHeadFull_fails (a stream without credentials reaches the protected backend on a connection opened with them), h2cHead_misroute_witness (a stream for another host is answered by the opening request's backend); what holds there is h2cConn_head_partial; recorded as KNOWN_FINDINGS C07-h2c-later-streams-unchecked with the repair hooks/C07-fix-h2c-stream-auth.patch (switch: HttpAuth.h2cStreamsChecked). Server-side tcpmux proxy: tmListeners_fields / tmListeners_names — every listener httpConnectRun registers (each non-empty custom domain, then subdomain.subDomainHost) has username = httpUser, password = httpPassword, routeByHTTPUser = routeByHTTPUser; tmProxy_sound — after ANY history of proxies started (with roll-back on a refused domain) and closed on one muxer, a CONNECT is handed to a listener of a proxy configured with httpUser only if it carries exactly that proxy's httpUser and httpPassword. Hand-off (Props/C07Hand.lean, model Model/HttpAuthHand.lean): Muxer.handle is lookup -> check against THAT listener -> send on THAT listener's accept channel, where the connection waits until the owner accepts; a listener closed meanwhile makes the send fail and handle closes the connection. ho_delivered_same_listener / ho_delivered_checked: over EVERY history of listeners made and closed (also while connections wait), connections arriving and owners accepting, a connection comes out of a listener only if it is the one its credentials were checked against, and only with exactly that listener's user name and password (ho_parked_checked: the same for those still waiting; hoClose_drops: nobody keeps waiting at a closed listener); ho_retry_witness: a handle that looks the route up again after the failed send hands a connection checked as alice / pw1 to the listener protected by bob / pw2. http load-balancing groups: the credentials CheckAuth reads are those of the RouteConfig copy the first member registered, the group keeps its own username / password, every member is configured with its own pair — three places; hg_fields_agree / hg_member_checked: over EVERY history of joins and leaves the route copy's credentials = the group's fields = each member's own configuration, so (hg_serve_sound) a request forwarded along a group's route, whichever member the rotation picks, carried that member's OWN user name and password; hg_unchecked_witness: with joins that do not compare credentials a protected member sits behind a route without credentials. Regenerated ties (translate/gen_credfacts.go -> Gen/CredFacts.lean): handle_code_shape (one getListener call bound to l, never reassigned; the only checkAuth call takes l.username / l.password under the modelled guard and returns on failure; the only send is on l.accept, after the check; the failed-send branch closes the connection) and group_code_shape (g.username / g.password written in the first-member branch only; the registered route is &tmp with tmp := routeConfig, its Username / Password untouched; the join branch refuses a differing Username or Password). The pinned tree violated the http-proxy clause (witness theorem serveOld_witness, replayed on the real code) and was repaired by /repo commit 015f090; the model is of the repaired code. Tie: 6000 generated ops per quick run against the real handlers over loopback TCP / pipes (request paths with dot / empty / percent-encoded segments against tables with protected non-default locations; ~100 multi-request work connections through the http_proxy plugin's Handle; ~1000 requests to the real static_file plugin, real frps dashboards and real frpc admin servers with generated methods, paths and raw Authorization lines; ~250 bare middleware calls; ~100 socks5 negotiations; ~300 h2c connections of which ~100 are upgraded and carry ~250 further streams; ~10 bursts of real tcpmux proxy starts / stops with ~250 real CONNECT requests and ~40 listener dumps; ~10 hand-off bursts: ~150 listeners, ~230 waiting-or-refused CONNECTs, ~115 closes of which ~30 with connections waiting, ~350 accepts; ~10 group bursts: ~300 joins of which ~120 accepted, ~110 leaves, ~280 requests), with the Lean predicates (holdsOnWire, plHoldsOn, webHoldsOn, mwHoldsOn, s5HoldsOn, h2cHoldsOn, tmHoldsOn, hoHoldsOn, hgHoldsOn) evaluated on the implementation's answers.",
    "note": "Trusted: Lean kernel; hand-written model of ServeHTTP/CheckAuth/injectRequestInfoToCtx/h2c stream dispatch/TCPMuxProxy.httpConnectRun+Muxer.Listen/Muxer.handle (incl. the hand-off to the listener and Listener.Close)/HTTPGroup.Register+UnRegister/HTTPConnectTCPMuxer.auth/HTTPAuthMiddleware/HTTPProxy.Handle+ServeHTTP+handleConnectReq+Auth, of net/http parseBasicAuth + textproto trimming, of gorilla/mux matching for frp's router shapes, of go-socks5 authentication; net/url path unescape; observation of 'a handler answered' from status/body class; harness generators.",
}
