from props import COMMON_TRUST


def nontrivial(tok, res):
    if tok[0] == "req":
        return res.startswith("fwd:") or res == "401"
    if tok[0] == "mreq":
        return res.startswith("acc:") or res == "407"
    if tok[0] in ("mw", "pl"):
        return True
    return False


PROP = {
    "level": "proof",
    "gens": [],
    "theorems": [
        "Frp.C07.checkAuth_true", "Frp.C07.serve_sound", "Frp.C07.serve_same_route",
        "Frp.C07.serve_unauthorized", "Frp.C07.serveOld_witness", "Frp.C07.serve_witness_fixed",
        "Frp.C07.muxHandle_sound", "Frp.C07.middleware_iff", "Frp.C07.pluginAuth_iff",
        "Frp.C07.holdsOn_sound", "Frp.C07.model_holdsOn",
    ],
    "engines": [
        {"name": "httpauth", "quick_n": 4000, "thorough_n": 20000, "thorough_seeds": 5,
         "nontrivial": nontrivial,
         "result_class": lambda r: r.split(":")[0]},
    ],
    "rule": "httpauth engine: generated route tables mixing protected / unprotected / user-routed proxies on the "
            "same hosts, requests in origin-form, absolute-form and CONNECT with every combination of "
            "Authorization / Proxy-Authorization (absent, well-formed in three scheme casings, five malformed "
            "kinds), sent over TCP to a real http.Server{Handler: HTTPReverseProxy}, a real HTTPConnectTCPMuxer, "
            "HTTPAuthMiddleware and the http_proxy plugin's Auth; non-trivial = a request that was forwarded / "
            "accepted or refused for credentials; distinct = distinct (op line, result)",
    "trusted": COMMON_TRUST + [
        "model Frp/Model/HttpAuth.lean written by hand; header parsing (net/http BasicAuth, base64) is not "
        "modelled: requests carry parsed credential pairs, the harness encodes them with encoding/base64",
        "socks5 plugin credentials are enforced by the third-party go-socks5 library (StaticCredentials): assumed",
        "dashboard/admin API: that every /api route sits under the sub-router using the middleware is read from "
        "the code (server/dashboard_api.go:44, client/admin_api.go:46), not re-checked mechanically",
    ],
    "assumptions": [
        "h2c requests are not generated (HTTP/1.1 only)",
    ],
}

META = {
    "engine": "lean+harness(httpauth)",
    "design_ref": "DESIGN.md §6 C07",
    "technique": "Lean 4 theorem over all route tables and requests (decision logic stated outright) + differential correspondence against the real ServeHTTP / tcpmux muxer / middleware / plugin over TCP",
    "text": "Proof: for every route table and every request (origin/absolute form, CONNECT, any Authorization / Proxy-Authorization combination) the modelled ServeHTTP forwards to route r only if r is unprotected or the request presents exactly r's user name and password, and the route checked is the route forwarded to; same for the tcpmux CONNECT muxer, the HTTP auth middleware and the http_proxy plugin. The pinned tree violated this (witness theorem serveOld_witness, replayed on the real code) and was repaired by /repo commit 015f090; the model is of the repaired code. Tie: 4000 generated ops per quick run against the real handlers over loopback TCP, with the Lean predicate evaluated on the implementation's answers.",
    "note": "Trusted: Lean kernel; hand-written model of ServeHTTP/CheckAuth/injectRequestInfoToCtx/Muxer.handle/HTTPConnectTCPMuxer.auth/HTTPAuthMiddleware/HTTPProxy.Auth; net/http and encoding/base64 header parsing; go-socks5 credential check; harness generators.",
}
