from props import COMMON_TRUST


def nontrivial(tok, res):
    if tok[0] == "reg":
        return True
    if tok[0] == "view":
        return "used=;" not in res.split("udp[")[0] or "used=;" not in res.split("udp[")[1]
    return tok[0] in ("fwdexit", "squat")


PROP = {
    "level": "proof",
    "gens": [],
    "theorems": [
        "Frp.C09.inv_reachable", "Frp.C09.whitelisted", "Frp.C09.exclusive", "Frp.C09.accounting_eq_bound",
        "Frp.C09.free_iff_not_used", "Frp.C09.quota_bounded", "Frp.C09.register_ok",
        "Frp.C09.register_err_unchanged", "Frp.C09.close_frees_port", "Frp.C09.reacquire_same",
        "Frp.C09.take_reserves", "Frp.C09.release_keeps_reserved", "Frp.C09.udp_double_release_witness",
        "Frp.C09.udp_double_release_fixed", "Frp.C09.inv_register", "Frp.C09.inv_close",
    ],
    "engines": [
        {"name": "ports", "quick_n": 6000, "thorough_n": 30000, "thorough_seeds": 6,
         "nontrivial": nontrivial,
         "result_class": lambda r: r.split(":")[0] + ":" + (r.split(":")[1] if r.startswith("err") else "") if ":" in r and not r.startswith("tcp[") else ("view" if r.startswith("tcp[") else r)},
    ],
    "rule": "ports engine: generated register/close histories from three sessions through the real "
            "Control.RegisterProxy/CloseProxy on a hand-assembled ResourceController with real ports.Manager "
            "and real loopback sockets (block of 10 ports, 8 allowed), requested ports 0 / in range / out of "
            "range / negative / >65535, duplicate names, quotas 0/2/3/5, foreign processes binding and "
            "releasing ports, ports grabbed between Acquire and Listen (gate), and the udp forwarder's "
            "deferred Close scheduled by an explicit op (gate); `view` compares free/used/OS-bound sets. "
            "Non-trivial = every registration attempt, every non-empty view, every gate/foreign-socket op; "
            "distinct = distinct (op line, result)",
    "trusted": COMMON_TRUST + [
        "model Frp/Model/Ports.lean written by hand (ports.Manager, TCPProxy/UDPProxy Run/Close non-group path, "
        "quota/name bookkeeping of RegisterProxy/CloseProxy, OS socket table); tied by the ports engine",
        "verifhook gates tcp.run.acquired / udp.run.acquired / udp.forwarder.exit (tag verif) and ports.Manager.VerifDump",
        "the random port choice is relational: the implementation's observed choice is checked to be a free, "
        "available port and a refusal is accepted only when at least min(5,|free|) free ports are unavailable",
    ],
    "assumptions": [
        "grouped tcp proxies (TCPGroup.Listen) are covered by C13's model, not by this one",
        "interleavings other than the two gated windows (acquire|listen, close|forwarder exit) are not driven; "
        "the reserved-port path of Acquire is proved safe only for atomic acquire+listen (sequential histories)",
        "the 24 h cleaning of reserved ports is not modelled",
    ],
}

META = {
    "engine": "lean+harness(ports)",
    "design_ref": "DESIGN.md §6 C09",
    "technique": "Lean 4 inductive invariant over all register/close/foreign-socket histories (partition, ownership, accounting = bound, quota) + differential correspondence with real ports.Manager / TCPProxy / UDPProxy / Control on real sockets",
    "text": "Proof: for every allow set, quota and history (any requested ports, any random choices, failed listens, foreign processes binding ports, the udp forwarder's late Close) the model's reachable states satisfy: free/used partition the allow set; every live proxy is the recorded owner of its port; every port recorded as used is held by a live proxy (accounting = what is bound); no two live proxies of one protocol share a port; every live port is allowed; per-session quota is never exceeded; a refused registration changes no owner, no quota, no free set; a closed proxy's port is free at once; a name gets its reserved port back while it is free. The pinned tree violated accounting = bound (UDPProxy.Close released twice; witness theorem, reproduced on the real code by the gate-scheduled history) and was repaired by /repo commit 41db3ad; the model is of the repaired code. Tie: 6000 generated ops per quick run on the real code with real sockets.",
    "note": "Trusted: Lean kernel; the hand-written model and the ports engine (generators, gates, OS probing by bind attempts on loopback). Grouped tcp ports are C13's. Acquire|Listen interleavings between DIFFERENT proxies are only exercised through the grab gate (a foreign process), not between two frp proxies.",
}
