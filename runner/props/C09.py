from props import COMMON_TRUST


def nontrivial(tok, res):
    if tok[0] in ("reg", "regg"):
        return True
    if tok[0] == "seed":
        return res != "err"
    if tok[0] == "reset":
        return tok[3] != "r1-8"
    if tok[0] == "view":
        return "used=;" not in res.split("udp[")[0] or "used=;" not in res.split("udp[")[1]
    return tok[0] in ("fwdexit", "squat")


PROP = {
    "level": "proof",
    "gens": [],
    "theorems": [
        "Frp.C09.inv_reachable", "Frp.C09.whitelisted", "Frp.C09.exclusive", "Frp.C09.accounting_eq_bound",
        "Frp.C09.free_iff_not_used", "Frp.C09.quota_bounded", "Frp.C09.register_ok",
        "Frp.C09.register_err_unchanged", "Frp.C09.close_frees_port", "Frp.C09.reacquire_same",
        "Frp.C09.take_reserves", "Frp.C09.release_keeps_reserved", "Frp.C09.udp_double_release_witness",
        "Frp.C09.udp_double_release_fixed", "Frp.C09.inv_register", "Frp.C09.inv_close",
        # tcp load-balancing groups inside the same invariant
        "Frp.C09.inv_registerG", "Frp.C09.exclusive_plain", "Frp.C09.group_one_port", "Frp.C09.registerG_ok",
        "Frp.C09.registerG_err_unchanged", "Frp.C09.listen_failed_unchanged", "Frp.C09.close_member_keeps_port",
        "Frp.C09.closesSocket_plain",
        # allowPorts configuration -> Complete -> NewManager seed set
        "Frp.C09.seed_exact", "Frp.C09.complete_exact", "Frp.C09.seedNat_exact", "Frp.C09.whitelisted_config",
        "Frp.C09.outside_config_refused", "Frp.C09.outside_config_refusedG",
    ],
    "engines": [
        {"name": "ports", "quick_n": 12000, "thorough_n": 40000, "thorough_seeds": 6,
         "nontrivial": nontrivial,
         "result_class": lambda r: ("view" if r.startswith("tcp[") else "seedset" if r.startswith("tcp=") else
                                    r.split(":")[0] + ":" + (r.split(":")[1] if r.startswith("err") else "")
                                    if ":" in r else r)},
    ],
    "rule": "ports engine: every `reset` builds a real server.Service with server.NewService from a ServerConfig "
            "whose allowPorts were generated (1-5 entries on a block of 10 loopback ports: single ports and ranges, "
            "touching / overlapping / nested / repeated / start>end, sorted, reversed or shuffled; half of the resets "
            "use the plain block r1-8), written as struct literal, --allow_ports flag text, TOML or legacy ini, and "
            "passed through ServerConfig.Complete; the Service's own port managers, TCPGroupCtl and proxy.Manager are "
            "then driven by generated register/close histories from three sessions through the real "
            "Control.RegisterProxy/CloseProxy with real loopback sockets: plain tcp/udp proxies and tcp proxies "
            "with loadBalancer.group (two groups, server-chosen and fixed group ports, second and later members, "
            "wrong port, wrong key, dissolve and re-request), requested ports 0 / in block / out of block / "
            "negative / >65535, duplicate names, quotas 0/2/3/5, foreign processes binding and releasing ports, "
            "ports grabbed between Acquire and Listen (gates, also the group's), and the udp forwarder's deferred "
            "Close scheduled by an explicit op (gate); every granted port (fixed, server-chosen, group) is judged "
            "against the union of the entries computed by the model of the configuration path, `view` compares "
            "free/used/OS-bound sets. `seed` ops take generated allowPorts (absolute ports anywhere in 1..65535, "
            "same shapes, wide ranges, no entry at all) through the same configuration path and "
            "ports.NewManager as NewService calls it, and compare the tcp and udp free sets with the union. "
            "Non-trivial = every registration attempt, every seed set, every reset with a generated allow list, "
            "every non-empty view, every gate/foreign-socket op; distinct = distinct (op line, result)",
    "trusted": COMMON_TRUST + [
        "model Frp/Model/Ports.lean written by hand (ports.Manager, TCPProxy/UDPProxy Run/Close, the tcp group path "
        "TCPGroupCtl.Listen / TCPGroup.Listen / CloseListener big-step — the group's port, key and real port are "
        "read off a live member —, quota/name bookkeeping of RegisterProxy/CloseProxy, OS socket table) and "
        "Frp/Model/AllowPorts.lean written by hand (PortsRange meaning, ServerConfig.Complete on AllowPorts = "
        "identity, NewManager's seeding loop, NewService seeding both managers from the same list; the textual "
        "form is C18's Frp/Model/ConfNum.lean); tied by the ports engine",
        "verifhook gates tcp.run.acquired / udp.run.acquired / tcpgroup.listen.acquired / udp.forwarder.exit (tag "
        "verif) and ports.Manager.VerifDump; the harness reads the unexported Service.rc / Service.pxyManager "
        "pointers through reflection (read-only) to drive the managers NewService built",
        "the random port choice is relational: the implementation's observed choice is checked to be a free, "
        "available port and a refusal is accepted only when at least min(5,|free|) free ports are unavailable",
    ],
    "assumptions": [
        "tcp groups are modelled sequentially (register / close one at a time, as under the controller lock); "
        "their interleavings, connection hand-off and the http / tcpmux groups are C13's",
        "allowPorts entries with negative fields or covering port 0 are outside the driven domain (the seed "
        "theorem covers them); an empty allowPorts (= every port) is driven by `seed` ops only, the stateful "
        "histories always run on a non-empty list",
        "interleavings other than the two gated windows (acquire|listen, close|forwarder exit) are not driven; "
        "the reserved-port path of Acquire is proved safe only for atomic acquire+listen (sequential histories)",
        "the 24 h cleaning of reserved ports is not modelled",
    ],
}

META = {
    "engine": "lean+harness(ports)",
    "design_ref": "DESIGN.md §6 C09",
    "technique": "Lean 4 inductive invariant over all register/close/foreign-socket histories incl. tcp groups (partition, ownership, accounting = bound, one port per group, quota) + exact-union theorem for the allowPorts -> Complete -> NewManager seed path + differential correspondence with a real server.Service (NewService from generated configurations), its ports.Manager / TCPGroupCtl / TCPProxy / UDPProxy / Control on real sockets",
    "text": "Proof: for every list of allowPorts entries (single ports and ranges, overlapping, touching, repeated, empty, in any order, or none) the set the port managers are seeded with after ServerConfig.Complete is exactly the union of the entries (seed_exact), and for every allow set, quota and history (plain tcp/udp proxies and tcp load-balancing group members, any requested ports, any random choices, failed listens, foreign processes binding ports, the udp forwarder's late Close) the model's reachable states satisfy: free/used partition the allow set; every live proxy's port is recorded as used and a plain proxy is its recorded owner; every port recorded as used is held by a live proxy (accounting = what is bound); two live proxies of one protocol on one port are the same proxy or members of one group, and all members of a group sit on one port; every live port is covered by an operator entry (whitelisted_config) and a fixed request outside the entries is refused; per-session quota is never exceeded; a group member is told the port the group listens on (the founder a port nobody held, later members the port of the live members, the requested port if one was fixed); a refused registration (also wrong group port / key) changes no owner, no quota, no free set; the port of a closed plain proxy or of a group's last member is free at once, while a member leaving a group that still has members changes no manager; a name gets its reserved port back while it is free. The pinned tree violated accounting = bound (UDPProxy.Close released twice; witness theorem, reproduced on the real code by the gate-scheduled history) and was repaired by /repo commit 41db3ad; the model is of the repaired code. Tie: 12000 generated ops per quick run on a real server.Service (built by NewService from generated allowPorts configurations in four textual forms) with real sockets.",
    "note": "Trusted: Lean kernel; the hand-written model and the ports engine (generators, gates, OS probing by bind attempts on loopback). Tcp groups are covered sequentially here (their interleavings are C13's). Acquire|Listen interleavings between DIFFERENT proxies are only exercised through the grab gate (a foreign process), not between two frp proxies.",
}
