from props import COMMON_TRUST


def wait_nontrivial(tok, res):
    # a case is non-trivial when the real code produced a timed result that the model had to bound
    if tok[0] == "bo":
        return tok[2] == "1"            # a delay after an error (fast / slow / window paths)
    if tok[0] == "until":
        return res.startswith("f=")
    if tok[0] in ("wdwait", "cwwait"):
        return res not in ("unknown",) and not res.startswith("infra")
    return False


def wait_class(r):
    if r in ("ok", "-", "started", "unknown", "nomgr", "hang"):
        return r
    if r.startswith("closed") or r.startswith("open"):
        return r.split(" ", 1)[0]
    if r.startswith("f="):
        return "loop"
    if r[:2] in ("p:", "r:", "b:"):
        return "relogin"
    return "delay" if r[:1].isdigit() else r[:10]


_T = ["lowB_pos", "step_lo_ge", "step_lo_le_hi", "step_hi_le", "slow_le_max", "success_delay",
      "run_delays_bounded", "loop_delays_bounded", "next_attempt_within", "fastCount_le_budget",
      "fast_per_window_le", "no_reset_before_cutoff", "fast_per_window_count_witness", "short_le_fast",
      "delayHolds_sound", "model_delayHolds", "model_shortsHold", "outerOpts_wf", "outer_bounds",
      "login_bounds_20", "login_bounds_10", "outer_loop_delays", "login_loop_delays", "ping_gap_le_interval",
      "run_closed", "close_sound", "alive_of_fed", "detect", "invalid_ping_ignored", "bad_pong_closes",
      "disabled_never_times_out", "detectHolds_sound", "model_detectHolds", "defaults",
      "server_enabled_iff", "client_enabled_iff",
      "innerOpts_facts", "RInv_init", "relogin_wait", "outer_started_stays", "login_registers"]

PROP = {
        "level": "proof",
        "gens": [],
        "theorems": ["Frp.C14." + t for t in _T],
        "engines": [
            {"name": "wait", "quick_n": 5000, "thorough_n": 16000, "thorough_seeds": 4,
             "search_seeds": 2, "search_n": 3000,
             "nontrivial": wait_nontrivial, "result_class": wait_class},
        ],
        "rule": "wait engine: real wait.NewFastBackoffManager(...).Backoff on generated option sets and success/error "
                "sequences (real sleeps cross the fast-retry window), real wait.BackoffUntil with a recording manager, "
                "real frps (server.NewService) with 1-2 s heartbeat timeout against a scripted raw client (valid / wrong-key "
                "pings, silence), real frpc (client.NewService) against a scripted raw server (silent server, pong with "
                "error, refused logins); non-trivial = a delay returned after an error, a BackoffUntil run, a finished "
                "watchdog / re-login scenario; distinct = distinct (op line, result) pairs",
        "trusted": COMMON_TRUST + [
            "models Frp/Model/Backoff.lean, Watchdog.lean, Reconnect.lean written by hand; tied by the wait engine "
            "(relational: every observed delay / closure time must lie in the model's interval)",
            "float64 arithmetic of Backoff/Jitter is modelled with rationals; the generator uses dyadic factors "
            "(exact in float64) plus the factors frp itself uses (2, 0.1, 0.5)",
        ],
        "assumptions": [
            "PARTIAL: wall-clock behaviour and goroutine scheduling are sampled, not proved: the theorems speak about "
            "the delays the code computes and about event histories with explicit time stamps; that time.Ticker, "
            "time.Now and the scheduler deliver those delays within the 0.4 s slack is only observed on the sampled runs",
            "the constant in 'timeout plus a small constant' is the checker period P (1 s) plus scheduling slack; "
            "the theorem is parametric in P",
            "release of *all* resources of a torn-down session is C10's subject; here only the closing of the control "
            "connection is modelled and observed",
            "option sets outside WF (Factor < 1, zero Duration, zero FastRetryDelay) are generated (malformed stream) "
            "and compared with the model, but the lower-bound clause is not claimed for them",
            "with MaxDuration = 0 (no frp call site does this) the delay grows without bound and overflows int64 after "
            "~30 doublings; delays above 2^53 ns are outside the model's domain and skipped (counted)",
            "negative durations / options are outside the model's domain (Nat) and never generated",
            "clock reads at the fast-retry cutoff boundary (+-1 ms) accept both outcomes of now.After(cutoff)",
            "re-registration of all proxies after re-login is by construction in the model (loginFunc calls "
            "ctl.Run(proxyCfgs, visitorCfgs)); the reconcile logic itself is C19's subject",
        ],
    }

META = {
        "engine": "lean+harness(wait)",
        "design_ref": "DESIGN.md §6 C14",
        "technique": "Lean 4 proofs by induction over all call / event histories of the back-off manager and the "
                     "heartbeat watchdog models; relational differential correspondence with the real "
                     "wait.fastBackoffImpl, wait.BackoffUntil, server.Control and client.Control/Service on loopback",
        "text": "Proof (partial): for every option set with Duration > 0, Factor = 0 or >= 1 and positive fast-retry delay, "
                "every success/error history, every clock and every jitter draw, each delay the reconnect back-off hands "
                "out is >= lowB > 0 (200 ms for frpc's outer loop, 1 s for its login loop) and <= MaxDuration-based upB "
                "(20 s), at most 2*FastRetryCount fast retries fall into any FastRetryWindow, the ping sender never waits "
                "longer than the heartbeat interval; for every time-stamped event history the watchdog closes only after "
                "strictly more than the timeout of silence since the last valid heartbeat, closes at the first check after "
                "it (within timeout + checker period), never closes while valid heartbeats arrive at spacing <= timeout, "
                "ignores invalid pings, closes on a pong carrying an error, and is off when the timeout (or the client "
                "interval) is <= 0 (the default with tcpMux). Kernel-checked, axioms propext/Classical.choice/Quot.sound "
                "only. Tied to the code by ~4k (quick) generated operations per run on the real functions, including real "
                "frps/frpc watchdog and re-login scenarios with 1-3 s timeouts.",
        "note": "Partial: timers, the scheduler and the network are sampled, not proved. The code allows up to "
                "2*FastRetryCount fast retries per window (5 in the first minute with frpc's options), not FastRetryCount as "
                "the comment in client/service.go says (fast_per_window_count_witness); this does not break the property.",
    }
