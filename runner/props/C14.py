from props import COMMON_TRUST


def wait_nontrivial(tok, res):
    # a case is non-trivial when the real code produced a timed result that the model had to bound
    if tok[0] == "bo":
        return tok[2] == "1"            # a delay after an error (fast / slow / window paths)
    if tok[0] == "until":
        return res.startswith("f=")
    if tok[0] in ("wdwait", "cwwait", "hbwait"):
        return res not in ("unknown",) and not res.startswith("infra")
    if tok[0] == "hbcfg":
        return res != "badop"            # a configuration text that went through the real loader
    if tok[0] == "hbstart":
        return True
    if tok[0] == "wdstart":
        return "/" in tok[4]            # a scenario with a registration (held or not)
    if tok[0] == "cwstart":
        return "@" in tok[5] or "/q" in tok[5]   # a scenario with configuration reloads / with work connections
    return False


def wait_class(r):
    if r in ("ok", "-", "started", "unknown", "nomgr", "hang", "loaderr"):
        return r
    if r.startswith("eff="):
        # written-settings scenario: refused | closed for liveness | still open
        return "hb-" + ("invalid" if r.endswith("invalid") else r.rsplit(" ", 1)[-1].split("=")[0])
    if r.endswith(" ok") or r.endswith(" invalid"):
        v = r.split(" ")[0]
        neg = any(x.startswith("-") for x in v.split("/"))
        return "cfg-" + r.rsplit(" ", 1)[-1] + ("-off" if neg else "-on")
    if r.startswith("closed") or r.startswith("open") or r.startswith("cut"):
        k = r.split(" ", 1)[0]
        px = r.rsplit("px=", 1)[-1].split(" ")[0] if "px=" in r else "-"
        if px != "-":
            k += "+reg" + ("" if all(e.endswith(":ok") for e in px.split(",")) else "-HELD")
        if " lv=" in r:
            tb = r.rsplit("tb=", 1)[-1]
            k += "+live" + ("" if tb in ("0/0", "-/-") else "-TABLES")
        return k
    if r.startswith("f="):
        return "loop"
    if r[:2] in ("p:", "r:", "b:", "c:"):
        # a 6th field = the connection carried a work-connection schedule (idle / used pooled work connections)
        return "relogin+workconns" if any(c.count(":") == 5 for c in r.split(",")) else "relogin"
    return "delay" if r[:1].isdigit() else r[:10]


_T = ["lowB_pos", "step_lo_ge", "step_lo_le_hi", "step_hi_le", "slow_le_max", "success_delay",
      "run_delays_bounded", "loop_delays_bounded", "next_attempt_within", "fastCount_le_budget",
      "fast_per_window_le", "no_reset_before_cutoff", "fast_per_window_count_witness", "short_le_fast",
      "delayHolds_sound", "model_delayHolds", "model_shortsHold", "outerOpts_wf", "outer_bounds",
      "login_bounds_20", "login_bounds_10", "outer_loop_delays", "login_loop_delays", "ping_gap_le_interval",
      "run_closed", "close_sound", "alive_of_fed", "detect", "invalid_ping_ignored", "bad_pong_closes",
      "disabled_never_times_out", "detectHolds_sound", "model_detectHolds", "defaults",
      "server_enabled_iff", "client_enabled_iff",
      "innerOpts_facts", "RInv_init", "relogin_wait", "outer_started_stays",
      # Part D: end of a server session (Frp/Model/SessEnd.lean)
      "sinv_init", "sinv_step", "sinv_run", "teardown_releases", "released_forever", "async_leak_witness",
      "teardown_reached", "teardown_reached_run",
      # Part E: which configuration a (re-)login registers (Frp/Model/Rereg.lean + C19's Reconcile)
      "updateAll_synced", "healed_init", "healed_step", "healed_run", "login_sends_all", "model_regHolds",
      "regHolds_sensitive", "reload_in_window_witness", "early_snapshot_witness",
      # ties to the source (Frp/Gen/SessFacts.lean, regenerated on every run)
      "code_handlers_plain", "teardown_releases_code", "code_snapshot_at_login", "healed_run_code",
      # Part F: the client's dispatcher in front of its watchdog (Frp/Model/Dispatch.lean)
      "wrun_append", "erun_is_run", "delivered_sound", "close_sound_dispatch", "async_reader_idle",
      "async_read_progress", "async_refines_watchdog", "fed_never_torn_down", "blocked_delivers_nothing",
      "inline_starves", "inline_starves_witness", "code_client_dispatch", "fed_never_torn_down_code",
      "busy_server_detected", "lenient_client_witness", "busy_server_detected_code",
      # Part G: which events refresh the liveness clocks (Frp/Model/Liveness.lean)
      "strict_refines", "busy_peer_detected", "busy_peer_alive", "lenient_never_closes", "lenient_witness",
      "code_clock_strict", "busy_peer_detected_code",
      # Part H: the client's teardown reaches close(doneCh) (Frp/Model/Teardown.lean, Frp/Props/C14Teardown.lean)
      "td_inv_run", "teardown_completes", "teardown_full_fixed", "overflow_stuck", "overflow_reachable",
      "teardown_full_fails_asis", "overflow_witness", "stop_waits_stuck", "code_teardown_shape", "teardown_code",
      # Part I: a dead session is torn down with LIVE user connections (Frp/Model/SessLive.lean, Frp/Props/C14Live.lean)
      "base_step_live", "live_refines", "live_teardown_releases", "teardown_reached_live", "close_waits_stuck", "close_waits_witness", "live_conns_survive_witness", "code_close_no_wait", "live_teardown_releases_code",
      # Part J: the timeout applied is the timeout WRITTEN in the configuration (Frp/Model/HbConf.lean)
      "complete_keeps_written", "client_cfg_written", "server_cfg_written", "promise_is_completed", "server_promise_is_completed",
      "written_nonpositive_disables", "code_client_complete", "code_server_complete", "code_hb_writers", "complete_keeps_written_code",
      "raised_timeout_uninterpreted", "detect_written", "detect_written_code", "raised_timeout_late_witness"]


def td_nontrivial(tok, res):
    return tok[0] == "tdwait" and res.startswith("n=")


def td_class(r):
    if not r.startswith("n="):
        return r[:10]
    f = r.split(" ")
    n = int(f[0][2:])
    size = "many" if n > 100 else ("near-cap" if n > 12 else "few")
    return "%s/%s/%s" % (size, f[1], "STUCK" if f[2].endswith("stuck") else "%dlogins" % (f[2].count("L")))

PROP = {
        "level": "proof",
        "gens": ["SessFacts"],
        "theorems": ["Frp.C14." + t for t in _T],
        "engines": [
            {"name": "wait", "quick_n": 5000, "thorough_n": 16000, "thorough_seeds": 4,
             "search_seeds": 2, "search_n": 3000,
             "nontrivial": wait_nontrivial, "result_class": wait_class},
            {"name": "td", "quick_n": 13, "thorough_n": 41, "thorough_seeds": 3,
             "search_seeds": 2, "search_n": 21,
             "nontrivial": td_nontrivial, "result_class": td_class},
        ],
        "rule": "wait engine: real wait.NewFastBackoffManager(...).Backoff on generated option sets and success/error "
                "sequences (real sleeps cross the fast-retry window), real wait.BackoffUntil with a recording manager, "
                "real frps (server.NewService) with 1-2 s heartbeat timeout against a scripted raw client (valid / wrong-key "
                "pings, NewProxy registrations held at the server plugin or at the gates reg.checked / reg.ran / reg.added, "
                "silence or a cut before / while / after a registration is in flight; afterwards a fresh session must be "
                "able to register the same names and ports), real frpc (client.NewService with a proxy set) against a "
                "scripted raw server (silent server, pong with error, refused logins, cut connections, configuration "
                "reloads through Service.UpdateAllConfigurer while connected and during outages; the NewProxy / CloseProxy "
                "messages seen on every connection must add up to the configured set; work-connection schedules: the "
                "scripted server sends ReqWorkConn in bursts on login / after a use / at random moments, uses "
                "(StartWorkConn) or closes some of the work connections and leaves the others idle in its pool while it "
                "answers every ping for longer than heartbeatTimeout + 1 s + slack, or falls silent / answers with an "
                "error: the client must not close while pongs flow, must close in time when they stop, and every request "
                "must open a work connection whatever earlier ones are idle; BUSY dead peers: a scripted client that after "
                "its last valid ping keeps sending, for longer than timeout + 1 s + slack and at a spacing below the timeout, "
                "pings with a wrong key, pings the Ping plugin rejects, CloseProxy of unknown names, NewProxy that fail or "
                "succeed, NatHoleReport -- and a scripted server that stops answering pings but keeps sending ReqWorkConn, "
                "NewProxyResp, NatHoleResp: the session must be closed within (last valid heartbeat + timeout, + 1 s + slack]; "
                "LIVE TRAFFIC at the moment of death: server scenarios (tcpMux off and on: scripted yamux client) in which the "
                "scripted client is a full peer -- it answers every ReqWorkConn with a work connection and echoes on it -- and "
                "1-3 users are connected through the proxy registered last (echo seen = bridged) when the peer falls silent "
                "keeping every socket open, or the control connection is cut: 600 ms after the close the session's run id must "
                "be gone from the control manager and its names from the proxy manager (Service.VerifSessDump) and a fresh "
                "session must register the same names and ports; the fate of the user connections is recorded; in a third of these the "
                "owner closes the proxy (CloseProxy) while its users are connected and goes on with valid heartbeats: the session "
                "must live until they stop; "
                "WRITTEN heartbeat settings: configuration texts (toml / json / yaml / legacy ini) with transport.tcpMux on / off / "
                "not written and heartbeatInterval / heartbeatTimeout over the lattice timeout below, equal to, between one and "
                "two times, two times and above the interval, negative, not written go through the real loader "
                "(config.LoadClientConfig / LoadServerConfig: parse + Complete) and the real validation (hbcfg, ~120 per run: the "
                "loaded values must promise what the written ones do), and 9 of them start a real frpc (client.NewService on what "
                "the loader returned) against a scripted server (yamux when tcpMux is on) that answers K pings and falls silent: "
                "closed within (last Pong + WRITTEN timeout, + 1 s + slack], or never when the check is switched off); "
                "td engine: real frpc with N tcp proxies (1-6, 40-99, 101-180; plain, health-checked on a live / on a dead "
                "port) against a scripted server that cuts the control connection some ms after each login, the cuts spread "
                "over every phase of the proxies' check goroutines (initial 500 ms sleep, first round, select): after every "
                "cut the next login must arrive within the back-off model's bound (3 s at most here), i.e. Control.worker() "
                "reached close(doneCh); the teardown model with the parameters read from the source must predict the same; "
                "non-trivial = a delay returned "
                "after an error, a BackoffUntil run, a finished watchdog / re-login scenario, a scenario with "
                "registrations or reloads, a configuration text loaded; distinct = distinct (op line, result) pairs; harness/corpus/wait holds op "
                "sequences the generator found against seeded defects",
        "trusted": COMMON_TRUST + [
            "models Frp/Model/Backoff.lean, Watchdog.lean, Reconnect.lean, SessEnd.lean, SessLive.lean, HbConf.lean, Rereg.lean, "
            "Dispatch.lean, Liveness.lean, Teardown.lean written by hand; tied by "
            "the wait engine (relational: every observed delay / closure time must lie in the model's interval; "
            "registrations seen / re-registrations accepted must equal the model's)",
            "the parameters `async` (SessEnd), `early` (Rereg) and `asyncReq` (Dispatch) are read from the source by "
            "translate/gen_sessfacts.go (server and client registerMsgHandlers, Dispatcher.readLoop, AsyncHandler, worker(), "
            "loopLoginUntilSuccess; for the client also which handler methods wait for the peer: a call of msg.ReadMsg / "
            "msg.ReadMsgInto / ctl.connectServer / Connect / Read in the method body) on every run",
            "the liveness policies (which handlers store lastPing / lastPong, and whether the heartbeat handler stores it before "
            "its rejection branch) are read from the source by translate/gen_sessfacts_clock.go on every run: every direct "
            "Store/Swap/CompareAndSwap on the field in the package, attributed to the registered handlers through the methods "
            "of Control they call or mention (fixpoint) and through wrapper literals in registerMsgHandlers; stores reachable "
            "from no handler (other than NewControl) are listed as stray and make code_clock_strict fail; a clock written "
            "through another name (pointer alias, reflection) would escape it",
            "the teardown parameters (send channel capacity, Wrapper.Stop blocks with pw.mu held, a receiver on the send channel "
            "during pm.Close()) are read from the source by the same generator; Teardown abstracts a wrapper to its check "
            "goroutine and the two locks to `held`; pm.mu (held by Manager.Close for the whole walk) is not modelled: nobody "
            "else needs it before doneCh is closed; visitors (vm.Close) are not modelled",
            "SessLive's parameter `closeWaits` is read from the source by translate/gen_sessfacts_live.go on every run: the blocking "
            "constructs (channel receive, select, range over a channel, calls named Wait / WaitClosed / Join / Sleep / Acquire; "
            "closures called in place included, `go` statements excluded) in every method `Close` of server/proxy/*.go and in "
            "(*Control).worker after `<-Done()` (the drain of the just-closed work-connection pool excepted); a wait hidden behind "
            "another method name or in a callee of Close (closeFn() of the http proxies, ports.Manager.Release, the nat-hole "
            "controller) is not seen; mutex acquisitions are not counted",
            "the statements of (*ClientTransportConfig).Complete / (*ServerTransportConfig).Complete that assign a heartbeat field "
            "are extracted in source order with the conditions they sit under and INTERPRETED in Lean (HbConf.interp: only "
            "`x = util.EmptyOr(x, literal)` under `if lo.FromPtr(c.TCPMux)` / its else / unconditionally has an interpretation); "
            "code_client_complete / code_server_complete prove interpretation = hand-written model for all inputs; every other "
            "assignment to / address-of a field named HeartbeatInterval / HeartbeatTimeout in pkg/config, client, server, cmd is "
            "listed (hbWriters) and must be a field-to-field copy; util.EmptyOr itself and a write through reflection are trusted",
            "Dispatch: the handlers of NewProxyResp / NatHoleResp / Pong are modelled as returning at once (the translator "
            "checks that their bodies contain no read from / dial to the peer; calls they make into the proxy manager and "
            "the message transporter are not followed)",
            "Rereg uses C19's Reconcile.updateAll and its theorems update_names / update_running_cfgs / update_new_count",
            "existing /repo gates reg.checked / reg.ran / reg.added (build tag verif) are used to hold a registration",
            "float64 arithmetic of Backoff/Jitter is modelled with rationals; the generator uses dyadic factors "
            "(exact in float64) plus the factors frp itself uses (2, 0.1, 0.5)",
        ],
        "assumptions": [
            "PARTIAL: wall-clock behaviour and goroutine scheduling are sampled, not proved: the theorems speak about "
            "the delays the code computes and about event histories with explicit time stamps; that time.Ticker, "
            "time.Now and the scheduler deliver those delays within the 0.4 s slack is only observed on the sampled runs",
            "the constant in 'timeout plus a small constant' is the checker period P (1 s) plus scheduling slack; "
            "the theorem is parametric in P",
            "'all resources released' is modelled and observed for the session's proxies (remote ports, proxy names): "
            "after the session ended a fresh session registers the same names/ports; the other tables are C10's subject",
            "OBSERVATION (frp as it is, live_conns_survive_witness): a user connection bridged to a work connection of a silent "
            "peer is NOT ended by the teardown (tcpMux off: always; tcpMux on: unless the TCP connection itself ends) -- it stays "
            "open, served by nobody, until the user leaves; names, ports and table entries are released regardless.  The check "
            "records it (lv=K/B/O) and does not demand the connections to be closed",
            "SessLive: under `closeWaits` the walk is kept disabled as a whole (what a stuck walk released before the proxy it is "
            "stuck at depends on Go's map order); Control.CloseProxy's own call of pxy.Close() is not refined; user connections "
            "are tcp users of tcp proxies (the common listener handler); 1-3 of them, on one proxy",
            "written settings: the real-time scenarios use intervals / timeouts of 1-5 s (defaults 30 / 90 are only watched for "
            "2.5 s: still open); a raised timeout whose excess over the written one is below the checker period + slack "
            "(e.g. 2 / 3 raised to 4) can pass the clock but not hbcfg / code_client_complete; zero is never written (it means "
            "'not written'); command-line flags do not carry the two settings",
            "the session-end model abstracts a remote port to the proxy name and other sessions / the OS to an `extFail` "
            "input; server plugins and gates only delay a registration, they never reject it in the generated scenarios",
            "a held registration is the last thing the scripted peer sends: pings queued behind a blocked read loop are "
            "answered late by frps (the handler runs inside the read loop), which the watchdog model does not describe "
            "(the dispatcher model of Part F is instantiated for the client only)",
            "Part F: `fed_never_torn_down` is stated for the prompt read loop (`erun`: a runnable read loop reads before the "
            "next timed event; `erun_is_run` shows these are schedules of the small-step model); for arbitrary schedules "
            "`close_sound_dispatch`, `async_reader_idle` and `async_read_progress` hold; the phase of the client's 1 s "
            "checker is unknown to the engine, which therefore compares closure times relationally",
            "KNOWN FINDING C14-client-teardown-sendch-overflow: in frp as it is the teardown clause fails for more queued "
            "messages than the send channel holds (teardown_full_fails_asis); teardown_completes proves it under the explicit "
            "hypothesis TdRoom (a receiver, or room for every message still to be pushed), teardown_full_fixed for the repaired "
            "code; teardown_code states which of the two the source at hand is",
            "teardown theorems are possibility statements over all reachable states (from every state a finishing schedule of "
            "<= 5 steps per wrapper exists; from a stuck state none does): that the Go scheduler runs the enabled goroutines "
            "is assumed; the time the teardown takes is only observed (td engine)",
            "td engine: the number of NewProxy seen on a session that is cut early is only bounded (<= N); proxies 13..39 and "
            "cuts while NewProxy messages are still queued (fewer than 101 proxies can then overflow the channel too) are not "
            "generated",
            "option sets outside WF (Factor < 1, zero Duration, zero FastRetryDelay) are generated (malformed stream) "
            "and compared with the model, but the lower-bound clause is not claimed for them",
            "with MaxDuration = 0 (no frp call site does this) the delay grows without bound and overflows int64 after "
            "~30 doublings; delays above 2^53 ns are outside the model's domain and skipped (counted)",
            "negative durations / options are outside the model's domain (Nat) and never generated",
            "clock reads at the fast-retry cutoff boundary (+-1 ms) accept both outcomes of now.After(cutoff)",
            "re-registration: theorem healed_run assumes no reload falls between `ctl.Run(snapshot)` and `svr.ctl = ctl` of "
            "one loginFunc call (two adjacent statements); reload_in_window_witness shows the stale control if one does "
            "(finding candidate, microsecond window, not reproduced on the real code); the engine never schedules it",
            "visitors follow the same two calls (vm.UpdateAll) but only proxies are observed on the wire",
        ],
    }

META = {
        "engine": "lean+harness(wait,td)",
        "design_ref": "DESIGN.md §6 C14",
        "technique": "Lean 4 proofs by induction over all call / event histories of the back-off manager, the heartbeat "
                     "watchdog with arbitrary other traffic under a clock-refresh policy, the client dispatcher in front of it "
                     "(small-step, all interleavings + prompt read loop), the client teardown (small-step, all interleavings), the "
                     "server session-end (small-step, all interleavings) and the client re-registration "
                     "models; go/ast extraction of the structural facts (handler registration modes, snapshot point, every store of "
                     "lastPing / lastPong with its handler and position, the shape of the teardown path, the blocking constructs of every "
                     "server proxy Close, the heartbeat statements of the two Complete methods -- interpreted in Lean); relational differential correspondence with the real "
                     "wait.fastBackoffImpl, wait.BackoffUntil, server.Control and client.Control/Service on loopback",
        "text": "Proof (partial): for every option set with Duration > 0, Factor = 0 or >= 1 and positive fast-retry delay, "
                "every success/error history, every clock and every jitter draw, each delay the reconnect back-off hands "
                "out is >= lowB > 0 (200 ms for frpc's outer loop, 1 s for its login loop) and <= MaxDuration-based upB "
                "(20 s), at most 2*FastRetryCount fast retries fall into any FastRetryWindow, the ping sender never waits "
                "longer than the heartbeat interval; for every time-stamped event history the watchdog closes only after "
                "strictly more than the timeout of silence since the last valid heartbeat, closes at the first check after "
                "it (within timeout + checker period), never closes while valid heartbeats arrive at spacing <= timeout, "
                "ignores invalid pings, closes on a pong carrying an error, and is off when the timeout (or the client "
                "interval) is <= 0 (the default with tcpMux); on the client, for every history of Pongs, ReqWorkConn and work "
                "connections being used, closed or left idle for ever, the read loop is never occupied (ReqWorkConn is handled "
                "through AsyncHandler), the watchdog's state is that of the bare watchdog fed with the Pongs when they are "
                "sent, so a server that keeps answering is never torn down, whereas with a plain ReqWorkConn handler one idle "
                "work connection closes the session within timeout + checker period whatever the server sends "
                "(inline_starves, witness); on both ends only an accepted heartbeat moves the clock (strict policy, read from the "
                "source): for every history of valid pings, rejected pings and any other control messages the watchdog is in the "
                "state of the bare watchdog on the history without the other traffic, so a peer without a valid key that keeps "
                "sending NewProxy / CloseProxy / rejected pings, and a server that stops answering pings but keeps sending "
                "ReqWorkConn / NewProxyResp, are closed within timeout + checker period, while under ANY other policy such a "
                "peer is never closed (lenient_never_closes, witnesses); the client's teardown worker -> pm.Close -> Wrapper.Stop "
                "can reach close(doneCh) from every reachable state -- every check goroutine in any phase, Stop in any phase -- in "
                "<= 5 steps per wrapper if the send channel has a receiver or room, and never if Stop pushes into a full channel "
                "without a receiver, which frp as it is reaches with more than 100 proxies (KNOWN FINDING, "
                "teardown_full_fails_asis; repaired model: teardown_full_fixed; teardown_code says which applies to the source at "
                "hand), nor if Stop waits for the check goroutine with the wrapper lock held (stop_waits_stuck); "
                "for every interleaving of peer, read loop, NewProxy handler, "
                "watchdog and worker() a torn-down server session holds no remote port and no proxy name, registrations in "
                "flight at the end of the connection included, and the teardown is reached in <= 6 own steps once the "
                "connection ended; for every history of reloads, connection losses, refused and successful logins a live "
                "client control runs exactly the stored configuration and a login announces every configured proxy once; "
                "with ANY number of user connections bridged to work connections of a silent peer -- users connecting, staying "
                "and leaving in any order -- the session part of the state is the one of the session-end model "
                "(live_refines), so a torn-down session holds nothing whatever traffic it carried, and from every state whose "
                "connection has ended the teardown is reached in <= 6 own steps by a schedule in which no user connection ends "
                "(teardown_reached_live), whereas with a Close that waits for its connection handlers one staying user keeps "
                "name, port and session for ever (close_waits_stuck, witness; which of the two the source is: "
                "code_close_no_wait); Complete never changes a written interval / timeout (complete_keeps_written), the "
                "watchdog a configuration runs is the one its written values promise (promise_is_completed), a silent server "
                "is detected in (last + t, last + t + P] with t the timeout AS WRITTEN for every positive pair and either tcpMux "
                "setting (detect_written), and the statements of the two Complete methods found in the source compute exactly "
                "the model (code_client_complete, code_server_complete; a timeout raised to two intervals has no "
                "interpretation and is late by up to an interval: raised_timeout_late_witness). "
                "Kernel-checked, axioms propext/Classical.choice/Quot.sound only. Tied to the code by a go/ast extraction of "
                "the handler registration modes (server and client) and the snapshot point, and by ~5k (quick) generated "
                "operations per run on the real functions, including real frps/frpc watchdog, registration-in-flight, "
                "re-login, reload-during-outage, idle-pooled-work-connection, busy-dead-peer, dead-peer-with-live-user-connections "
                "(tcpMux off / on), written-settings (real loader, four formats) and lost-session teardown (1-180 "
                "proxies, with and without health checks) scenarios with 1-5 s timeouts.",
        "note": "Partial: timers, the scheduler and the network are sampled, not proved. KNOWN FINDING "
                "C14-client-teardown-sendch-overflow (frpc with > 100 proxies never reconnects after a connection loss; repair in "
                "hooks/C14-fix-teardown-drain.patch). The code allows up to "
                "2*FastRetryCount fast retries per window (5 in the first minute with frpc's options), not FastRetryCount as "
                "the comment in client/service.go says (fast_per_window_count_witness); this does not break the property.",
    }
