from props import COMMON_TRUST


def group_nontrivial(tok, res):
    if "|" in res:          # a kept connection was delivered / closed during this op
        return True
    if tok[0] == "join":
        return res.startswith("err:") or res.startswith("ok")
    if tok[0] == "dial":
        return res in ("c", "unauth", "squat")
    if tok[0] == "resume":
        return res == "-"
    if tok[0] in ("conn", "connE"):
        return res.startswith("to:") or res in ("stuck", "unauth", "squat", "held")
    if tok[0] == "sched":
        return True
    return False


def group_class(r):
    if "|" in r:
        b, suf = r.split("|", 1)
        kinds = sorted({f.split("=", 1)[1][:2] for f in suf.split(",") if "=" in f})
        return group_class(b) + "|" + "+".join({"to": "delivered", "cl": "closed"}.get(k, k) for k in kinds)
    if ";" in r:
        return "crash" if r.endswith("crash") else ("stuck" if "stuck" in r else "fine")
    if r.startswith("to:"):
        return "to"
    if r.startswith("ok:"):
        return "ok:=" if r.endswith("=") else "ok:other-port"
    if " open=" in r:
        return group_class(r.split(" open=")[0]) + "+open"
    if r.startswith("used=") or r.startswith("routes="):
        return "dump"
    return r[:18]


def gpp_nontrivial(tok, res):
    if tok[0] in ("join", "take"):
        return res.startswith("ok:") or res.startswith("err:")
    if tok[0] == "conn":
        return res.startswith("to:") or res in ("squat", "stuck", "closed")
    if tok[0] == "view":
        return "used=;" not in res
    if tok[0] == "close":
        return res == "-"
    return tok[0] == "squat" and res == "ok"


def gpp_class(r):
    if r.startswith("free="):
        return "view"
    if r.startswith("ok:"):
        return "ok"
    if r.startswith("to:"):
        return "to"
    return ":".join(r.split(":")[:2])


PROP = {
        "level": "proof",
        "gens": ["GroupFacts", "PortFacts"],
        "theorems": [
            "Frp.C13.cmp_none_iff", "Frp.C13.join_ok_iff", "Frp.C13.join_refused_unchanged",
            "Frp.C13.join_ok_effect",
            "Frp.C13.no_panic_witness", "Frp.C13.no_panic_witness_mux", "Frp.C13.stranded_witness",
            "Frp.C13.no_limbo_witness", "Frp.C13.handoff_limbo_witness", "Frp.C13.handoff_closed_repaired",
            "Frp.C13.http_leak_witness", "Frp.C13.race_disabled_repaired",
            "Frp.C13.truthful_witness", "Frp.C13.port_leak_witness",
            "Frp.C13.request_step", "Frp.C13.rotation_covers", "Frp.C13.request_picks_member",
            "Frp.Group.inv_step", "Frp.Group.inv_run",
            "Frp.C13.repaired_inv", "Frp.C13.oneLock_inv", "Frp.C13.repaired_no_panic",
            "Frp.C13.repaired_leave_never_crashes", "Frp.C13.repaired_endpoint_iff_members",
            "Frp.C13.repaired_populated_is_registered", "Frp.C13.repaired_one_object_per_name",
            "Frp.C13.repaired_delivery", "Frp.C13.repaired_stranded_only_if_empty",
            "Frp.C13.repaired_last_leave", "Frp.C13.acquire_some", "Frp.C13.createEp_repaired_truthful",
            "Frp.C13.truthful_partial",
            "Frp.Group.cinv_step", "Frp.Group.cinv_run", "Frp.Group.run_cap",
            "Frp.C13.repaired_cinv", "Frp.C13.repaired_queue_empty", "Frp.C13.repaired_no_limbo",
            "Frp.C13.repaired_no_stranded", "Frp.C13.repaired_pending_waits", "Frp.C13.repaired_pending_closed",
            "Frp.C13.buffered_stranded_witness",
            "Frp.Group.ainv_step", "Frp.Group.ainv_run", "Frp.C13.repaired_ainv",
            "Frp.C13.repaired_none_lost", "Frp.C13.repaired_delivered_once",
            "Frp.Group.inv_leaveEdit", "Frp.Group.inv_leaveDel",
            "Frp.C13.repaired_sections_exclusive", "Frp.C13.repaired_table_members_consistent",
            "Frp.C13.repaired_second_section_finds_entry", "Frp.C13.leaveL_eq_sections", "Frp.C13.leaveG_eq_sections",
            "Frp.C13.split_leave_witness_http", "Frp.C13.split_leave_witness_tcp",
            "Frp.C13.code_join_one_section", "Frp.C13.code_leave_one_section", "Frp.C13.code_lock_order",
            "Frp.C13.code_release_real_port", "Frp.C13.code_gates",
            "Frp.C13.step_leaked", "Frp.C13.repaired_no_leak", "Frp.C13.repaired_used_iff_populated",
            "Frp.C13.usedHolds_sound",
            # tcp groups composed with the real port manager tables (Frp/Model/GroupPorts.lean)
            "Frp.C13Ports.inv_run",
            "Frp.C13Ports.used_names_the_holder",
            "Frp.C13Ports.one_listener_per_port",
            "Frp.C13Ports.listener_not_foreign",
            "Frp.C13Ports.listener_has_members",
            "Frp.C13Ports.openLn_cases",
            "Frp.C13Ports.openLn_no_overwrite",
            "Frp.C13Ports.join_no_overwrite",
            "Frp.C13Ports.take_no_overwrite",
            "Frp.C13Ports.join_keeps_owners",
            "Frp.C13Ports.close_touches_own_port_only",
            "Frp.C13Ports.last_leave_frees",
            "Frp.C13Ports.create_granted_free",
            "Frp.C13Ports.create_port0_good_choice",
            "Frp.C13Ports.create_port0_iff",
            "Frp.C13Ports.create_fixed_iff",
            "Frp.C13Ports.recreate_port0",
            "Frp.C13Ports.recreate_fixed",
            "Frp.C13Ports.recreate_after_last_leave",
            "Frp.C13Ports.acquireR_probed",
            "Frp.C13Ports.unprobed_reservation_witness",
            "Frp.C13Ports.code_take_probed", "Frp.C13Ports.code_take_paths",
        ],
        "extra_targets": ["Frp.Props.C13Ports"],
        "engines": [
            {"name": "group", "quick_n": 6000, "thorough_n": 20000, "thorough_seeds": 5,
             "nontrivial": group_nontrivial, "result_class": group_class},
            {"name": "grpports", "quick_n": 4000, "thorough_n": 16000, "thorough_seeds": 5,
             "nontrivial": gpp_nontrivial, "result_class": gpp_class},
        ],
        "rule": "group engine: generated join/leave/connection/squat histories on the real TCPGroupCtl "
                "(real ports.Manager + sockets), HTTPGroupController (real vhost.Routers) and TCPMuxGroupCtl "
                "(real HTTP-CONNECT muxer), plus schedules run in a sacrificial child process in which BOTH the join "
                "(lookup | group section, parked at the `*group*.lookedup` gates) and the leave (table lookup | group "
                "edit | table delete: asynchronous leaves, paused by holding the group object's own lock) are "
                "scheduled in sections, join x leave overlaps in both orders, one / some / all members leaving, "
                "each followed by a probe (correct join, connection, ports / routes held, everybody leaves, "
                "ports / routes again, re-creation); an op whose thread can never finish (every thread blocked "
                "on a mutex, or no progress for 2 s, with no hold and no gate left) is `wedged` = the property "
                "fails (waits are event-driven: goroutine states); tcp groups with server-chosen port: after "
                "the group dissolved the port manager's used set must not keep the real port and the real port "
                "is acquired again explicitly (`@m`); user connections whose ARRIVAL IS DECOUPLED FROM PICK-UP (tcp, tcpmux): members that "
                "joined but are not yet inside Accept (held, later resumed), connections dialled and kept "
                "open, joins/leaves/resumes/further arrivals in random order, every kept connection followed "
                "to its end (delivered to whom / closed by frps / still open 2 s after it had to be taken or "
                "closed); non-trivial = a join decided (accepted/refused with a class), a connection "
                "delivered/stuck/unauthorised/kept, a kept connection resolved, or a schedule; "
                "distinct = distinct (op line, result) pairs.  "
                "grpports engine: the real TCPGroupCtl over the real ports.Manager (allowed sets of 1-8 loopback ports, "
                "real sockets) together with the other owners a port manager has — further groups, plain tcp proxies "
                "(the Acquire / net.Listen / Release sequence of TCPProxy.Run / Close), foreign processes — with proxy "
                "names REUSED (the manager's reserved-port path is part of every history): joins with remotePort 0, "
                "a number, or `@name` = the real port last granted to that name (somebody takes a released port by "
                "number), right / wrong key and port, leaves, grabs between Acquire and Listen, squats, user "
                "connections, dumps of the manager; episodes: a group is founded (0 or fixed), joined, dissolved "
                "member by member, another owner takes its old port (by number / by the server's choice / a foreign "
                "bind) or nobody does, the group is created again by its former founder, another former member or a "
                "new name.  Judged on the implementation's own results: a granted port is allowed, the requested one, "
                "held by nobody and accounted to nobody (no overwrite); a refused creation is legitimate only when no "
                "free port is available (server-chosen: `no available port` with >= min(5,|free|) free ports held) ; "
                "every dump: used[p] names the owner of the listener frps holds on p, accounted = bound, free/used "
                "partition the allowed set; a connection is answered by a member of the listener on that port",
        "trusted": COMMON_TRUST + [
            "model Frp/Model/Group.lean written by hand from server/group/{tcp,http,tcpmux}.go; tied by the group engine",
            "verifhook gates tcpgroup/httpgroup/tcpmuxgroup *.lookedup (hooks/C13.patch) perturb timing only",
            "the harness reaches ctl.groups[g].mu by reflection and holds it (op `hold`): perturbs timing only; "
            "'blocked on a mutex' is read from runtime.Stack goroutine states",
            "model Frp/Model/GroupPorts.lean written by hand (TCPGroupCtl.Listen / TCPGroup.Listen / CloseListener big-step "
            "over Frp/Model/Ports.lean's PM = ports.Manager's three tables; TCPProxy.Run / Close for the plain owners; the OS "
            "socket table); tied by the grpports engine, whose plain-proxy ops repeat TCPProxy.Run's Acquire / Listen / "
            "Release sequence in the harness, and by Frp/Gen/PortFacts.lean (translate/gen_portfacts.go, go/ast: every "
            "write to usedPorts in Manager.Acquire with its enclosing conditions)",
            "translate/gen_groupfacts.go (go/ast): statement-order walk of the six join/leave entry functions with "
            "package-local calls inlined; branches that return do not flow out, intersection after other branches",
        ],
        "assumptions": [
            "each proxy closes its group listener once (BaseProxy.Close); member names are unique while live (proxy.Manager)",
            "http index is a Nat in the model (Go: uint64 converted to int; negative after 2^63 requests)",
            "a member that is in the middle of Close() may still win the receive on acceptCh (not modelled; the proxy then closes the connection)",
            "wildcard domains / the full Routers longest-match are C06's; here exact domains, locations from a prefix-free set plus the empty one",
            "a held member = a proxy whose goroutine has not reached TCPGroupListener.Accept yet (the scheduler may delay it arbitrarily); the harness realises it by starting the member's accept loop only at `resume`",
            "tcp: the connection in the worker's hands and those still in the kernel backlog of the group's listener are one set in the model (`inflight`); both are closed when the last member leaves (send on the closed channel / listener close)",
            "tcpmux: one kept connection at a time — further ones wait inside vhost.Muxer.handle, not in the group; Muxer.handle's recovered send on a closed listener leaves such a connection open (DESIGN §7/10, open on this tree, C11's), which is not driven here",
            "a connection arriving while a member's leave is under way (listener closed, still listed) is not driven",
            "the split leave of the witness model keeps the identity test `ctl.groups[name] == g` (the careful form)",
            "group + port manager composition (GroupPorts): joins and leaves are big steps (one critical section each, "
            "code_join_one_section / code_leave_one_section); Acquire|Listen windows of two frp owners overlap only through "
            "the grab (a foreign bind); the 24 h expiry of reservations is not modelled; the bind address is fixed",
            "'stuck' for a kept connection is decided by time: the harness's own books say it must be delivered or closed and it is still open after 2 s",
        ],
    }

META = {
        "engine": "lean+harness(group, grpports)",
        "design_ref": "DESIGN.md §6 C13, Appendix A.3",
        "technique": "Lean 4 small-step model of the three two-lock group controllers; big-step composition of the tcp group controller with the port manager's tables (inductive invariant over all histories); invariants over all interleavings for the repaired model, witness schedules for the pinned one; differential correspondence with the real controllers incl. gated schedules in a sacrificial child process",
        "text": "Proof (model level) + correspondence. For every state, a join meeting a populated group is accepted iff it presents the group's name, key and all compared endpoint parameters (http: and is not yet a member); a refused join changes nothing; http requests rotate index mod n and reach every member within n requests. For the repaired controllers (lookup+join and leave under the controller lock, listen on the acquired port, close on failed hand-off) invariants hold under ALL interleavings: no double close (no panic), endpoint open iff members, every populated group is the one stored under its name, reported port = listening port, no leaked port, no connection left in limbo, immediate re-creation after the last leave. The leave's two sections (group edit | table delete) are labels of their own in every one of these statements: the source keeps the controller lock across both (facts regenerated from server/group/*.go by the translator: join = one critical section, leave = one critical section, lock order controller -> group, edits under the group lock, the tcp group releases realPort), so between the sections nothing of another join or leave is enabled, table <-> members stay consistent (a populated object is the table's entry for its name; a table entry is usable unless its last leaver holds the controller lock and is about to delete it), and the big-step leave equals its sections run back to back; a kernel-checked witness shows that the same controllers with a leave that gives the lock up between its sections (even with an identity test) lose a live http group (later correct joins refused, route never removed) and crash frps for tcp/tcpmux. A port is accounted as used exactly as long as a populated group listens on it (no leak under any interleaving). With the port manager's real tables in the state (free / used / reserved; tcp groups, plain proxies and foreign processes as owners; every history, every random choice, failed listens): usedPorts[p] always names the one owner that holds the listener on p and an acquisition never overwrites an owner's entry (one owner's bookkeeping does not damage another's port); a leave releases the leaver's own port only, the last leave frees it at once and it can be acquired again by number immediately; a group without members can be created with a server-chosen port iff some allowed port is free and with a fixed port iff that port is free — whoever took its old port meanwhile; a kernel-checked witness shows that a reserved-port path without the bind probe hands a re-created group a port another owner holds, frees that owner's port while it listens and refuses every retry; the probe in front of every write to usedPorts is read from the source (PortFacts). User connections, with arrival decoupled from pick-up: because the hand-off channel is unbuffered, under ALL interleavings every connection that reached a group's listener is in exactly one place — waiting with the worker, received by exactly one member, or closed by frps; none is ever stranded (open in nobody's hands, or buffered in the channel of a group without members); while a member is live the worker keeps a waiting connection; those still waiting when the last member has left are closed. A kernel-checked witness shows that the same controllers with any channel capacity > 0 strand the connections buffered at the last leave while everything else (delivery, re-creation) still works. For the pinned tree the same statements are refuted by kernel-checked witness schedules which the harness reproduces on the real code (frps dies).",
        "note": "Trusted: Lean kernel; hand-written model; harness generators. KNOWN findings: C13-tcp-group-port0-listen, C13-group-revived-after-last-leave, C13-http-group-leaked-route.",
    }
