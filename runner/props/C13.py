from props import COMMON_TRUST


def group_nontrivial(tok, res):
    if tok[0] == "join":
        return res.startswith("err:") or res.startswith("ok")
    if tok[0] == "conn":
        return res.startswith("to:") or res in ("stuck", "unauth", "squat")
    if tok[0] == "sched":
        return True
    return False


def group_class(r):
    if ";" in r:
        return "crash" if r.endswith("crash") else ("stuck" if "stuck" in r else "fine")
    if r.startswith("to:"):
        return "to"
    if r.startswith("ok:"):
        return "ok:=" if r.endswith("=") else "ok:other-port"
    if r.startswith("used=") or r.startswith("routes="):
        return "dump"
    return r[:18]


PROP = {
        "level": "proof",
        "gens": [],
        "theorems": [
            "Frp.C13.cmp_none_iff", "Frp.C13.join_ok_iff", "Frp.C13.join_refused_unchanged",
            "Frp.C13.join_ok_effect",
            "Frp.C13.no_panic_witness", "Frp.C13.no_panic_witness_mux", "Frp.C13.stranded_witness",
            "Frp.C13.no_limbo_witness", "Frp.C13.handoff_limbo_witness", "Frp.C13.handoff_closed_repaired",
            "Frp.C13.http_leak_witness", "Frp.C13.race_disabled_repaired",
            "Frp.C13.truthful_witness", "Frp.C13.port_leak_witness",
            "Frp.C13.request_step", "Frp.C13.rotation_covers", "Frp.C13.request_picks_member",
            "Frp.Group.inv_step", "Frp.Group.inv_run",
            "Frp.C13.repaired_inv", "Frp.C13.oneLock_inv", "Frp.C13.repaired_no_panic",
            "Frp.C13.repaired_leave_never_crashes", "Frp.C13.repaired_endpoint_iff_members",
            "Frp.C13.repaired_populated_is_registered", "Frp.C13.repaired_one_object_per_name",
            "Frp.C13.repaired_delivery", "Frp.C13.repaired_stranded_only_if_empty",
            "Frp.C13.repaired_last_leave", "Frp.C13.acquire_some", "Frp.C13.createEp_repaired_truthful",
            "Frp.C13.truthful_partial",
        ],
        "engines": [
            {"name": "group", "quick_n": 6000, "thorough_n": 20000, "thorough_seeds": 5,
             "nontrivial": group_nontrivial, "result_class": group_class},
        ],
        "rule": "group engine: generated join/leave/connection/squat histories on the real TCPGroupCtl "
                "(real ports.Manager + sockets), HTTPGroupController (real vhost.Routers) and TCPMuxGroupCtl "
                "(real HTTP-CONNECT muxer), plus gated lookup/enter schedules run in a sacrificial child "
                "process; non-trivial = a join decided (accepted/refused with a class), a connection "
                "delivered/stuck/unauthorised, or a schedule; distinct = distinct (op line, result) pairs",
        "trusted": COMMON_TRUST + [
            "model Frp/Model/Group.lean written by hand from server/group/{tcp,http,tcpmux}.go; tied by the group engine",
            "verifhook gates tcpgroup/httpgroup/tcpmuxgroup *.lookedup (hooks/C13.patch) perturb timing only",
        ],
        "assumptions": [
            "each proxy closes its group listener once (BaseProxy.Close); member names are unique while live (proxy.Manager)",
            "http index is a Nat in the model (Go: uint64 converted to int; negative after 2^63 requests)",
            "a member that is in the middle of Close() may still win the receive on acceptCh (not modelled; the proxy then closes the connection)",
            "wildcard domains / the full Routers longest-match are C06's; here exact domains, locations from a prefix-free set plus the empty one",
        ],
    }

META = {
        "engine": "lean+harness(group)",
        "design_ref": "DESIGN.md §6 C13, Appendix A.3",
        "technique": "Lean 4 small-step model of the three two-lock group controllers; invariants over all interleavings for the repaired model, witness schedules for the pinned one; differential correspondence with the real controllers incl. gated schedules in a sacrificial child process",
        "text": "Proof (model level) + correspondence. For every state, a join meeting a populated group is accepted iff it presents the group's name, key and all compared endpoint parameters (http: and is not yet a member); a refused join changes nothing; http requests rotate index mod n and reach every member within n requests. For the repaired controllers (lookup+join and leave under the controller lock, listen on the acquired port, close on failed hand-off) invariants hold under ALL interleavings: no double close (no panic), endpoint open iff members, every populated group is the one stored under its name, reported port = listening port, no leaked port, no connection left in limbo, immediate re-creation after the last leave. For the pinned tree the same statements are refuted by kernel-checked witness schedules which the harness reproduces on the real code (frps dies).",
        "note": "Trusted: Lean kernel; hand-written model; harness generators. KNOWN findings: C13-tcp-group-port0-listen, C13-group-revived-after-last-leave, C13-http-group-leaked-route.",
    }
