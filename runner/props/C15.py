from props import COMMON_TRUST


def _parts(res):
    r, _, cons = res.partition(" | ")
    n = 0 if cons in ("-", "") else len(cons.split(","))
    return (r.split(" ") or ["?"])[0], n


def plugin_nontrivial(tok, res):
    if tok[0] == "site":
        return res.startswith("L=") and "," in res
    if tok[0] == "hist":      # a history in which at least three steps reached the plugins
        w = res.partition(" | ")[2]
        if ",W:" in tok[1]:   # a heartbeat history (real time): at least one Ping refused and at least three waits
            return res.startswith("H=") and "no" in res.partition(" | ")[0] and tok[1].count(",W:") >= 3
        return res.startswith("H=") and sum(1 for x in w.split(";") if x.replace("&", "").replace("-", "") != "") >= 3
    if tok[0] == "sess":      # a session that stopped at least two proxies with a CloseProxy plugin listening
        return res.startswith("L=ok") and res.count("CloseProxy:") >= 2 and res.count("ok:") >= 2
    if tok[0] != "call":
        return False
    kind, n = _parts(res)
    return n >= 2 or kind in ("err", "errs", "panic")


def plugin_class(res):
    if res.startswith("H="):
        r, _, w = res.partition(" | ")
        outs = r[2:].split(",")
        pings = [o for o in outs if o in ("ok+", "ok=", "no+", "no=")]
        if any(o.startswith("g") for o in outs):
            # a heartbeat history in which the server dropped sessions by itself while the peer waited
            dropped = sum(len(o[1:].split("!")[0].split("+")) for o in outs if o.startswith("g"))
            return "Hbeat;dropped-in-wait=%d;pings-counted=%s;pings-refused=%s;alive-at-end=%s" % (
                dropped, "y" if "ok+" in pings else "n", "y" if "no=" in pings else "n",
                "y" if any(o in ("ok+", "no=") for o in outs[-4:]) else "n")
        par = [o.split("!")[0].split("&") for o in outs if "&" in o]      # J steps: occurrences in flight together
        flat = [x for o in outs for x in o.split("!")[0].split("&")]
        return "H;steps=%d+;consulted-steps=%d+;refused=%s;user/work-conn=%s;hung-up=%s;pings=%s;in-flight=%s" % (
            len(outs) // 4 * 4, sum(1 for x in w.split(";") if x.replace("&", "").replace("-", "") != "") // 3 * 3,
            "y" if any(o in ("no", "no=", "no+", "no/-", "ok/no") for o in flat) else "n",
            "y" if any("/" in o for o in flat) else "n", "y" if "closed" in flat else "n",
            "+".join(sorted(set(pings))) or "-",
            # how many occurrences of one step really went through a chain, and whether their verdicts differed
            "-" if not par else "%d%s" % (min(4, max(sum(1 for x in p if x not in ("-", "dead", "dup", "closed")) for p in par)),
                                          "d" if any(len({x.split(":")[0] for x in p if x not in ("-", "dead", "dup", "closed")}) > 1 for p in par) else "s"))
    if res.startswith("L=") and ";S=" in res:
        r, _, w = res.partition(" | ")
        n = w.count("CloseProxy:")
        return "%s;registered=%d;close-requests=%s" % (r[:4], r.count("ok:"), n if n < 4 else "4+")
    if res.startswith("L="):
        import re
        r = res.partition(" | ")[0]
        return re.sub(r"ok:x[0-9a-f]*", "ok", r)
    if " | " not in res:
        return res[:10]
    kind, n = _parts(res)
    return "%s/%d" % (kind, min(n, 6))


PROP = {
        "level": "proof",
        "gens": ["PluginSiteFacts"],
        "theorems": [
            "Frp.C15.register_list", "Frp.C15.registerAll_list", "Frp.C15.registered_chain",
            "Frp.C15.gated_consulted", "Frp.C15.gated_result", "Frp.C15.gated_ok_iff",
            "Frp.C15.fail_closed", "Frp.C15.first_failure", "Frp.C15.proceed_all_consulted",
            "Frp.C15.consulted_ids_prefix", "Frp.C15.unregistered_never_consulted",
            "Frp.C15.steps_content", "Frp.C15.steps_length", "Frp.C15.closeAll_spec",
            "Frp.C15.http_bad_is_err", "Frp.C15.http_passes_iff",
            "Frp.C15.holdsOn_sound", "Frp.C15.model_spec", "Frp.C15.manager_spec",
            "Frp.C15.manager_close_spec", "Frp.C15.closeHoldsOn_sound", "Frp.C15.model_closeHoldsOn",
            "Frp.C15.notified_eq_stopped", "Frp.C15.session_end_stops_all",
            "Frp.C15.notifyGo_spec", "Frp.C15.sessP_erase", "Frp.C15.sessP_notes",
            "Frp.C15.notify_all_schedules", "Frp.C15.every_stop_reaches_every_plugin",
            "Frp.C15.notify_chain_order", "Frp.C15.notes_handler_independent",
            "Frp.C15.notifyHoldsOn_sound", "Frp.C15.model_notifyHoldsOn",
            "Frp.C15.siteHoldsOn_sound", "Frp.C15.step_events_gated", "Frp.C15.run_events_gated",
            "Frp.C15.site_proceeds_only_through_gate", "Frp.C15.site_every_occurrence", "Frp.C15.model_siteHoldsOn",
            "Frp.C15.login_gated_every_kind", "Frp.C15.add_unique", "Frp.C15.effect_only_through_gate",
            "Frp.C15.session_user_is_login_rewrite", "Frp.C15.proxy_name_is_newproxy_rewrite",
            "Frp.C15.offered_carries_session_user",
            "Frp.C15.step_clock", "Frp.C15.lastPing_only_through_gate", "Frp.C15.refused_ping_changes_nothing",
            "Frp.C15.quiet_history_keeps_clocks", "Frp.C15.hbCheck_spec", "Frp.C15.unrenewed_session_is_dropped",
            "Frp.C15.alive_after_check_is_recent", "Frp.C15.clocks_le_now",
            "Frp.C15.pingHoldsOn_sound", "Frp.C15.model_pingHoldsOn",
            "Frp.C15.expiryHoldsOn_sound", "Frp.C15.model_expiryHoldsOn", "Frp.C15.code_ping_store_gated",
            "Frp.C15.stepReq_is_step", "Frp.C15.stepReq_events_gated", "Frp.C15.ping_acts_on_rewritten",
            "Frp.C15.workconn_acts_on_rewritten", "Frp.C15.original_credentials_decide_nothing",
            "Frp.C15.code_chain_then_verify",
            "Frp.C15.flight_advance_cons", "Frp.C15.flight_runs_gated", "Frp.C15.pool_occurrence_independent",
            "Frp.C15.concurrent_occurrences_gated", "Frp.C15.log_per_occurrence",
            "Frp.C15.log_is_each_occurrences_chain", "Frp.C15.conn_visits_independent",
            "Frp.ListW.Interleave.perm", "Frp.ListW.Interleave.sublist", "Frp.ListW.Interleave.sequential",
            "Frp.C15.errMsg_ne_nil", "Frp.C15.empty_error_only_from_empty_reason",
            "Frp.C15.refusal_reported_witness", "Frp.C15.refusal_reported", "Frp.C15.refusal_reported_partial",
        ],
        "engines": [
            {"name": "plugin", "quick_n": 14000, "thorough_n": 150000, "thorough_seeds": 5,
             "nontrivial": plugin_nontrivial, "result_class": plugin_class},
        ],
        "rule": "plugin engine: generated chains of 0..8 registered plugins (stub Plugin implementations and real "
                "httpPlugin instances against a scripted HTTP server), any op subset each, followed by calls of all six "
                "Manager methods; on chains of real httpPlugins additionally `site` (one proxy through every gated call site of a "
                "real frps) and `sess` (one session of a real frps with 0..5 proxies over a small name pool: collisions, explicit "
                "closes by literal / answered name, double closes, re-registration, then session end; plugins that fail always or "
                "for some proxy names only) and `hist` (a history on a real frps: several control connections, logins with an empty / "
                "literal / earlier session's run id — live = re-login that replaces, closed before = stale —, behaviour flips of the "
                "registered plugins between steps (accept, rewrite, partial rewrite, reject, content-dependent reject / failure, HTTP "
                "error, reset, malformed, translators that turn a ticket into other credentials / names, substitutions), repeated NewProxy on new / used names, "
                "Ping and work connections carrying any credentials (privilege key + timestamp: valid, tickets, junk) on servers with and without the "
                "HeartBeats / NewWorkConns auth scopes (the result says whether the session's lastPing moved; whether a Ping counts / a work connection is "
                "started must follow the credentials AS REWRITTEN by the chain), user + work connections, connection closes, and `J` steps: 2..4 occurrences IN FLIGHT "
                "TOGETHER (user connections to one proxy from the same and from other source addresses 127.0.0.x, their work connections, Pings and NewProxys "
                "of several sessions) while the plugin server holds every answer back until the script releases it, in any order, with changes of mind "
                "between two releases (first let through slowly and the later ones refused, and the other way round); every request is attributed to its "
                "occurrence by its own content (remote address incl. port, run id) and each occurrence is judged like a lone one) and, three per run, "
                "heartbeat histories in real time (a frps with heartbeatTimeout 1 or 2 s, 2..4 sessions pinging in rounds every 0.3..0.5 s "
                "while the Ping plugins change their mind — reject all / some keys, HTTP 500, reset, garbage, `{}`, for all / some keys, "
                "maybe consent again —, sessions that fall silent or are closed; the history goes on until every session whose Pings are "
                "no longer counted is past timeout + 1 s + slack: who is still there is decided by the model clock); a case is non-trivial when at least two plugins were consulted or the operation was "
                "refused / panicked (call), the scenario got past the login (site), at least two proxies were stopped with a "
                "CloseProxy plugin listening (sess), at least three steps reached the plugins (hist; heartbeat histories: a Ping was refused and at least three waits); distinct = distinct (op line, result) pairs. op_distribution keys are "
                "<line kind>:<result kind>/<number of Handle calls made>",
        "trusted": COMMON_TRUST + [
            "model Frp/Model/PluginChain.lean written by hand from pkg/plugin/server/{manager,http,plugin,types}.go; tied by the "
            "plugin engine (real plugin.Manager.Register/Login/NewProxy/CloseProxy/Ping/NewWorkConn/NewUserConn; real "
            "NewHTTPPluginOptions/httpPlugin.Handle/do over loopback HTTP)",
            "encoding/json and net/http are not modelled: the HTTP exchange enters the model as an abstract reply "
            "(connection error | status + body class); the harness' scripted server decides which bytes realise which class",
            "the call sites (service.go handleConnection/RegisterWorkConn, control.go handleNewProxy/handlePing/CloseProxy/worker, "
            "proxy.go handleUserTCPConnection) are tied by the `site` lines (scenario model in Frp/Engines/Plugin.lean `siteExpected`, "
            "built from the proved `gated`/`closeAll`; the scenario function itself carries no theorem); where the server may still "
            "refuse after the plugins passed (token check, proxy registration, visitor admission) the observed outcome is taken over",
            "histories at the call sites are tied by the `hist` lines: the state machine replayed is the proved `PluginSite.step` "
            "(Frp/Model/PluginSite.lean, written by hand from service.go handleConnection/RegisterControl/RegisterWorkConn, control.go "
            "ControlManager/handleNewProxy/handlePing, proxy.go handleUserTCPConnection); per step the requests the plugin server received "
            "and whether the peer saw the operation go on are judged by `C15.siteHoldsOn`; what the server decides apart from the plugins "
            "(token check, proxy registration, visitor admission, the random run id) is taken over from the implementation; for Login the "
            "model's second content member stands for the members other than the user (run id …): every scripted behaviour copies them all "
            "or zeroes them all",
            "the heartbeat: `PluginSite.step` counts a Ping (`lastPing` := now) only on the branch on which chain and VerifyPing passed; "
            "that `ctl.lastPing.Store` stands there in handlePing (after the `if err != nil {…return}`), that only NewControl writes it "
            "besides, and the heartbeat worker's condition and period are regenerated from server/control.go on every run "
            "(translate/gen_pluginsitefacts.go, `C15.code_ping_store_gated`); whether a Ping was counted is read through the existing "
            "hook Service.VerifAuthSessions (LastPing before / after the Pong) and judged by `C15.pingHoldsOn`; VerifyLogin's verdict "
            "is taken over from the implementation; VerifyPing's and VerifyNewWorkConn's are NOT: `PluginSite.stepReq` computes them from the "
            "credentials of the content the chain returned (`Auth`: per scope the list of credentials the verifier accepts; the scenario names them, "
            "computed by the harness with util.GetAuthKey; privilege key and timestamp travel as one string), and the statement order chain → "
            "`x = &retContent.…` → `Verify…(x)` → refusal → effect in RegisterWorkConn / handlePing / handleConnection+RegisterControl is regenerated "
            "from the source (`C15.code_chain_then_verify`)",
            "occurrences in flight together (`J` steps): the scripted plugin server records a request when it arrives and answers it when the script "
            "says so, with the behaviour of that moment; the model keeps per occurrence the plugins that answered it as they answered "
            "(`PluginSite.Flight`; `C15.concurrent_occurrences_gated`, `C15.log_is_each_occurrences_chain`: under every schedule each occurrence "
            "gets the manager loop's result on its own chain and content and appears in the request log with exactly its own calls); the first "
            "request of an occurrence must carry the occurrence's own identity (remote address of that user connection, run id of that session), "
            "later ones are attributed causally (they follow a release of that occurrence); a request that fits no occurrence, or an occurrence that "
            "goes on without a request of its own, fails `C15.siteHoldsOn`; that every user connection has a goroutine of its own, that "
            "handleUserTCPConnection itself calls the chain and that no gated chain is called from a function literal is regenerated from the source",
            "real time in the heartbeat histories: the model clock (1/10 s) advances only in W steps, which the harness keeps on an "
            "absolute schedule; a history whose steps overran it by more than 250 ms is void (`infra late`, counted as skipped); a "
            "session must be alive while (now - last counted heartbeat) + 0.5 s <= timeout, must be gone when it exceeds timeout + 1 s "
            "(worker period) + 0.5 s (`C15.expiryHoldsOn` on the implementation's answer), in between the observation is taken over; "
            "a message in flight when the server hangs up: what the plugin server still received of it is taken over",
            "the close notifications of a whole session (control.go CloseProxy + worker: one goroutine per stopped proxy) are tied by the "
            "`sess` lines: bookkeeping and goroutines are the proved `SessP` (Frp/Model/PluginChain.lean), the CloseProxy requests the "
            "plugin server received are judged by `C15.notifyHoldsOn` (a permutation of: every stopped proxy x every registered plugin); "
            "the harness waits for the expected number of requests for at most 1 s (a notification later than that counts as missing)",
        ],
        "assumptions": [
            "stub plugins obey the interface contract (non-nil *Response when err == nil)",
            "content strings that travel through an httpPlugin are valid UTF-8 (encoding/json replaces invalid bytes)",
            "a plugin that never answers blocks the operation forever (http.Client without timeout): not allowed, not refused; outside the model",
        ],
    }

META = {
        "engine": "lean+harness(plugin)",
        "design_ref": "DESIGN.md §6 C15",
        "technique": "Lean 4 proofs by induction over the plugin chain for arbitrary handler functions; differential correspondence with the real plugin.Manager and httpPlugin",
        "text": "Proof: for every list of registered plugins (any supported-op sets, any handler functions that may depend on the content they are handed), every operation and content, the modelled manager method consults exactly the plugins registered for that operation, in registration order, each on the left-to-right composition of the earlier modifications, up to and including the first one that errors / rejects / returns unusable content, nobody after it; it returns ok iff every one of them passed, and then the content is the composition; transport error, non-200, unreadable or unparsable body make Handle fail and hence the operation is refused; CloseProxy notifies every registered plugin with the original content even when earlier ones fail; at the session level every proxy stopped by CloseProxy or by session end is notified exactly once, and with the chain attached (one notification goroutine per stopped proxy, modelled as the code starts them): for every session history, every chain and all handler functions, every order in which the session end ranges over its proxies and every interleaving of the goroutines, the Handle(CloseProxy) calls received are a permutation of {stopped proxy} x {plugin registered for CloseProxy} (nothing lost behind a failing plugin or a failed notification, nothing twice) and each notification calls the chain in order; at the call sites, for every HISTORY (several sessions; logins with an empty, unknown, live (re-login / replacement) or ended run id; the same operation any number of times; a plugin manager that may be another one at every step, i.e. behaviours that flip between operations): every visit of a call site is a run of the chain of that moment, the server goes on (session stored / replaced, proxy registered, heartbeat counted + pong, work connection pooled, user connection served) only if every plugin then registered for the operation was consulted in order and passed, the server state changes only through such a visit, every Control the server holds was admitted by a consenting Login chain and carries the user as rewritten by it (which is what every later request of the session offers the plugins), every proxy runs under the name as rewritten by a consenting NewProxy chain; where the server checks credentials after the chain (Ping with the HeartBeats scope, NewWorkConn with the NewWorkConns scope) the check reads the credentials of the content the chain RETURNED — a Ping counts / a work connection is handed to the session iff the chain consented and the verifier accepts the rewritten credentials, the original ones decide nothing, and the chain is consulted whatever they are worth (statement order of RegisterWorkConn / handlePing / the Login case + RegisterControl regenerated from the source); occurrences in flight at the same time (several user connections to one proxy, work connections, Pings, NewProxys, each goroutine stopped between two Handle calls, plugins answering in any order): under every schedule every occurrence returns what the manager loop returns on ITS chain and ITS content, and the plugins' request log restricted to an occurrence is exactly that occurrence's list (nothing shared, nothing inherited); the heartbeat clock of a session (lastPing) moves only through a Ping of that session that VerifyPing and every plugin then registered for Ping let through (a rejected Ping, one whose plugin is unreachable / answers non-200 / garbage changes nothing at all), over any history in which no Ping passes the gate every clock stays where it was, and then the first run of the session's heartbeat worker later than last counted heartbeat + timeout ends the session (logical clock, ticks and worker runs interleaved arbitrarily); the position of the lastPing store in handlePing, its writers and the worker's condition are regenerated from the source on every run. Kernel-checked, axioms propext/Classical.choice/Quot.sound only. The hand-written model is tied to the code by replaying 14k (quick) generated operations per run (incl. ~550 one-proxy call-site scenarios, ~550 multi-proxy session scenarios and ~300 multi-session histories with re-logins, behaviour flips, credential-rewriting plugins under the HeartBeats / NewWorkConns auth scopes and ~200 steps with 2-4 occurrences in flight together while the plugin server holds its answers, against a real frps, 3 of them real-time heartbeat histories with a 1-2 s timeout) on the real Manager (stubs + real httpPlugin over loopback HTTP) and on the model, with the Lean predicate evaluated on the implementation's own results.",
        "known_finding": "C15-empty-reject-reason: reject with reject_reason \"\" is refused server-side but reported to the peer as success (LoginResp/NewProxyResp/Pong/StartWorkConn.Error empty). Minimal repair: in util.GenerateResponseErrorString fall back to the summary when err.Error() is empty (or give Manager a default reject reason).",
        "note": "Trusted: Lean kernel; the hand-written model of manager.go/http.go; the harness generators and its scripted HTTP server. Observations kept faithful in the model: a 200 reply without `unchange` (e.g. `{}` or `null`) is accepted and replaces the content by the zero value; `\"content\": null` with unchange=false panics in the manager's type assertion (the goroutine is not recovered at the call sites); handleUserTCPConnection discards the content returned by NewUserConn; NewUserConn is only hooked for listener-based proxies (tcp, stcp, https, tcpmux), not for http / udp.",
    }
