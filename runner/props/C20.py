from props import COMMON_TRUST


def nat_nontrivial(tok, res):
    k = tok[0]
    if k in ("resp", "rangechk"):
        return ";none#" in res or ";cc#" in res or ";cv#" in res or ";cc|" in res
    if k == "rec":
        return True
    if k == "classify":
        return res != "err"
    if k == "range":
        return res != "nil"
    if k in ("settle", "stuck"):
        return any(c.isdigit() for c in res)
    if k == "report":
        return res.startswith("1#")
    return False


def nat_class(r):
    if r.startswith("V="):
        f = r.split("#")[0].split(";")
        if len(f) >= 14:
            return "role%s/mode%s/%s" % (f[5], f[6], f[13].split("|")[0])
        return "no-response"
    if "#" in r and r[0].isdigit() and "," in r.split("#")[0]:
        return "mode" + r.split(",")[0] if r.count("#") == 3 else r[:3]
    if r.startswith("live=") or r[:1].isdigit() and ":" not in r and "." not in r:
        return "some" if any(c.isdigit() for c in r) else "none"
    if ":" in r and r.replace(":", "").replace("-", "").replace("+", "").isdigit():
        return "range"
    if "." in r and r.replace(".", "").replace(",", "").replace("-", "").isdigit():
        return "scores"
    if r.startswith("n") and r[1:].isdigit():
        return "notified"
    if r.startswith(("easy", "hard")):
        p = r.split(",")
        return "%s,%s,reg%s,pub%s" % (p[0], p[1], p[3], p[4])
    return r[:14]


PROP = {
        "level": "proof",
        "gens": ["NatTables"],
        "theorems": [
            "Frp.C20.tables_complementary", "Frp.C20.tables_shape", "Frp.C20.byMode_mem", "Frp.C20.modes124_A_sends",
            "Frp.C20.scores_valid", "Frp.C20.recommand_complementary", "Frp.C20.recommand_row",
            "Frp.C20.mode1_hard_sends", "Frp.C20.mode2_hard_listens", "Frp.C20.mode4_regular_sends", "Frp.C20.role_rules_hold",
            "Frp.C20.ports_in_range", "Frp.C20.ports_out_of_range_witness",
            "Frp.C20.analysisWith_pair_ok", "Frp.C20.analysis_pair_ok", "Frp.C20.analysis_full_partial", "Frp.C20.analysis_full",
            "Frp.C20.classify_ok_valid", "Frp.C20.analysis_oor_witness", "Frp.C20.analysis_oor_now_error",
            "Frp.C20.analysis_error_both", "Frp.C20.analysis_malformed_error", "Frp.C20.honest_peers_meet",
            "Frp.C20.session_created_only_signed", "Frp.C20.allow_users_not_checked_witness",
            "Frp.C20.responses_only_to_involved", "Frp.C20.unknown_sid_noop",
            "Frp.C20.handler_rank_decreases", "Frp.C20.rank_not_increased", "Frp.C20.handler_progress",
            "Frp.C20.wf_run", "Frp.C20.handler_never_stuck", "Frp.C20.leak_trace_now_recovers",
            "Frp.C20.sessions_deleted", "Frp.C20.rank_le_six", "Frp.C20.rank_zero_iff", "Frp.C20.blocked_no_handler_step", "Frp.C20.leak_witness",
            "Frp.C20.fullOk_sound", "Frp.C20.pairOk_sound", "Frp.C20.model_pairOk",
        ],
        "engines": [
            {"name": "nat", "quick_n": 4500, "thorough_n": 12000, "thorough_seeds": 5,
             "search_n": 3000, "search_seeds": 3,
             "nontrivial": nat_nontrivial, "result_class": nat_class},
        ],
        "rule": "nat engine: classification / port-range / analyzer-history ops on the real functions plus controller "
                "rounds (listen/close/visit/notify/cli/report/settle/resp) on a real nathole.Controller; a case is "
                "non-trivial when a classification succeeds, a range is produced, a recommendation is made, a report "
                "hits a stored record, a session is still stored after settle, or a session produced a response pair; "
                "distinct = distinct (op line, result) pairs",
        "trusted": COMMON_TRUST + [
            "translator /verif/translate (generator NatTables, go/ast) regenerates Frp/Gen/NatTables.lean from "
            "pkg/nathole/analysis.go on every run; theorem tables_shape pins what it must find",
            "model Frp/Model/NatHole.lean written by hand; tied by the nat engine (real ClassifyNATFeature, getRangePorts, "
            "Analyzer.GetRecommandBehaviors/ReportSuccess, Controller.ListenClient/CloseClient/HandleVisitor/HandleClient/HandleReport)",
            "verif hook pkg/nathole/verif_export.go (read-only exports: getRangePorts, scores, session ids)",
        ],
        "assumptions": [
            "md5 treated as injective (analysis keys and sign keys are represented by their md5 input)",
            "GenSid never repeats a live session id (model: visitorLookup is not enabled for a stored sid)",
            "the owner loop of an xtcp proxy receives from sidCh exactly while its config is registered (xtcp.go Run/Close); "
            "since 8d80cd3 this only decides whether the notify is received, not whether the handler ends",
            "time: NatHoleTimeout shortened to 1 s in the harness; the final sleep (ReadTimeoutMs+30 s) before the deferred "
            "delete is not waited for in the quick tier (deletion after it is covered by the model theorem only)",
            "'honest peers find each other' is proved on an abstract unfiltered-network reachability predicate, not on UDP",
        ],
    }

META = {
        "engine": "lean+translate(NatTables)+harness(nat)",
        "design_ref": "DESIGN.md §6 C20",
        "technique": "Lean 4: decide over regenerated behaviour tables, invariant over all recommend/report histories, "
                     "small-step session model with rank argument; differential correspondence with the real nathole code",
        "text": "Proof: for every feature pair and every history of recommendations and success reports the two "
                "responses carry the same sid and mode, complementary roles and each other's addresses; role rules of "
                "modes 1/2/4 hold; every successful analysis was computed from validated addresses and all its port "
                "ranges satisfy 1 <= From <= To <= 65535, malformed or out-of-range addresses give the error pair "
                "(analysis_full, analysis_malformed_error; repaired by f51e354). Sessions are created only for a "
                "correctly signed request by an allowed user naming a registered proxy (allow list: C08 fix), responses "
                "go only to the session's visitor transporter and to a transporter that submitted a NatHoleClient for "
                "that sid, every handler step strictly lowers a rank, and in every reachable state every stored session "
                "has an enabled handler step (handler_never_stuck; the notify send is bounded by NatHoleTimeout since "
                "8d80cd3), so sessions are deleted on every path. The pinned tree's defects stay documented as "
                "witness theorems about the old functions (analysis_oor_witness, leak_witness, "
                "allow_users_not_checked_witness over classifyOld/stepOld).",
        "note": "Trusted: Lean kernel, translator for the tables, hand-written model tied by the nat engine. "
                "Not covered: real NAT behaviour and UDP timing; the 30 s+ final sleep is not waited for in quick runs.",
    }
