from props import COMMON_TRUST


def nat_nontrivial(tok, res):
    k = tok[0]
    if k in ("resp", "rangechk"):
        return ";none#" in res or ";cc#" in res or ";cv#" in res or ";cc|" in res
    if k == "rec":
        return True
    if k == "classify":
        return res != "err"
    if k == "range":
        return res != "nil"
    if k in ("settle", "stuck"):
        return any(c.isdigit() for c in res)
    if k == "report":
        return res.startswith(("1#", "0#"))
    if k == "visit":
        # a supplied SignKey that is not the plain signature (tok[10] != "x"), or a created session
        return res == "created" or (len(tok) > 10 and tok[10] != "x")
    if k == "adump":
        return not res.startswith("0:")
    return False


def nat_class(r):
    if r[:2] in ("u#", "0#", "1#") and r.count("#") == 3:
        return "report:" + {"u": "unknown-sid", "0": "not-analysed", "1": "analysed"}[r[0]] + ":" + r.split("#")[3].split(":")[0]
    if r.count(":") == 1 and r.split(":")[0].isdigit() and (r.endswith(":") or "." in r.split(":")[1]):
        return "analyzer-dump"
    if r.startswith("V="):
        f = r.split("#")[0].split(";")
        if len(f) >= 14:
            return "role%s/mode%s/%s" % (f[5], f[6], f[13].split("|")[0])
        return "no-response"
    if "#" in r and r[0].isdigit() and "," in r.split("#")[0]:
        return "mode" + r.split(",")[0] if r.count("#") == 3 else r[:3]
    if r.startswith("live=") or r[:1].isdigit() and ":" not in r and "." not in r:
        return "some" if any(c.isdigit() for c in r) else "none"
    if ":" in r and r.replace(":", "").replace("-", "").replace("+", "").isdigit():
        return "range"
    if "." in r and r.replace(".", "").replace(",", "").replace("-", "").isdigit():
        return "scores"
    if r.startswith("n") and r[1:].isdigit():
        return "notified"
    if r.startswith(("easy", "hard")):
        p = r.split(",")
        return "%s,%s,reg%s,pub%s" % (p[0], p[1], p[3], p[4])
    return r[:14]


def punch_nontrivial(tok, res):
    if tok[0] == "sidmsg":
        return res.startswith("ok:")
    if tok[0] == "pwdm":
        return res[:1] in ("a", "b", "c")
    if tok[0] == "pwait":
        return res.endswith(("#p;p", "#n;n", "#t;n", "#n;t"))
    return False


def punch_class(r):
    if r.startswith("V="):
        f = r.split("#")
        v = f[0].split(";")
        return "mode%s/v=%s/%s" % (v[6], v[5], f[-1]) if len(v) >= 14 else "no-response"
    if r.startswith("ok:"):
        return "decoded"
    if len(r) >= 3 and r[1] == "#" and r[0] in "abcno":
        return "wait:" + ("returned" if r[0] in "abc" else "error" if r[0] == "n" else "other") + ("+answered" if r[2:] != "-" else "")
    if "," in r and r.replace(",", "").isdigit():
        return "started"
    return r[:14]


def natpx_nontrivial(tok, res):
    k = tok[0]
    if k == "visit":
        return res.startswith("created") or res == "err:noexist"
    if k == "release":
        return res.startswith("exp=")
    if k == "run":
        return res in ("ok", "repeated")
    if k in ("close", "reg", "precheck"):
        return True
    if k == "out":
        return res != "-"
    return False


def natpx_class(r):
    import re as _re
    return _re.sub(r"[0-9]+(,[0-9]+)*", "N", r)[:24]


PROP = {
        "level": "proof",
        "gens": ["NatTables", "NatClientFacts"],
        "theorems": [
            "Frp.C20.tables_complementary", "Frp.C20.tables_shape", "Frp.C20.byMode_mem", "Frp.C20.modes124_A_sends",
            "Frp.C20.scores_valid", "Frp.C20.recommand_complementary", "Frp.C20.recommand_row",
            "Frp.C20.mode1_hard_sends", "Frp.C20.mode2_hard_listens", "Frp.C20.mode4_regular_sends", "Frp.C20.role_rules_hold",
            "Frp.C20.ports_in_range", "Frp.C20.ports_out_of_range_witness",
            "Frp.C20.analysisWith_pair_ok", "Frp.C20.analysis_pair_ok", "Frp.C20.analysis_full_partial", "Frp.C20.analysis_full",
            "Frp.C20.classify_ok_valid", "Frp.C20.analysis_oor_witness", "Frp.C20.analysis_oor_now_error",
            "Frp.C20.analysis_error_both", "Frp.C20.analysis_malformed_error", "Frp.C20.honest_peers_meet",
            "Frp.C20.session_created_only_signed", "Frp.C20.allow_users_not_checked_witness",
            "Frp.C20.responses_only_to_involved", "Frp.C20.unknown_sid_noop",
            "Frp.C20.handler_rank_decreases", "Frp.C20.rank_not_increased", "Frp.C20.handler_progress",
            "Frp.C20.wf_run", "Frp.C20.handler_never_stuck", "Frp.C20.leak_trace_now_recovers",
            "Frp.C20.sessions_deleted", "Frp.C20.rank_le_six", "Frp.C20.rank_zero_iff", "Frp.C20.blocked_no_handler_step", "Frp.C20.leak_witness",
            "Frp.C20.fullOk_sound", "Frp.C20.pairOk_sound", "Frp.C20.model_pairOk",
            "Frp.C20.report_enabled", "Frp.C20.report_frame", "Frp.C20.report_no_leak", "Frp.C20.report_failure_noop",
            "Frp.C20.reportSuccess_rows", "Frp.C20.report_score_only", "Frp.C20.analysisKey_ne_nil", "Frp.C20.kinv_run",
            "Frp.C20.report_not_analysed_noop", "Frp.C20.report_any_time",
            "Frp.C20.waitLoop_skips", "Frp.C20.harmless_iff", "Frp.C20.wait_accepts_only", "Frp.C20.sender_probes_reported",
            "Frp.C20.honest_peers_meet_steps", "Frp.C20.key_mismatch_never_meets",
            "Frp.C20.handover_lost_witness", "Frp.C20.handover_main_first_partial", "Frp.C20.handover_buffered_never_lost",
            "Frp.C20.tables_timing", "Frp.C20.analysisWith_timing", "Frp.C20.analysis_timing",
            "Frp.C20.classifyLoop_isSome", "Frp.C20.classify_some_iff", "Frp.C20.classify_malformed_error",
            "Frp.C20.waitLoop_eq_spec", "Frp.C20.waitLoop_memoryless", "Frp.C20.foreign_sid_anywhere",
            "Frp.C20.waitLoop_filter_harmless",
            "Frp.C20.free_step_cfgs", "Frp.C20.pinv_step", "Frp.C20.pinv_reachable", "Frp.C20.registered_iff_live",
            "Frp.C20.close_unregisters", "Frp.C20.close_removes_own_channel", "Frp.C20.registered_only_by_run",
            "Frp.C20.closed_stays_unregistered", "Frp.C20.unregistered_refused", "Frp.C20.session_only_for_live_proxy",
            "Frp.C20.sid_only_from_notifying", "Frp.C20.delivered_is_taken", "Frp.C20.deferred_unregister_witness",
            "Frp.C20.ctCompare_eq_one_iff", "Frp.C20.sigOk_iff", "Frp.C20.authKey_length", "Frp.C20.sig_wrong_length_refused",
            "Frp.C20.sig_prefix_or_extension_refused", "Frp.C20.overlap_compare_witness", "Frp.C20.visitorLookupW_refines",
            "Frp.C20.session_created_only_exact_signature", "Frp.C20.sessions_exact_signature_all_histories",
            "Frp.C20.sig_compare_shape", "Frp.C20.visitor_critical_shape",
            "Frp.C20.makehole_plan_shape", "Frp.C20.detectAddrs_is_source", "Frp.C20.instructed_addrs_all_probed",
            "Frp.C20.send_plan_complete", "Frp.C20.range_addrs_complete", "Frp.C20.truncated_plan_witness",
        ],
        "extra_targets": ["Frp.Props.C20Proxy", "Frp.Props.C20Client"],
        "engines": [
            {"name": "nat", "quick_n": 5000, "thorough_n": 12000, "thorough_seeds": 5,
             "search_n": 3000, "search_seeds": 3,
             "nontrivial": nat_nontrivial, "result_class": nat_class},
            {"name": "punch", "quick_n": 100, "thorough_n": 600, "thorough_seeds": 3,
             "search_n": 240, "search_seeds": 2, "reruns": 1,
             "nontrivial": punch_nontrivial, "result_class": punch_class},
            {"name": "natpx", "quick_n": 500, "thorough_n": 1500, "thorough_seeds": 3,
             "search_n": 400, "search_seeds": 2, "reruns": 1,
             "nontrivial": natpx_nontrivial, "result_class": natpx_class},
        ],
        "rule": "nat engine: classification (prop: accepted iff >= 2 entries and every entry valid; long lists with one "
                "malformed / out-of-range entry at every position after every type-deciding prefix), row-walk rounds (a "
                "fresh controller, one address pair per feature-pair class driven through every row of its score list "
                "without success; both responses of every row judged incl. read timeout vs. send delay), "
                "classification / port-range / analyzer-history ops on the real functions plus controller "
                "rounds on a real nathole.Controller whose per-session scripts (visit, notify, cli, report, close/listen) "
                "are interleaved: report before the notify / before the NatHoleClient / after an error response / for an "
                "expired or unknown sid / twice, NatHoleClient before the notify / repeated / from a second control; every "
                "op is run with panics caught (PANIC: => prop=FAILS), a report's result carries a before/after frame of "
                "sessions and analyzer, adump compares the controller's whole analyzer; a case is non-trivial when a "
                "classification succeeds, a range is produced, a recommendation is made, a report meets a stored "
                "session, a session is still stored after settle, a session produced a response pair, a visit created a "
                "session or carried a derived SignKey. SIGNATURE AS A STRING: a third of the visits supply a SignKey derived "
                "from the right one for (secret, timestamp) — every proper prefix length 0..31, a proper suffix, the right "
                "one followed by bytes, one character dropped / replaced at every position, right up to position k then "
                "junk, upper case, literals (empty, blank, 32 zeros, md5 of nothing, non-hex) — next to the right one for "
                "another secret / timestamp; the Lean engine computes both strings with a real MD5 (Frp.Md5) and replays "
                "HandleVisitor's critical section on the message as it arrives (NatSign.visitorLookupW); predicate on the "
                "implementation's answer: 'created' only if the supplied string equals hex(md5(proxy secret ++ message "
                "timestamp)) byte for byte, the proxy is registered and the user allowed. punch engine: "
                "real ExchangeInfo + MakeHole of both parties on loopback over real MessageTransporters and a real "
                "Controller (all five modes, noise datagrams incl. well-formed same-key messages of another session with "
                "Response true / false at both or one socket, key mismatch, insider datagram, late response), single real "
                "waitDetectMessage runs over a queued inbox (pwdm: own / foreign / near-miss / empty sid x Response, junk, "
                "other key, truncated, three sources, any order; prop: the outcome is the memoryless specification's); "
                "MULTI-HOMED PARTIES: each side announces its own address, none, or N = 0..12 further local addresses "
                "(bound, idle sockets: assisted addresses that do not lead to the hole-punching socket; nathole.Prepare "
                "announces up to 10), in every batch two fast honest sessions with 10..12 on both sides — the instructions "
                "come from the real Controller, both real MakeHole runs must return the peer's address; and "
                "the sid-message codec; non-trivial when a message decodes, a wait returns or two MakeHole runs ended. "
                "natpx engine: REAL server-side xtcp proxies (proxy.NewProxy(xtcp).Run()/Close() of server/proxy/xtcp.go with "
                "their sid-dispatch goroutine) on a real ResourceController + nathole.Controller; the harness never calls "
                "ListenClient / CloseClient itself; GetWorkConnFn is scripted and SLOW (blocks until the op sequence releases "
                "it with a work connection or an error). Rounds of 3..5 names with interleaved random histories: request -> "
                "sid in flight -> Close -> signed requests / pre-checks / registered? / Run of a new proxy of the same name / "
                "the owner's late answer, in any order; Close of idle proxies, repeated Close, several requests on a slow "
                "owner, wrong key / user / never registered names, second Run of a live name, deliveries never answered. "
                "Predicate on the implementation's answers, from the TRACE's own history: a request is answered 'created' "
                "only if a proxy whose Run answered ok and that no Close op has named holds the name (with that key and "
                "user), 'repeated' / registered=1 / pre-check ok only while such a proxy exists, a sid reaches only the "
                "owner of the named proxy, nothing is stored after settle. "
                "distinct = distinct (op line, result) pairs",
        "trusted": COMMON_TRUST + [
            "translator /verif/translate (generator NatTables, go/ast) regenerates Frp/Gen/NatTables.lean from "
            "pkg/nathole/analysis.go on every run; theorem tables_shape pins what it must find",
            "model Frp/Model/NatHole.lean written by hand; tied by the nat engine (real ClassifyNATFeature, getRangePorts, "
            "Analyzer.GetRecommandBehaviors/ReportSuccess, Controller.ListenClient/CloseClient/HandleVisitor/HandleClient/HandleReport)",
            "verif hook pkg/nathole/verif_export.go (read-only exports: getRangePorts, scores, session ids)",
            "translator generator NatClientFacts (go/ast over pkg/nathole/controller.go, nathole.go, pkg/util/util/util.go) "
            "regenerates Frp/Gen/NatClientFacts.lean on every run: the condition guarding HandleVisitor's 'auth failed' "
            "return classified as a comparison of the two WHOLE strings or 'other' (util.ConstantTimeEqString followed into "
            "its body), the statements of the critical section and of util.GetAuthKey; the value of MakeHole's "
            "detectAddrs at the send loop by symbolic execution (append / slices.Compact / slice expression / unknown "
            "statement) for sender | other x with | without candidate ports, the send loop's ranges and exits, writes to "
            "the instruction, the range-probing loops; pinned by sig_compare_shape, visitor_critical_shape, "
            "makehole_plan_shape; detectAddrs_is_source proves the model's detectAddrs equal to the regenerated term",
            "model Frp/Model/NatSign.lean (util.GetAuthKey with the MD5 of Frp/Model/Md5.lean, subtle.ConstantTimeCompare "
            "byte by byte, HandleVisitor's critical section on the wire-level message) written by hand; crypto/subtle's "
            "ConstantTimeCompare (length test, then OR of XORs) is standard-library code taken from its documentation; "
            "tied by the nat engine's visit ops (derived SignKey strings)",
            "model Frp/Model/NatPunch.lean (MakeHole send plan, waitDetectMessage loop, sid codec as decodes/does not, "
            "many-socket result hand-over) written by hand; tied by the punch engine (real ExchangeInfo, MakeHole, "
            "EncodeMessage/DecodeMessageInto, transport.MessageTransporter Do/Dispatch)",
            "model Frp/Model/NatProxy.lean (xtcp.go Run / Close / dispatch goroutine composed with the controller model) "
            "written by hand; tied by the natpx engine (real proxy.NewProxy(xtcp).Run/Close, BaseProxy.GetWorkConnFromPool, "
            "Controller.HandleVisitor; verif export VerifClients)",
        ],
        "assumptions": [
            "md5 treated as injective for ANALYSIS keys (represented by their md5 input); the abstract session model "
            "NatHole.step still represents a sign key by its md5 input, but the wire-level model NatSign.visitorLookupW "
            "computes the 32-character signature with a real MD5 and refines the abstract step "
            "(visitorLookupW_refines), so the signature clause does not rest on that assumption",
            "GenSid never repeats a live session id (model: visitorLookup is not enabled for a stored sid)",
            "controller-only model (nat engine, NatHole.step): the owner loop of an xtcp proxy receives from sidCh exactly "
            "while its config is registered; since 8d80cd3 this only decides whether the notify is received, not whether "
            "the handler ends. The composed model NatProxy.pstep drops this assumption: registration, unregistration and "
            "the receive are steps of the proxy (registered_iff_live: registered <=> Run succeeded, Close not called, "
            "dispatch goroutine running)",
            "Close() is called only on a proxy whose Run() succeeded (server/control.go RegisterProxy returns before its "
            "deferred Close is installed when Run fails); natpx: a release op first lets the requests parked on that "
            "proxy's sid channel run into NatHoleTimeout, so 'goroutine takes a parked sid right after a delivery' is "
            "in the model (recv is enabled) but not driven",
            "time: NatHoleTimeout shortened to 1 s in the harness; the final sleep (ReadTimeoutMs+30 s) before the deferred "
            "delete is not waited for in the quick tier (deletion after it is covered by the model theorem only)",
            "'honest peers find each other': honest_peers_meet_steps follows the two wait loops message by message on an "
            "unfiltered network (every datagram sent to a bound address arrives, in order); time, TTL and the random-port "
            "probing are abstracted; driven for real on loopback only (no NAT): the parties' sockets are bound below the "
            "ephemeral port range so that a receiver's range probes cannot reach its own randomly bound sockets, and get "
            "4 MB receive buffers (low-TTL probes are not lost in transit on loopback); with net.core.rmem_max < 1 MB the "
            "many-socket modes are skipped",
            "the many-socket hand-over of MakeHole could lose the result (KNOWN_FINDINGS C20-makehole-lost-result, fixed by "
            "0205ff9: buffered result channel): honest_peers_meet_steps is about the messages; handover_lost_witness / "
            "handover_main_first_partial describe the unbuffered hand-over, handover_buffered_never_lost the current code",
        ],
    }

META = {
        "engine": "lean+translate(NatTables,NatClientFacts)+harness(nat,punch,natpx)",
        "design_ref": "DESIGN.md §6 C20",
        "technique": "Lean 4: decide over regenerated behaviour tables, invariant over all recommend/report histories, "
                     "small-step session model with rank argument; differential correspondence with the real nathole code",
        "text": "Proof: for every feature pair and every history of recommendations and success reports the two "
                "responses carry the same sid and mode, complementary roles and each other's addresses; role rules of "
                "modes 1/2/4 hold; every successful analysis was computed from validated addresses and all its port "
                "ranges satisfy 1 <= From <= To <= 65535, malformed or out-of-range addresses give the error pair "
                "(analysis_full, analysis_malformed_error; repaired by f51e354): ClassifyNATFeature accepts exactly the lists "
                "of >= 2 entries ALL of which are valid, wherever the NAT type is decided (classify_some_iff, "
                "classify_malformed_error). The instructions also fit in time: for every row of every regenerated table, in "
                "either column assignment, and so for every history, the party that is not the sender is told to read for "
                "longer than the sender is held back (1 s) and told to wait (tables_timing, analysis_timing; part of the "
                "predicate fullOk evaluated on the implementation's responses). Sessions are created only for a "
                "correctly signed request by an allowed user naming a registered proxy (allow list: C08 fix) — the "
                "signature taken as the STRING the visitor supplies: HandleVisitor's test (util.ConstantTimeEqString = "
                "subtle.ConstantTimeCompare, modelled byte by byte, against hex(md5(secret ++ timestamp)) computed with a real "
                "MD5) passes iff the supplied string equals the expected one byte for byte (sigOk_iff, "
                "ctCompare_eq_one_iff); every proper prefix down to one character, every extension, every string whose "
                "length is not 32 is refused (sig_prefix_or_extension_refused, sig_wrong_length_refused, "
                "authKey_length); over all histories of wire-level messages a stored session was created by a request "
                "carrying exactly the signature for the secret registered at that moment "
                "(session_created_only_exact_signature, sessions_exact_signature_all_histories); the wire-level critical "
                "section refines the abstract one (visitorLookupW_refines); comparing only the overlapping part would "
                "accept a one-character prefix (overlap_compare_witness); the shape of the comparison and of the critical "
                "section is regenerated from controller.go / util.go (sig_compare_shape, visitor_critical_shape). Responses "
                "go only to the session's visitor transporter and to a transporter that submitted a NatHoleClient for "
                "that sid, every handler step strictly lowers a rank, and in every reachable state every stored session "
                "has an enabled handler step (handler_never_stuck; the notify send is bounded by NatHoleTimeout since "
                "8d80cd3), so sessions are deleted on every path. LIVE proxy: in the composition of the server-side xtcp "
                "proxy (Run, Close, its sid-dispatch goroutine: idle | delivering a sid | returned) with the controller, for "
                "every interleaving, a name is registered exactly while a proxy of that name has run and has not been closed "
                "(pinv_reachable, registered_iff_live); after Close() returns the name is not registered whatever the "
                "goroutine is doing (close_unregisters), stays so until a Run of that name (closed_stays_unregistered), "
                "requests and pre-checks get 'doesn't exist' and a new Run succeeds (unregistered_refused); a session is "
                "created only for a signed, allowed request naming a proxy that is live with its goroutine running "
                "(session_only_for_live_proxy); the variant that unregisters when the goroutine returns breaks this "
                "(deferred_unregister_witness). A NatHoleReport is enabled in every session phase, "
                "sends nothing, changes no session and no rank, and in every reachable state a report naming an unknown, "
                "not yet analysed or failed-analysis session changes nothing at all (report_not_analysed_noop); for an "
                "analysed session only the score list of its own key changes, by ReportSuccess (report_frame, "
                "report_score_only). Client side: whatever arrives in whatever order, waitDetectMessage returns only on a "
                "message of its own session that decoded with its key, a sender only on a response (wait_accepts_only), "
                "and its decision depends on the current datagram alone: the loop equals the memoryless specification "
                "(waitLoop_eq_spec, waitLoop_memoryless), messages of other sessions with Response true or false queued "
                "anywhere change nothing (foreign_sid_anywhere, waitLoop_filter_harmless); "
                "for every instruction pair of a successful analysis two parties bound at addresses they reported, with "
                "the same key and any harmless noise, both return with the other's address (honest_peers_meet_steps); "
                "with different keys nobody returns. What MakeHole probes one by one is the term REGENERATED from "
                "nathole.go by symbolic execution — Compact(assisted ++ candidate) for a sender, Compact(candidate) / "
                "nothing for the other role without / with candidate ports, no slice expression, no guarded truncation, "
                "a send loop over exactly that slice and every socket without early exit (makehole_plan_shape, "
                "detectAddrs_is_source) — so for address lists of ANY length every address the instruction names is sent "
                "to from every socket, and every candidate IP x port of every range (instructed_addrs_all_probed, "
                "send_plan_complete, range_addrs_complete); a plan that keeps a bounded number of addresses loses the "
                "peer's mapped address (truncated_plan_witness). Repaired finding (0205ff9): in the many-socket modes the hand-over of "
                "the result inside MakeHole could be lost over the unbuffered channel (handover_lost_witness); with the "
                "buffered channel of the current code it never is (handover_buffered_never_lost). "
                "The pinned tree's defects stay documented as "
                "witness theorems about the old functions (analysis_oor_witness, leak_witness, "
                "allow_users_not_checked_witness over classifyOld/stepOld).",
        "note": "Trusted: Lean kernel, translator for the tables and for the shape of the signature comparison / the MakeHole "
                "probe plan, hand-written models tied by the nat and punch engines. "
                "Not covered: real NAT behaviour (TTL, port mapping), Prepare/Discover (STUN), the random-port probing "
                "as a means of meeting; the 30 s+ final sleep is not waited for in quick runs.",
    }
