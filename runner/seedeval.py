#!/usr/bin/env python3
"""
seedeval.py <ID> <k> [confirm|detect|both]        (demo path and command are read from the demo's first line)

  confirm: in the scratch worktree $SEED_REPO (default /tmp/seedconfirm): demo passes unchanged; with the
           patch: go build ok, existing tests pass, demo FAILS
  detect:  git -C /repo apply; ./check <P> quick for P in ID + $SEED_ALSO; git -C /repo checkout -- .

Confirms a seeded change delivered by an independent sub-agent (/tmp/seedout_<ID>/patch<k>.diff +
demo<k>_test.go.txt) against /repo and records it under /verif/seeded/<ID>-<k>/:
  1. unchanged tree: demo passes
  2. patch applied: go build ok, the pinned test suite passes, demo FAILS
  3. runs `./check <P> quick` for the listed properties (default: ID; extra ones via SEED_ALSO=C10,C06)
  4. always restores /repo (git checkout -- . ; demo file removed)
Nothing is ever committed to /repo.
"""
import json, os, shutil, subprocess, sys, time

ENV = dict(os.environ, GOFLAGS="-mod=mod", GOPROXY="off", GOSUMDB="off", GOTOOLCHAIN="local")


REPO = "/repo"


def sh(cmd, cwd=None, timeout=1800):
    cwd = cwd or REPO
    p = subprocess.run(cmd, cwd=cwd, env=ENV, shell=isinstance(cmd, str), stdout=subprocess.PIPE,
                       stderr=subprocess.STDOUT, text=True, timeout=timeout, errors="replace")
    return p.returncode, p.stdout


def main():
    global REPO
    pid, k = sys.argv[1], sys.argv[2]
    mode = sys.argv[3] if len(sys.argv) > 3 else "both"
    src = os.environ.get("SEED_SRC", "/tmp/seedout_%s" % pid)
    patch = os.path.join(src, "patch%s.diff" % k)
    demo_src = os.path.join(src, "demo%s_test.go.txt" % k)
    first = open(demo_src).readline().strip().lstrip("/ ").strip()
    import re
    m = re.match(r"(?i)place at:?\s*(\S+)\s*;\s*run:\s*(.*)$", first)
    demo_rel, demo_cmd = m.group(1), m.group(2)
    out = "/verif/seeded/%s-%s" % (pid, int(k) + int(os.environ.get("SEED_OFFSET", "0")))
    os.makedirs(out, exist_ok=True)
    mp = os.path.join(out, "meta.json")
    meta = json.load(open(mp)) if os.path.exists(mp) else {}
    meta.update({"property": pid, "variant": int(k) + int(os.environ.get("SEED_OFFSET", "0")), "patch": "patch.diff", "demo": os.path.basename(demo_rel),
                 "demo_path_in_repo": demo_rel, "demo_cmd": demo_cmd})
    meta.setdefault("ran", [])
    if mode in ("confirm", "both"):
        REPO = os.environ.get("SEED_REPO", "/tmp/seedconfirm")
        demo_dst = os.path.join(REPO, demo_rel)
        sh("git checkout -q --detach %s" % subprocess.run(["git", "-C", "/repo", "rev-parse", "HEAD"], capture_output=True, text=True).stdout.strip())
        sh("git checkout -- . ; git clean -fdq")
        meta["ran"] = []
        try:
            shutil.copyfile(demo_src, demo_dst)
            rc0, o0 = sh(demo_cmd)
            meta["ran"].append({"what": "demo on unchanged tree (scratch worktree)", "rc": rc0, "tail": o0[-500:]})
            rc, o = sh(["git", "apply", patch])
            meta["ran"].append({"what": "git apply patch", "rc": rc, "tail": o[-300:]})
            rcb, ob = sh("go build ./...")
            meta["ran"].append({"what": "go build ./...", "rc": rcb, "tail": ob[-300:]})
            os.remove(demo_dst)
            rct, ot = sh("go test -vet=off -count=1 ./pkg/... ./server/... ./client/... ./cmd/... 2>&1 | grep -v 'no test files'")
            fails = [l for l in ot.splitlines() if l.startswith(("FAIL", "--- FAIL"))]
            meta["ran"].append({"what": "existing tests with the change", "failed": fails, "tail": ot[-500:]})
            shutil.copyfile(demo_src, demo_dst)
            rc1, o1 = sh(demo_cmd)
            meta["ran"].append({"what": "demo with the change", "rc": rc1, "tail": o1[-900:]})
            meta["confirmed"] = bool(rc0 == 0 and rc == 0 and rcb == 0 and not fails and rc1 != 0)
        finally:
            if os.path.exists(demo_dst):
                os.remove(demo_dst)
            sh("git checkout -- . ; git clean -fdq")
    if mode in ("detect", "both"):
        REPO = "/repo"
        rc, st = sh("git status --porcelain")
        if st.strip():
            print("REPO NOT CLEAN:\n" + st); sys.exit(2)
        try:
            rc, o = sh(["git", "apply", patch])
            if rc != 0:
                raise SystemExit("patch does not apply to /repo: " + o)
            checks = [pid] + [c for c in os.environ.get("SEED_ALSO", "").split(",") if c]
            meta.setdefault("checks", {})
            for c in checks:
                t0 = time.time()
                rcc, oc = sh(["./check", c, os.environ.get("SEED_TIER", "quick")], cwd="/verif", timeout=7200)
                lines = [l for l in oc.splitlines() if l.startswith(("VIOLATION", "KNOWN-FINDING")) or " quick:" in l or " thorough:" in l]
                meta["checks"][c + ":" + os.environ.get("SEED_TIER", "quick")] = {
                    "rc": rcc, "detected": rcc == 1 and any(l.startswith("VIOLATION") for l in lines),
                    "lines": [l[:300] for l in lines], "wall_s": round(time.time() - t0, 1)}
                for r in [l.split("replay=")[1].split()[0] for l in lines if l.startswith("VIOLATION") and "replay=" in l]:
                    try:
                        shutil.copyfile(os.path.join("/verif", r), os.path.join(out, "replay-" + c + ".json"))
                    except OSError:
                        pass
        finally:
            sh("git checkout -- .")
    shutil.copyfile(patch, os.path.join(out, "patch.diff"))
    shutil.copyfile(demo_src, os.path.join(out, os.path.basename(demo_rel)))
    notes = os.path.join(src, "NOTES.md")
    if os.path.exists(notes):
        shutil.copyfile(notes, os.path.join(out, "NOTES-from-author.md"))
    json.dump(meta, open(mp, "w"), indent=1)
    print(pid, k, json.dumps({"confirmed": meta.get("confirmed"),
                              "checks": {c: v["detected"] for c, v in meta.get("checks", {}).items()}}))


if __name__ == "__main__":
    main()
