#!/usr/bin/env python3
"""
seedeval.py <ID> <k> <demo-path-in-repo> <demo-run-cmd...>

Confirms a seeded change delivered by an independent sub-agent (/tmp/seedout_<ID>/patch<k>.diff +
demo<k>_test.go.txt) against /repo and records it under /verif/seeded/<ID>-<k>/:
  1. unchanged tree: demo passes
  2. patch applied: go build ok, the pinned test suite passes, demo FAILS
  3. runs `./check <P> quick` for the listed properties (default: ID; extra ones via SEED_ALSO=C10,C06)
  4. always restores /repo (git checkout -- . ; demo file removed)
Nothing is ever committed to /repo.
"""
import json, os, shutil, subprocess, sys, time

ENV = dict(os.environ, GOFLAGS="-mod=mod", GOPROXY="off", GOSUMDB="off", GOTOOLCHAIN="local")


def sh(cmd, cwd="/repo", timeout=1800):
    p = subprocess.run(cmd, cwd=cwd, env=ENV, shell=isinstance(cmd, str), stdout=subprocess.PIPE,
                       stderr=subprocess.STDOUT, text=True, timeout=timeout, errors="replace")
    return p.returncode, p.stdout


def main():
    pid, k, demo_rel = sys.argv[1], sys.argv[2], sys.argv[3]
    demo_cmd = " ".join(sys.argv[4:])
    src = "/tmp/seedout_%s" % pid
    patch = os.path.join(src, "patch%s.diff" % k)
    demo_src = os.path.join(src, "demo%s_test.go.txt" % k)
    out = "/verif/seeded/%s-%s" % (pid, k)
    os.makedirs(out, exist_ok=True)
    demo_dst = os.path.join("/repo", demo_rel)
    meta = {"property": pid, "variant": int(k), "patch": "patch.diff", "demo": os.path.basename(demo_rel),
            "demo_path_in_repo": demo_rel, "demo_cmd": demo_cmd, "ran": []}
    rc, st = sh("git status --porcelain")
    if st.strip():
        print("REPO NOT CLEAN:\n" + st); sys.exit(2)
    try:
        shutil.copyfile(demo_src, demo_dst)
        rc0, o0 = sh(demo_cmd)
        meta["ran"].append({"what": "demo on unchanged tree", "rc": rc0, "tail": o0[-600:]})
        rc, o = sh(["git", "apply", patch])
        if rc != 0:
            meta["ran"].append({"what": "git apply", "rc": rc, "tail": o[-600:]})
            raise SystemExit("patch does not apply: " + o)
        rcb, ob = sh("go build ./...")
        meta["ran"].append({"what": "go build ./...", "rc": rcb, "tail": ob[-400:]})
        os.remove(demo_dst)
        rct, ot = sh("go test -vet=off -count=1 ./pkg/... ./server/... ./client/... ./cmd/... 2>&1 | grep -v 'no test files'")
        fails = [l for l in ot.splitlines() if l.startswith(("FAIL", "--- FAIL"))]
        meta["ran"].append({"what": "existing tests with the change", "failed": fails, "tail": ot[-600:]})
        shutil.copyfile(demo_src, demo_dst)
        rc1, o1 = sh(demo_cmd)
        meta["ran"].append({"what": "demo with the change", "rc": rc1, "tail": o1[-900:]})
        os.remove(demo_dst)
        meta["confirmed"] = bool(rc0 == 0 and rcb == 0 and not fails and rc1 != 0)
        checks = [pid] + [c for c in os.environ.get("SEED_ALSO", "").split(",") if c]
        meta["checks"] = {}
        for c in checks:
            t0 = time.time()
            rcc, oc = sh(["./check", c, "quick"], cwd="/verif", timeout=3600)
            lines = [l for l in oc.splitlines() if l.startswith(("VIOLATION", "KNOWN-FINDING")) or " quick:" in l]
            meta["checks"][c] = {"rc": rcc, "detected": rcc == 1 and any(l.startswith("VIOLATION") for l in lines),
                                 "lines": [l[:300] for l in lines], "wall_s": round(time.time() - t0, 1)}
            rp = [l.split("replay=")[1].split()[0] for l in lines if l.startswith("VIOLATION") and "replay=" in l]
            for r in rp:
                try:
                    shutil.copyfile(os.path.join("/verif", r), os.path.join(out, "replay-" + c + ".json"))
                except OSError:
                    pass
    finally:
        if os.path.exists(demo_dst):
            os.remove(demo_dst)
        sh("git checkout -- .")
        sh("git clean -fd -- . ':!*.patch' >/dev/null")
    shutil.copyfile(patch, os.path.join(out, "patch.diff"))
    shutil.copyfile(demo_src, os.path.join(out, os.path.basename(demo_rel)))
    notes = os.path.join(src, "NOTES.md")
    if os.path.exists(notes):
        shutil.copyfile(notes, os.path.join(out, "NOTES-from-author.md"))
    json.dump(meta, open(os.path.join(out, "meta.json"), "w"), indent=1)
    print(json.dumps({"confirmed": meta.get("confirmed"), "checks": {c: v["detected"] for c, v in meta.get("checks", {}).items()}}))


if __name__ == "__main__":
    main()
