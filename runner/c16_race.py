#!/usr/bin/env python3
"""C16 obligation 5 (thorough, manual): the crash engine's storms with a -race build of the sacrificial child.

  python3 runner/c16_race.py [seed] [n]

Builds harness/ with `-race -tags verif` (needs CGO + gcc; works offline here), runs the generated ops without the
known-finding witnesses, and classifies the detector's reports by the first frp frame of both accesses.
Reports whose frames touch a designated map (LockFacts objects) are VIOLATIONS of the lock discipline; everything
else (scalars, strings, channel close-vs-send that is recover-wrapped) is printed as a note (DESIGN 7 scope rule).
Exit 1 iff a map report is not one of the known ones (HandleVisitor:clientCfgs)."""
import collections, glob, os, re, subprocess, sys

ROOT = os.path.dirname(os.path.dirname(os.path.abspath(__file__)))
WORK = os.path.join(ROOT, ".work")
seed = sys.argv[1] if len(sys.argv) > 1 else "5"
n = sys.argv[2] if len(sys.argv) > 2 else "600"
env = dict(os.environ, GOFLAGS="-mod=mod", GOPROXY="off", GOSUMDB="off", GOTOOLCHAIN="local", CGO_ENABLED="1")
binp = os.path.join(WORK, "harness_race")
r = subprocess.run(["go", "build", "-race", "-tags", "verif", "-o", binp, "."], cwd=os.path.join(ROOT, "harness"), env=env)
if r.returncode != 0:
    print("SKIP: go build -race does not work here"); sys.exit(0)
ops = subprocess.run([binp, "crash", "gen", seed, n], env=env, stdout=subprocess.PIPE, text=True).stdout
ops = "\n".join(l for l in ops.splitlines() if not re.match(r"(login w|negpool|race6|stun)", l)) + "\n"
for f in glob.glob(os.path.join(WORK, "race.*")):
    os.remove(f)
env["GORACE"] = "log_path=%s history_size=2" % os.path.join(WORK, "race")
out = subprocess.run([binp, "crash", "exec"], input=ops, env=env, stdout=subprocess.PIPE, stderr=subprocess.DEVNULL, text=True).stdout
bad = [l for l in out.splitlines() if re.search(r"=> (crash:|hang|fail:|nologin)", l)]
txt = "".join(open(f).read() for f in glob.glob(os.path.join(WORK, "race.*")))
MAPFN = re.compile(r"runtime\.(mapaccess|mapassign|mapdelete|mapiter)")
c, maps = collections.Counter(), collections.Counter()
for b in txt.split("WARNING: DATA RACE")[1:]:
    tops, ismap = [], False
    for p in re.split(r"\n\n", b)[:2]:
        ismap = ismap or bool(MAPFN.search(p.split("\n\n")[0]))
        m = re.search(r"^\s+github\.com/fatedier/frp/([^\s(]+(?:\(\*?[A-Za-z0-9_\[\].]+\))?[^\s(]*)\(\)\n\s+\S+:(\d+)", p, re.M)
        h = re.search(r"^\s+(main\.[^\s(]+)\(\)", p, re.M)
        kind = p.strip().split("\n")[0].split(" at")[0]
        tops.append("%s %s" % (kind, (m.group(1) + ":" + m.group(2)) if m else ("HARNESS " + h.group(1) if h else "?")))
    (maps if ismap else c)[" | ".join(tops)] += 1
print("ops: %d, non-alive results: %d, race reports: %d" % (len(out.splitlines()), len(bad), sum(c.values()) + sum(maps.values())))
for l in bad:
    print("  NOT ALIVE:", l[:200])
rc = 1 if bad else 0
for k, v in maps.most_common():
    known = "HandleVisitor" in k
    print("  MAP %s %dx %s" % ("(known: C16-nathole-precheck-unlocked)" if known else "VIOLATION", v, k))
    rc = rc or (0 if known else 1)
for k, v in c.most_common():
    print("  note %dx %s" % (v, k))
sys.exit(rc)
