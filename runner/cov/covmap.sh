#!/bin/bash
# covmap.sh: which functions of the files each property is anchored in does the correspondence harness ever execute?
# Builds the harness with Go coverage instrumentation of all frp packages (in a private copy of /verif under /tmp/cov),
# runs every engine's corpus + quick-size generated ops, merges the counters and writes docs/COVERAGE.md.
# A guide for extending models/engines ("more of the code inside the model"); not part of any registered check.
set -e
export GOFLAGS=-mod=mod GOPROXY=off GOSUMDB=off GOTOOLCHAIN=local
rm -rf /tmp/cov; mkdir -p /tmp/cov/data
rsync -a --exclude .work/sweep /verif/ /tmp/cov/verif/
cd /tmp/cov/verif/harness && cp /repo/go.sum . && go build -tags verif -cover -coverpkg=./...,github.com/fatedier/frp/... -o ../.work/harness_cov .
cd /tmp/cov/verif
python3 - > /tmp/cov/engines.txt <<'PY'
import sys; sys.path.insert(0,'runner')
from props import PROPS
seen={}
for pid,cfg in sorted(PROPS.items()):
    for e in cfg['engines']: seen[e['name']]=max(seen.get(e['name'],0),e['quick_n'])
for k,v in seen.items(): print(k,v)
PY
run() { eng=$1; n=$2; mkdir -p /tmp/cov/data/$eng
  .work/harness_cov $eng gen ${VERIF_SEED:-1} $n > /tmp/cov/$eng.ops 2>/dev/null
  for f in harness/corpus/$eng/*; do [ -f "$f" ] && GOCOVERDIR=/tmp/cov/data/$eng timeout 900 .work/harness_cov $eng exec $f > /dev/null 2>&1; done
  GOCOVERDIR=/tmp/cov/data/$eng timeout 1500 .work/harness_cov $eng exec /tmp/cov/$eng.ops > /tmp/cov/$eng.trace 2>/tmp/cov/$eng.err; echo "$eng rc=$?"; }
while read e n; do run $e $n & done < /tmp/cov/engines.txt; wait
cd /tmp/cov; dirs=$(ls -d data/* | tr '\n' ',' | sed 's/,$//'); go tool covdata textfmt -i=$dirs -o all.cov
grep -v "^verif/harness" all.cov > frp.cov
(cd /repo && go tool cover -func=/tmp/cov/frp.cov > /tmp/cov/func.txt)
python3 /verif/runner/cov/covmap.py
