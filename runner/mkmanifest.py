#!/usr/bin/env python3
"""Regenerates MANIFEST.json from runner/props.py + runner/manifest_meta.py (kept valid at all times)."""
import json, os, sys
sys.path.insert(0, os.path.dirname(os.path.abspath(__file__)))
from props import PROPS, META
from manifest_meta import NOT_BUILT_REASON, HOOK_COMMITS, NA_REASONS
ROOT = os.path.dirname(os.path.dirname(os.path.abspath(__file__)))
ids = [json.loads(l)["id"] for l in open(os.path.join(ROOT, "properties.jsonl"))]
checks, na = [], []
for pid in ids:
    if pid in PROPS and pid in META:
        m = META[pid]
        checks.append({
            "property_id": pid,
            "quick_cmd": "./check %s quick" % pid,
            "thorough_cmd": "./check %s thorough" % pid,
            "evidence_file": "/verif/evidence/%s.json" % pid,
            "replay_cmd_template": "./check %s --replay {path}" % pid,
            "engine": m["engine"],
            "level_claimed": {"category": PROPS[pid]["level"], "text": m["text"], "design_ref": m["design_ref"]},
            "level_note": m["note"],
            "technique": m["technique"],
        })
    else:
        na.append({"property_id": pid, "reason": NA_REASONS.get(pid, NOT_BUILT_REASON)})
man = {
    "version": 1,
    "setup_cmd": "./check --setup",
    "hooks": {
        "guard": "verif",
        "enable": "go build -tags verif (the harness module /verif/harness links /repo through a replace directive)",
        "baseline_off_cmd": "cd /repo && GOFLAGS=-mod=mod go test -json -vet=off -count=1 -timeout 25m ./...",
        "source_commits": HOOK_COMMITS,
        "add_only": True,
    },
    "engines": [
        {"name": "lean", "path": "/verif/lean", "serves_properties": [c["property_id"] for c in checks],
         "kind_free_text": "Lean 4 models (Frp/Model), lemmas, property theorems (Frp/Props), axiom audits (Frp/Audit), line-protocol driver frpmodel"},
        {"name": "harness", "path": "/verif/harness", "serves_properties": [c["property_id"] for c in checks],
         "kind_free_text": "Go correspondence harness: drives the real frp code in-process on generated op sequences; traces are replayed on the Lean model by the driver"},
        {"name": "translate", "path": "/verif/translate", "serves_properties": [p for p in ids if p in PROPS and PROPS[p].get("gens")],
         "kind_free_text": "go/ast extractor regenerating Frp/Gen/*.lean from /repo on every run"},
    ],
    "checks": checks,
    "not_applicable": na,
    "notes": "Machine-checked proof in Lean 4 of properties of executable models; models tied to /repo on every run by a regenerating translator and/or a differential correspondence run. See DESIGN.md.",
}
json.dump(man, open(os.path.join(ROOT, "MANIFEST.json"), "w"), indent=1)
print("checks:", [c["property_id"] for c in checks], "na:", len(na))
