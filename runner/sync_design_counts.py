#!/usr/bin/env python3
"""Keeps the 'theorems' column of DESIGN.md §0.2 equal to the audited theorem lists in runner/props/*.py."""
import os, re, sys
V = os.path.dirname(os.path.dirname(os.path.abspath(__file__)))
sys.path.insert(0, os.path.join(V, "runner"))
from props import PROPS
p = os.path.join(V, "DESIGN.md")
s = open(p).read()
for pid, cfg in PROPS.items():
    n = len(cfg.get("theorems", []))
    s, k = re.subn(r"(?m)^(\| %s \| [^|]*\| )[^|]*(\|)" % pid, lambda m: m.group(1) + str(n) + " " + m.group(2), s, count=1)
    if not k:
        print("no row for", pid)
open(p, "w").write(s)
print({pid: len(cfg.get("theorems", [])) for pid, cfg in sorted(PROPS.items())})
