import Frp.Model.Str
import Frp.Model.Router
import Frp.Model.Host
import Frp.Lemmas.Router
import Frp.Props.C06
import Frp.Engines.Router
import Frp.Engines.All
