import Frp.Driver.Proto
import Frp.Engines.All
/-
  frpmodel <engine> : reads trace lines `op … => implResult` on stdin, prints one verdict per line
  (`ok` | `skip …` | `DIFF model=… prop=…` | `BAD …`) and a final `SUMMARY` line.
-/
open Frp Proto

def engines : List (String × Engine) := Engines.all

structure Counts where
  ok : Nat := 0
  skip : Nat := 0
  diff : Nat := 0
  fails : Nat := 0
  bad : Nat := 0

partial def loop (e : Engine) (h : IO.FS.Stream) (st : e.State) (c : Counts) (n : Nat) : IO Counts := do
  let line ← h.getLine
  if line.isEmpty then return c
  let line := line.trimAscii.toString
  if line.isEmpty then loop e h st c n else
  match line.splitOn " => " with
  | [op, impl] =>
    let tok := (op.splitOn " ").filter (· ≠ "")
    let (st', v) := e.step st tok impl
    IO.println s!"{n} {v.render}"
    let c' := match v with
      | .agree => { c with ok := c.ok + 1 }
      | .skip _ => { c with skip := c.skip + 1 }
      | .diff _ (some false) => { c with diff := c.diff + 1, fails := c.fails + 1 }
      | .diff _ _ => { c with diff := c.diff + 1 }
      | .bad _ => { c with bad := c.bad + 1 }
    loop e h st' c' (n + 1)
  | _ =>
    IO.println s!"{n} BAD no-result"
    loop e h st { c with bad := c.bad + 1 } (n + 1)

def main (args : List String) : IO UInt32 := do
  match args with
  | [name] =>
    match engines.lookup name with
    | some e =>
      let c ← loop e (← IO.getStdin) e.init {} 0
      IO.println s!"SUMMARY ok={c.ok} skip={c.skip} diff={c.diff} propfails={c.fails} bad={c.bad}"
      return 0
    | none => IO.eprintln s!"unknown engine {name}"; return 2
  | _ => IO.eprintln "usage: frpmodel <engine>"; return 2
