import Frp.Props.C06
open Frp.C06
#print axioms inv_reachable
#print axioms get_longest
#print axioms get_none
#print axioms getVhost_some
#print axioms getVhost_none
#print axioms getVhost_case
#print axioms add_conflict_iff
#print axioms add_conflict_unchanged
#print axioms add_ok_mem
#print axioms del_mem
#print axioms del_get_other
#print axioms del_not_returned
#print axioms wildLevels_eq
#print axioms holdsOn_sound
#print axioms model_holdsOn
