import Frp.Props.C17
open Frp.C17
#print axioms be64_roundtrip
#print axioms be64_surj
#print axioms decode_encode
#print axioms decode_encode_res
#print axioms decode_ignores_rest
#print axioms decode_ok_iff
#print axioms decode_bounded
#print axioms decode_ok_sound
#print axioms decode_unknown_type
#print axioms decode_negative
#print axioms decode_oversize
#print axioms decode_truncated
#print axioms registry_size
#print axioms registry_bytes_nodup
#print axioms registry_structs_nodup
#print axioms registry_bijection
#print axioms schema_wellformed
#print axioms schema_eq_golden
#print axioms holdsOn_sound
#print axioms model_null_witness
#print axioms modelHoldsFull_false
#print axioms model_holdsOn_partial
