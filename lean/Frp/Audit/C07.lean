import Frp.Props.C07
open Frp.C07
#print axioms checkAuth_true
#print axioms serve_sound
#print axioms serve_same_route
#print axioms serve_unauthorized
#print axioms serveOld_witness
#print axioms serve_witness_fixed
#print axioms muxHandle_sound
#print axioms middleware_iff
#print axioms pluginAuth_iff
#print axioms holdsOn_sound
#print axioms model_holdsOn
