import Frp.Props.C07
open Frp.C07
#print axioms checkAuth_true
#print axioms serve_sound
#print axioms serve_same_route
#print axioms serve_unauthorized
#print axioms serveOld_witness
#print axioms serve_witness_fixed
#print axioms muxHandle_sound
#print axioms middleware_iff
#print axioms pluginAuth_iff
#print axioms holdsOn_sound
#print axioms model_holdsOn
#print axioms serveWire_sound
#print axioms getVhost_prefix
#print axioms serve_forward_prefix
#print axioms pluginServeHTTP_reaches
#print axioms pluginHandleConnect_reaches
#print axioms pluginServeConn_sound
#print axioms pluginHandle_sound
#print axioms pluginHandle_refuses
#print axioms pluginHandle_first_connect_refused
#print axioms holdsOnWire_sound
#print axioms model_holdsOnWire
#print axioms plHoldsOn_sound
#print axioms model_plHoldsOn
