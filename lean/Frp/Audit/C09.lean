import Frp.Props.C09
open Frp.C09
#print axioms inv_reachable
#print axioms whitelisted
#print axioms exclusive
#print axioms accounting_eq_bound
#print axioms free_iff_not_used
#print axioms quota_bounded
#print axioms register_ok
#print axioms register_err_unchanged
#print axioms close_frees_port
#print axioms reacquire_same
#print axioms take_reserves
#print axioms release_keeps_reserved
#print axioms udp_double_release_witness
#print axioms udp_double_release_fixed
#print axioms inv_register
#print axioms inv_close
