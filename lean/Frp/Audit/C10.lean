import Frp.Props.C10
import Frp.Props.C10Xport
import Frp.Props.C10Drop
open Frp.C10
#print axioms inv_reachable
#print axioms register_conflict_restores
#print axioms register_exists_unchanged
#print axioms close_spec
#print axioms close_releases
#print axioms close_foreign_noop
#print axioms register_close_roundtrip
#print axioms reregister_after_close
#print axioms retry_after_failure
#print axioms sessionEnd_spec
#print axioms sessionEnd_frees_names
#print axioms port_released_on_close
#print axioms port_kept_on_failure
#print axioms Conc.inv_reachable
#print axioms Conc.quota_exact_idle
#print axioms Conc.begin_refused_unchanged
#print axioms Conc.step_failure_releases
#print axioms Conc.run_conflict_restores
#print axioms Conc.close_spec
#print axioms Conc.sessionEnd_spec
#print axioms Conc.retry_succeeds
#print axioms Conc.quiescent_clean
#print axioms Conc.accounted_sound
#print axioms Xport.http_workconn_closed_once
#print axioms Xport.udp_workconn_closed
#print axioms Xport.reached_spec
#print axioms Xport.reached_pos
#print axioms Xport.var_capture_never_closes
#print axioms Xport.var_capture_harmless_without_limit
#print axioms Xport.reached_current
#print axioms Xport.winv_reachable
#print axioms Xport.released_closed
#print axioms Xport.idle_all_closed
#print axioms Xport.session_end_closes
#print axioms Drop.dinv_reachable
#print axioms Drop.drop_idle_spec
#print axioms Drop.drop_pending_unchanged
#print axioms Drop.gone_clean
#print axioms Drop.gone_within_two
#print axioms Drop.quiescent_empty
#print axioms Xport.late_workconn_witness
#print axioms Xport.late_workconn_full_fails
#print axioms Xport.late_workconn_bound
#print axioms Xport.repaired_no_late_workconn
