import Frp.Props.C10
open Frp.C10
#print axioms inv_reachable
#print axioms register_conflict_restores
#print axioms register_exists_unchanged
#print axioms close_spec
#print axioms close_releases
#print axioms close_foreign_noop
#print axioms register_close_roundtrip
#print axioms reregister_after_close
#print axioms retry_after_failure
#print axioms sessionEnd_spec
#print axioms sessionEnd_frees_names
#print axioms port_released_on_close
#print axioms port_kept_on_failure
#print axioms Conc.inv_reachable
#print axioms Conc.quota_exact_idle
#print axioms Conc.begin_refused_unchanged
#print axioms Conc.step_failure_releases
#print axioms Conc.run_conflict_restores
#print axioms Conc.close_spec
#print axioms Conc.sessionEnd_spec
#print axioms Conc.retry_succeeds
#print axioms Conc.quiescent_clean
#print axioms Conc.accounted_sound
