import Frp.Props.C10
open Frp.C10
#print axioms inv_reachable
#print axioms register_conflict_restores
#print axioms register_exists_unchanged
#print axioms close_spec
#print axioms close_releases
#print axioms close_foreign_noop
#print axioms register_close_roundtrip
#print axioms reregister_after_close
#print axioms retry_after_failure
#print axioms sessionEnd_spec
#print axioms sessionEnd_frees_names
#print axioms port_released_on_close
#print axioms port_kept_on_failure
