import Frp.Driver.Proto
import Frp.Props.C08Hand
/-
  Driver engine "vhs" (C08, client side): oracle for harness/eng_vhs.go — the real client/visitor STCPVisitor /
  SUDPVisitor / XTCPVisitor→stcp fallback against a scripted peer that delivers the NewVisitorConnResp frame and the
  first payload bytes in the segments the op names.

  The model runs the handshake (`VisitorHandshake.readFrame` on the connection itself) on the peer's EXACT wire image cut
  at the reported offsets, checks that it consumed exactly the frame (`C08.hs_consumes_exactly_frame`, executed), and
  concludes what the theorems `hs_stream_complete` / `hs_refused_nothing` conclude: the user reads exactly what the
  backend wrote, from byte 0 (nothing after a refusal), the backend reads what the user wrote.  The predicate
  `C08.hsHoldsOn` is evaluated on what the user REALLY received.
-/
namespace Frp
namespace Engines
open Proto VisitorHandshake

namespace Vhs

def kv (toks : List String) (k : String) : Option String :=
  toks.findSome? fun t => if t.startsWith (k ++ "=") then some (t.drop (k.length + 1)).toString else none

def fields (res : String) : List String := res.splitOn ";"

def hexList (s : String) : Option (List Str) :=
  if s = "" then some [] else (s.splitOn ",").mapM (fun h => unhexAux h.toList)

def natList (s : String) : Option (List Nat) :=
  if s = "-" || s = "" then some [] else (s.splitOn ".").mapM String.toNat?

def showList (l : List Str) : String := ",".intercalate (l.map (fun b => ((hx b).drop 1).toString))

def step (st : Unit) (toks : List String) (impl : String) : Unit × Verdict :=
  match toks with
  | ["reset"] => (st, verdictOf "ok" impl)
  | "hs" :: rest =>
    let f := fields impl
    match kv rest "resp", (kv rest "up").bind unhx, kv f "hello", (kv f "fl").bind String.toNat?,
          (kv f "wire").bind (fun h => unhexAux h.toList), (kv f "abs").bind natList, (kv f "sent").bind hexList,
          (kv f "got").bind hexList, (kv f "upgot").bind (fun h => unhexAux h.toList), kv f "end" with
    | some resp, some up, some hello, some fl, some wire, some abs, some sent, some got, some upgot, some en =>
      let refused := resp == "err"
      let holds := C08.hsHoldsOn refused sent got up upgot
      if hello == "pending" || wire.isEmpty then
        -- the peer never got / answered the request: nothing to run the model on; the predicate still speaks
        (st, .diff "handshake-completes" (some holds))
      else
        let run := C08.hsRun wire abs
        match run.1 with
        | .ok t body =>
          if t != respType || 9 + body.length != fl || run.2 != wire.drop fl then
            (st, .bad "model: the handshake did not consume exactly the frame")
          else
            let expUp : Str := if refused then [] else if (kv rest "kind") == some "sudp" || !up.isEmpty then up else []
            let model := s!"hello=ok;got={showList (if refused then [] else sent)};upgot={((hx expUp).drop 1).toString};end=eof"
            let implS := s!"hello={hello};got={showList (if refused then got.filter (!·.isEmpty) else got)};upgot={((hx upgot).drop 1).toString};end={en}"
            (st, verdictOf model implS (some holds))
        | .err _ => (st, .bad "model: the peer's frame is not readable")
    | _, _, _, _, _, _, _, _, _, _ => (st, .bad "hs")
  | _ => (st, .bad "unknown op")

end Vhs

def vhs : Engine := { State := Unit, init := (), step := Vhs.step }

end Engines
end Frp
