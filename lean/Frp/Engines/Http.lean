import Frp.Driver.Proto
import Frp.Props.C02
/-
  Driver engine "http" (C02): replays the harness trace (harness/eng_http.go) on
  Frp/Model/HttpRewrite.lean + Frp/Model/HttpPool.lean and evaluates the C02 predicates
  (`C02.reqHolds`, `C02.respHolds`, `C02.freshB`) on the implementation's own results.

  Timed ops (`treq`, `tws`, `tconnect`; `req` / `ws` / `connect` are their gap-free instances): the
  op line carries the time line (upload gaps, header delay, download gaps / tunnel rounds), which is
  replayed on Frp/Model/HttpTime.lean under `frpLimits 1` (harness: ResponseHeaderTimeoutS = 1);
  `C02.timedHolds` then demands of the implementation's result what the model's outcome says.

  Upgrade ops (`ws`, `tws`, `h2c`) and `connect` / `tconnect`: `C02.tunnelHolds` on the implementation's
  result — the harness reports which backend RECEIVED the handshake (it records before it answers
  101 / 200), so "the backend accepted, the user got something else" is a property failure with a
  concrete replay, not only a disagreement with the model.

  Relational parts (DESIGN §2.4): which idle backend connection the Transport picked (`c=<n>r`) or
  that it dialled (`c=<n>n`) is taken from the implementation's result; the model checks that a
  reused connection is idle under the request's pool key, and continues from the observed choice.
  Framing of empty bodies and of answers is echoed (net/http internals, outside the model).
-/
namespace Frp
namespace Engines
open Proto Str HttpRewrite HttpPool
open HttpTime (Limits Exchange Piece TPiece Dir frpLimits)

namespace HttpEng

structure State where
  P      : St := St.init
  silent : List Nat := []
  known  : List Nat := []      -- backend connection numbers the trace has shown so far

/-- The Transport starts a dial whenever no idle connection is at hand and uses whichever comes
    first — a connection returning to the pool or the dial; an unused dial result goes idle without
    ever having carried a request.  Such a connection first shows up as `c=<n>r` with a number the
    trace has not shown before: it is adopted as idle under the request's key with the owner the
    implementation reports (`be=`). -/
def adoptSpare (st : State) (k : Key) (reuse : Option Nat) (be : Option Nat) : State :=
  match reuse, be with
  | some n, some o =>
    if st.known.contains n then st
    else { st with P := { st.P with idle := (k, { id := n, owner := o }) :: st.P.idle }, known := n :: st.known }
  | _, _ => st

def noteConn (st : State) (reuse : Option Nat) (newId : Nat) : State :=
  match reuse with
  | some n => if st.known.contains n then st else { st with known := n :: st.known }
  | none => if newId = 0 ∨ st.known.contains newId then st else { st with known := newId :: st.known }

def parsePairs (t : String) : Option (List (Str × Str)) :=
  if t = "-" then some []
  else (t.splitOn ",").mapM (fun kv =>
    match kv.splitOn ":" with
    | [k, v] => match unhx k, unhx v with
      | some k, some v => some (k, v)
      | _, _ => none
    | _ => none)

/-- `hexk:hexv:hexv,…` ↦ header map -/
def parseHdrMap (t : String) : Option Hdr :=
  if t = "-" then some []
  else (t.splitOn ",").mapM (fun e =>
    match e.splitOn ":" with
    | k :: vs => match unhx k, vs.mapM unhx with
      | some k, some vs => some (k, vs)
      | _, _ => none
    | [] => none)

def insSorted (e : Str × List Str) : Hdr → Hdr
  | [] => [e]
  | x :: xs => if Str.lt e.1 x.1 then e :: x :: xs else x :: insSorted e xs

/-- keys sorted bytewise, framing keys left out (reported as `fr=`) -/
def fmtHdr (h : Hdr) : String :=
  let h := (h.filter (fun e => e.1 ≠ kCL ∧ e.1 ≠ kTE)).foldr insSorted []
  if h.isEmpty then "-"
  else ",".intercalate (h.map (fun e => ":".intercalate (hx e.1 :: e.2.map hx)))

/-- `<kind>:<seed>.<len>.<hash>` ↦ (kind, body value `len.hash`); "-" ↦ no body -/
def parseBody (t : String) : Option (String × Str) :=
  if t = "-" then some ("-", [])
  else match t.splitOn ":" with
    | [k, tok] => match tok.splitOn "." with
      | [_, len, hash] => if len = "0" then some (k, []) else some (k, ofString (len ++ "." ++ hash))
      | _ => none
    | _ => none

/-- body value of a result field (`len.hash`, `page`, `-`); an empty body is `[]` -/
def bodyOfField (t : String) : Str :=
  if t = "-" ∨ t.startsWith "0." then [] else ofString t

def field (fs : List String) (key : String) : Option String :=
  fs.findSome? (fun f => if f.startsWith (key ++ "=") then some (f.drop (key.length + 1)).toString else none)

def hexd (c : Nat) : Option Nat :=
  if 48 ≤ c ∧ c ≤ 57 then some (c - 48) else if 65 ≤ c ∧ c ≤ 70 then some (c - 55)
  else if 97 ≤ c ∧ c ≤ 102 then some (c - 87) else none

/-- `url.PathUnescape` on a well-formed path -/
def pctDecode : Str → Str
  | 37 :: a :: b :: t =>
    match hexd a, hexd b with
    | some x, some y => (x * 16 + y) :: pctDecode t
    | _, _ => 37 :: pctDecode (a :: b :: t)
  | c :: t => c :: pctDecode t
  | [] => []

/-- escaped paths net/url keeps byte for byte (`validEncoded`) -/
def pathOk : Str → Bool
  | [] => true
  | 37 :: a :: b :: t => isHex a && isHex b && pathOk t
  | c :: t =>
    ((48 ≤ c ∧ c ≤ 57) || (65 ≤ c ∧ c ≤ 90) || (97 ≤ c ∧ c ≤ 122) ||
      [45, 46, 95, 126, 33, 36, 38, 39, 40, 41, 42, 43, 44, 59, 61, 58, 64, 47, 91, 93].contains c) && pathOk t

def targetOf (q : Req) (host : Str) : Str :=
  (if q.absForm then ofString "http://" ++ host else []) ++ q.path ++
  (match q.query with | some qq => 63 :: qq | none => [])

/-- split a target back into (absForm, path, query) given the expected authority prefix -/
def splitTarget (t : Str) : Bool × Str × Option Str :=
  let pre := ofString "http://"
  let (abs, rest) := if pre.isPrefixOf t then (true, (t.drop pre.length).dropWhile (· ≠ 47)) else (false, t)
  let path := rest.takeWhile (· ≠ 63)
  let q := rest.dropWhile (· ≠ 63)
  (abs, path, match q with | [] => none | _ :: qq => some qq)

def rtString (s : St) (host path user : Str) : String :=
  match routeOf s host path user with
  | some r => toString r.payload
  | none => "-"

/-- cur / live / gone: how the answering registration relates to the route table -/
def ownerNote (s : St) (o : Nat) (rt : String) : String :=
  if toString o = rt then "cur"
  else if s.R.tbl.any (fun e => (s.R.bucket e.1.1 e.1.2).any (fun r => r.payload = o)) then "live"
  else "gone"

def rcOf (s : St) (host path user : Str) : Option RouteCfg :=
  match routeOf s host path user with
  | some r => (s.cfgOf r.payload).map (·.rc)
  | none => none

/-- "c=<n>n" / "c=<n>r" / "c=-" ↦ (reuse, newId) -/
def parseConn (t : String) : Option (Option Nat × Nat) :=
  if t = "-" then some (none, 0)
  else if t.endsWith "r" then (t.dropEnd 1).toString.toNat?.map (fun n => (some n, 0))
  else if t.endsWith "n" then (t.dropEnd 1).toString.toNat?.map (fun n => (none, n))
  else none

def userIp (cli : Nat) : Str := ofString s!"127.0.0.{2 + cli}"


/-- `HTTPReverseProxyOptions{ResponseHeaderTimeoutS: 1}` in harness/eng_http.go -/
def limits : Limits := frpLimits 1

/-- "g1.g2.…" / "-" ↦ gaps in ms -/
def parseGaps (t : String) : Option (List Nat) :=
  if t = "-" then some [] else (t.splitOn ".").mapM String.toNat?

/-- the pieces of a timed body: piece `i` carries the opaque payload `[i]` (the bytes themselves are
    compared through `len.hash` of the whole body) -/
def piecesOf (gaps : List Nat) : List Piece :=
  (gaps.zip (List.range gaps.length)).map (fun gi => { gap := gi.1, data := [gi.2] })

/-- "u1.d1.u2.d2…" ↦ the tunnel's time line: round `i` = the user idles `u_i`, sends piece `i`, the
    backend idles `d_i`, answers with piece `i` -/
def tunnelOf : List Nat → Nat → List TPiece
  | u :: d :: rest, i => { gap := u, dir := .up, data := [i] } :: { gap := d, dir := .down, data := [i] } :: tunnelOf rest (i + 1)
  | _, _ => []

/-- one request / answer exchange (`req`: everything written at once; `treq`: paced by the time line
    `upG` / `think` / `dnG`, replayed on Frp/Model/HttpTime.lean under `limits`) -/
def stepReq (st : State) (cli form method host path query user hs body status rhs rbody keep : String)
    (upG : List Nat) (think : Nat) (dnG : List Nat) (impl : String) : State × Verdict :=
  match cli.toNat?, unhx host, unhx path, (if query = "-" then some none else (unhx query).map some),
        (if user = "-" then some [] else unhx user), parsePairs hs, parseBody body,
        status.toNat?, parsePairs rhs, parseBody rbody with
  | some cli, some host, some path, some query, some user, some hs, some (bk, bd), some status, some rhs, some (rk, rbd) =>
    let fs := impl.splitOn " "
    let (reqF, respF) := (fs.takeWhile (· ≠ "!"), (fs.dropWhile (· ≠ "!")).drop 1)
    let q : Req := { method := ofString method, absForm := form = "a", path := path, query := query, host := host,
                     hdr := serverHdr hs, chunked := bk = "ch", body := bd }
    let upath := pctDecode path
    -- the pool transition uses the Transport's observed choice
    match (field reqF "c").bind parseConn with
    | none => (st, .bad "req: no c= field")
    | some (reuse, newId) =>
      let via : Option (Str × Option Str) := if q.absForm then some (path, none) else none
      let st := adoptSpare st (keyOf poolIsFixed st.P (routeOf st.P host upath user) host via) reuse
                  ((field reqF "be").bind String.toNat?)
      let s := st.P
      -- the exchange on the clock model (dial time is not an observable here: 0)
      let tlo := HttpTime.relay limits
        { dial := 0, upload := piecesOf upG, think := some think, download := piecesOf dnG }
      let timedOut := tlo.answer = .gatewayTimeout
      -- a connection whose exchange was given up is closed by the Transport, never pooled
      let (P', out) := HttpPool.step poolIsFixed s (.serve host upath user via reuse newId (keep = "1" && !timedOut))
      let st' := noteConn { st with P := P' } reuse newId
      let wellFormed := hs.all (fun kv => kv.1.all tokenByte ∧ kv.1 ≠ []) && pathOk path &&
        (match query with | some qq => queryClean qq | none => true)
      if !wellFormed then (st', .skip "request outside the model's domain (header name / path bytes / unparsable query)") else
      let rc := rcOf s host upath user
      let rt := rtString s host upath user
      let r : Resp := { status := status, body := rbd,
                        hdr := parseHdr (rhs ++ (if keep = "1" then [] else [(kConnection, ofString "close")])) }
      let implReqB := (field reqF "b").getD "-"
      let implRespB := (field respF "b").getD "-"
      let echoEmpty (b : Str) (implB : String) : String :=
        if b = [] then (if implB.startsWith "0." then implB else "-") else Str.toString b
      let respStr (u : Resp) : String :=
        s!"st={u.status} hd={fmtHdr u.hdr} fr={(field respF "fr").getD "?"} b={echoEmpty u.body implRespB}"
      let model : String :=
        match out with
        | .answered o c reused =>
          let seen := backendSees rc q (some (userIp cli)) false
          let fr := if seen.body = [] then (field reqF "fr").getD "?" else if seen.chunked then "ch" else "cl"
          let rM := if tlo.complete ∨ timedOut then r else { r with body := ofString "cut" }
          let u := if timedOut then userSeesError q.method true else userSees rc q.method rM
          -- unknown-length answers: ReverseProxy's immediate-flush timer races with the first body
          -- write, so the server may or may not have a first chunk to sniff (net/http internals)
          let implHasCT := match (field respF "hd").bind parseHdrMap with
            | some uh => get uh kCT ≠ []
            | none => true
          let u := if (rk = "ch" ∨ rk = "eof") ∧ get u.hdr kCT = [[42]] ∧ !implHasCT
                   then { u with hdr := del u.hdr kCT } else u
          s!"be={o} rt={rt} ow={ownerNote s o rt} c={c}{if reused then "r" else "n"} m={hx seen.method} t={hx (targetOf seen seen.host)} h={hx seen.host} hd={fmtHdr seen.hdr} fr={fr} b={echoEmpty seen.body implReqB} ! " ++ respStr u
        | _ =>
          let u := userSeesError q.method false
          s!"be=- rt={rt} c=- ! " ++ respStr u
      -- the property predicates on the implementation's own results
      let prop : Option Bool :=
        match (field reqF "be").bind String.toNat?, (field reqF "t").bind unhx, (field reqF "h").bind unhx,
              (field reqF "hd").bind parseHdrMap, (field reqF "m").bind unhx,
              (field respF "st").bind String.toNat?, (field respF "hd").bind parseHdrMap with
        | some be, some t, some h, some hd, some m, some ust, some uhd =>
          let (abs, p, qq) := splitTarget t
          let seen : Req := { method := m, absForm := abs, path := p, query := qq, host := h, hdr := hd,
                              chunked := (field reqF "fr") = some "ch", body := bodyOfField implReqB }
          let useen : Resp := { status := ust, hdr := uhd, body := bodyOfField implRespB }
          let framingOk := seen.body = [] || ((field reqF "fr") = some (if q.chunked then "ch" else "cl"))
          let reqOk := C02.freshB s host upath user be && C02.reqHolds rc q (userIp cli) seen && framingOk
          let respOk := C02.respHolds rc q.method r { useen with hdr := useen.hdr.filter (fun e => e.1 ≠ kDate ∧ e.1 ≠ kCT) }
          some (C02.timedHolds tlo true (ust = 504 ∧ useen.body = []) reqOk respOk (!respF.contains "end=cut"))
        | _, _, _, _, _, _, _ =>
          -- no backend was reached: the user must have got one of the two error answers, and only
          -- if the route has no reachable backend
          match (field respF "st").bind String.toNat? with
          | some ust =>
            let errOk : Bool := (ust = 404 ∧ (implRespB = "page" ∨ (q.method = ofString "HEAD" ∧ implRespB = "-"))) ∨
                                (ust = 504 ∧ bodyOfField implRespB = [])
            match out with
            | .answered _ _ _ => some (errOk && C02.timedHolds tlo false (ust = 504 ∧ bodyOfField implRespB = []) true true true)
            | _ => some errOk
          | none => none
      (st', verdictOf model impl prop)
  | _, _, _, _, _, _, _, _, _, _ => (st, .bad "req")

/-- the status the user got (`st=`), 0 when the result has none -/
def stOf (fs : List String) : Nat := ((field fs "st").bind String.toNat?).getD 0

/-- a protocol upgrade followed by `gaps.length / 2` tunnel rounds -/
def stepWs (st : State) (host path user up down : String) (gaps : List Nat) (impl : String) : State × Verdict :=
  match unhx host, unhx path, (if user = "-" then some [] else unhx user), up.splitOn ".", down.splitOn "." with
  | some host, some path, some user, [_, ul, uh], [_, dl, dh] =>
    let fs := impl.splitOn " "
    let s := st.P
    let rt := rtString s host path user
    let ck := C02.cfgKeys (rcOf s host path user)
    if ck.contains kConnection ∨ ck.contains kUpgrade then
      (st, .skip "ws: a configured Connection/Upgrade request header replaces the upgrade handshake") else
    match (field fs "c").bind parseConn with
    | some (reuse, newId) =>
      let st := adoptSpare st (keyOf poolIsFixed st.P (routeOf st.P host path user) host none) reuse
                  ((field fs "be").bind String.toNat?)
      let s := st.P
      let st := noteConn st reuse newId
      let (P', out) := HttpPool.step poolIsFixed s (.serve host path user none reuse newId false)
      -- the 101 comes at once; then the rounds of the tunnel under the exchange's clocks
      let tl := tunnelOf gaps 0
      let tun := HttpTime.upgrade limits 0 0 tl
      let whole : Bool := tun.1 = .backend ∧ tun.2.1 = tl.map (fun p => (p.dir, p.data)) ∧ tun.2.2 = false
      let model := match out with
        | .answered o c reused =>
          if !whole then s!"be={o} rt={rt} st=101 tunnel=cut" else
          s!"be={o} rt={rt} ow={ownerNote s o rt} c={c}{if reused then "r" else "n"} st=101 cu={hx (ofString "Upgrade|websocket")} up={ul}.{uh} down={dl}.{dh}"
        | _ => s!"be=- rt={rt} st=404 b=page"
      let prop : Option Bool :=
        match (field fs "be").bind String.toNat? with
        | some be => some (C02.tunnelHolds true (C02.freshB s host path user be) (stOf fs) 101
                             (field fs "up" = some s!"{ul}.{uh}") (field fs "down" = some s!"{dl}.{dh}") false)
        | none => some (C02.tunnelHolds false true (stOf fs) 101 false false (field fs "b" = some "page"))
      ({ st with P := P' }, verdictOf model impl prop)
    | none =>
      -- the user got no tunnel (no `c=` field).  Either no backend was involved (`be=-`: nothing was
      -- dialled or reused; 404 + page is then the only answer), or a backend received the handshake and
      -- answered 101 (`be=<id>`): its answer did not reach the user — the upgrade clause fails on the
      -- implementation's own result.
      let (_, out) := HttpPool.step poolIsFixed s (.serve host path user none none 0 false)
      let model := match out with
        | .answered o _ _ => s!"be={o} rt={rt} c=? st=101"
        | _ => s!"be=- rt={rt} st=404 b=page"
      let reached := ((field fs "be").bind String.toNat?).isSome
      (st, verdictOf model impl (some (C02.tunnelHolds reached true (stOf fs) 101 false false (field fs "b" = some "page"))))
  | _, _, _, _, _ => (st, .bad "ws")

/-- `<seed>.<len>.<hash>` ↦ (`len.hash`, len = 0) -/
def tokVal (t : String) : Option (String × Bool) :=
  match t.splitOn "." with
  | [_, l, h] => some (s!"{l}.{h}", l = "0")
  | _ => none

/-- an h2c upgrade (RFC 7540 §3.2, `h2c.NewHandler` around the reverse proxy): the handler takes the
    user connection over (the capability of `HttpTime.frpRW`), answers 101, and the request is served
    as stream 1 of an HTTP/2 connection — towards the backend one ordinary HTTP/1.1 exchange (the
    recording backend answers with `Connection: close`) -/
def stepH2c (st : State) (host path user method body status rbody : String) (impl : String) : State × Verdict :=
  match unhx host, unhx path, (if user = "-" then some [] else unhx user),
        (if body = "-" then some ("-", true) else tokVal body), status.toNat?, tokVal rbody with
  | some host, some path, some user, some (upv, upEmpty), some status, some (dnv, _) =>
    let _ := method
    let fs := impl.splitOn " "
    let s := st.P
    let rt := rtString s host path user
    let upOk : Bool := if upEmpty then (field fs "up" = some "-" ∨ ((field fs "up").getD "").startsWith "0.") else field fs "up" = some upv
    let upM : String := if upEmpty then (field fs "up").getD "-" else upv
    let noBackend : String := if rt = "-" then s!"be=- rt=- st=404 pr=h1 b=page" else s!"be=- rt={rt} st=404 pr=h2 b=page"
    match (field fs "c").bind parseConn with
    | some (reuse, newId) =>
      let st := adoptSpare st (keyOf poolIsFixed st.P (routeOf st.P host path user) host none) reuse
                  ((field fs "be").bind String.toNat?)
      let s := st.P
      let st := noteConn st reuse newId
      let (P', out) := HttpPool.step poolIsFixed s (.serve host path user none reuse newId false)
      let model := match out with
        | .answered o c reused =>
          s!"be={o} rt={rt} ow={ownerNote s o rt} c={c}{if reused then "r" else "n"} st={status} pr=h2 up={upM} down={dnv}"
        | _ => noBackend
      let prop : Option Bool :=
        match (field fs "be").bind String.toNat? with
        -- (`pr=` is compared with the model, not demanded: a server may decline the h2c upgrade and
        --  answer in HTTP/1.1 — the property promises the exchange, not the protocol)
        | some be => some (C02.tunnelHolds true (C02.freshB s host path user be) (stOf fs) status upOk
                             (field fs "down" = some dnv) false)
        | none => some (C02.tunnelHolds false true (stOf fs) status false false (field fs "b" = some "page"))
      ({ st with P := P' }, verdictOf model impl prop)
    | none =>
      -- nobody answered through a backend connection (no `c=`): 404 + page is the only answer the
      -- property allows, and only if no backend received the request
      let (_, out) := HttpPool.step poolIsFixed s (.serve host path user none none 0 false)
      let model := match out with
        | .answered o _ _ => s!"be={o} rt={rt} c=? st={status} pr=h2"
        | _ => noBackend
      let reached := ((field fs "be").bind String.toNat?).isSome
      (st, verdictOf model impl (some (C02.tunnelHolds reached true (stOf fs) status false false (field fs "b" = some "page"))))
  | _, _, _, _, _, _ => (st, .bad "h2c")

/-- CONNECT followed by tunnel rounds (`connectHandler`: no Transport, no pool, no clock) -/
def stepConnect (st : State) (host user up down : String) (gaps : List Nat) (impl : String) : State × Verdict :=
  match unhx host, (if user = "-" then some [] else unhx user), up.splitOn ".", down.splitOn "." with
  | some host, some user, [_, ul, uh], [_, dl, dh] =>
    let fs := impl.splitOn " "
    let s := st.P
    let rt := rtString s host [] user
    -- connectHandler: rp.CreateConnection(routeInfo, false), no Transport, no pool
    let owner : Option Nat :=
      match routeOf s host [] user with
      | some r => match s.cfgOf r.payload with
        | some c => if c.reachable then some r.payload else none
        | none => none
      | none => none
    let tl := tunnelOf gaps 0
    let tun := HttpTime.tunnel none 0 tl
    let whole : Bool := tun.1 = tl.map (fun p => (p.dir, p.data)) ∧ tun.2 = false
    let model := match owner with
      | some o =>
        if !whole then s!"be={o} rt={rt} st=200 tunnel=cut" else
        s!"be={o} rt={rt} st=200 t={hx host} up={ul}.{uh} down={dl}.{dh}"
      | none => s!"be=- rt={rt} st=404 b=page"
    let prop : Option Bool :=
      match (field fs "be").bind String.toNat? with
      | some be => some (C02.tunnelHolds true (C02.freshB s host [] user be) (stOf fs) 200
                           (field fs "up" = some s!"{ul}.{uh}") (field fs "down" = some s!"{dl}.{dh}") false)
      | none => some (C02.tunnelHolds false true (stOf fs) 200 false false (field fs "b" = some "page"))
    (st, verdictOf model impl prop)
  | _, _, _, _ => (st, .bad "connect")

/-! ### faults in the middle of an exchange (ops `freq`, `fh2c`; harness/eng_http_fault.go)

    The sender's side of the story is in the op line (framing, announced length, where the fault strikes), the
    reader's side in the result.  Frp/Model/HttpAbort.lean says how the message ends after frps' hop
    (`hop C02.frpEnv`, one hop: the backend is the recording one); how many bytes were still buffered in the hop
    when it aborted is taken from the implementation's result (relational).  `C02.abortHolds` is evaluated on what
    the final reader really got. -/

/-- `<kind>:<seed>.<len>.<hash>` ↦ (kind, len); "-" ↦ ("-", 0) -/
def bodyLen (t : String) : Option (String × Nat) :=
  if t = "-" then some ("-", 0)
  else match t.splitOn ":" with
    | [k, tok] => match tok.splitOn "." with
      | [_, len, _] => len.toNat?.map (fun n => (k, n))
      | _ => none
    | _ => none

def framingOf (k : String) : Option HttpAbort.Framing :=
  if k = "cl" then some .cl else if k = "ch" then some .ch else if k = "eof" then some .eof else none

/-- `d<k>` / `q<k>` / `u<k>` -/
def parseFault (t : String) : Option (Char × Nat) :=
  match t.toList with
  | c :: rest => (String.ofList rest).toNat?.map (fun n => (c, n))
  | [] => none

def natField (fs : List String) (key : String) : Option Nat := (field fs key).bind String.toNat?

def stepFault (st : State) (h2 : Bool) (host path user body status rbody fault : String) (impl : String) : State × Verdict :=
  match unhx host, unhx path, (if user = "-" then some [] else unhx user), bodyLen body, status.toNat?,
        bodyLen rbody, parseFault fault with
  | some host, some path, some user, some (bk, bn), some status, some (rk, rn), some (fc, fk) =>
    let fs := impl.splitOn " "
    let upath := pctDecode path
    let conn := (field fs "c").bind parseConn
    let st := match conn with
      | some (reuse, _) => adoptSpare st (keyOf poolIsFixed st.P (routeOf st.P host upath user) host none) reuse ((field fs "be").bind String.toNat?)
      | none => st
    let s := st.P
    let rt := rtString s host upath user
    let (reuse, newId) := conn.getD (none, 0)
    let (P', out) := HttpPool.step poolIsFixed s (.serve host upath user none reuse newId false)
    let st' := match conn with
      | some _ => noteConn { st with P := P' } reuse newId
      | none => st
    let reachedI := ((field fs "be").bind String.toNat?).isSome
    let stI := stOf fs
    let endI := (field fs "end").getD "-"
    let pre := field fs "pre" = some "1"
    match out with
    | .answered o c reused =>
      let head := s!"be={o} rt={rt} ow={ownerNote s o rt} c={c}{if reused then "r" else "n"}"
      let fresh := match (field fs "be").bind String.toNat? with
        | some be => C02.freshB s host upath user be
        | none => true
      if fc = 'd' then
        match framingOf rk with
        | none => (st, .bad "fault: answer framing")
        | some fr =>
          let snd : HttpAbort.Sent := { fr := fr, total := rn, k := min fk rn, died := true }
          let nI := (natField fs "n").getD 0
          -- bytes the hop had read but not passed on when it aborted: from the implementation's result
          let lost := snd.k - nI
          let u := HttpAbort.readOf (HttpAbort.hop C02.frpEnv snd lost)
          -- a cut answer: whether the status line had left the server's buffer is the server's business
          let stM := if u.ended then status else if stI = 0 then 0 else status
          let tail := if h2 then s!"st={stM} pr=h2 n={u.n} pre=1 end={if u.ended then "ok" else "cut"}"
                      else s!"! st={stM} fr={(field fs "fr").getD "?"} n={u.n} pre=1 end={if u.ended then "ok" else "cut"}"
          let prop := reachedI && fresh &&
            C02.abortHolds { fr := fr, total := rn, k := snd.k, died := true, n := nI, ended := endI == "ok", prefixOk := pre } &&
            (stI == status || (stI == 0 && endI != "ok")) && endI != "timeout"
          (st', verdictOf (head ++ " " ++ tail) impl (some prop))
      else if fc = 'q' then
        -- the backend died before it answered: the not-found page, or the connection ends; never a hang
        let up := (natField fs "up").getD 0
        let okPage := stI == 404 && field fs "b" = some "page" && endI == "ok"
        let okCut := stI == 0 && endI == "cut"
        let tail := if okCut then s!"up={up} ! st=0 b=- end=cut" else s!"up={up} ! st=404 b=page end=ok"
        (st', verdictOf (head ++ " " ++ tail) impl (some (reachedI && fresh && (okPage || okCut) && decide (up ≤ fk))))
      else
        -- the user died inside its request body
        match framingOf bk with
        | none => (st, .bad "fault: request framing")
        | some fr =>
          if !reachedI then
            -- nothing was forwarded before the user was gone: nothing to demand
            (st, verdictOf impl impl (some true))
          else
            let snd : HttpAbort.Sent := { fr := fr, total := bn, k := min fk bn, died := true }
            let upI := (natField fs "up").getD 0
            let u := HttpAbort.readOf (HttpAbort.hopUp snd (snd.k - upI))
            let tail := s!"up={u.n} pre=1 whole={if u.ended then "1" else "0"}"
            let prop := fresh && C02.abortHolds { fr := fr, total := bn, k := snd.k, died := true, n := upI,
                                                   ended := field fs "whole" = some "1", prefixOk := pre }
            (st', verdictOf (head ++ " " ++ tail) impl (some prop))
    | _ =>
      -- no reachable backend: the not-found page, complete (for a user that died: nothing)
      if fc = 'u' then (st, verdictOf s!"be=- rt={rt} c=-" impl (some (!reachedI)))
      else
        let model := if h2 then s!"be=- rt={rt} st=404 pr={if rt = "-" then "h1" else "h2"} b=page" else s!"be=- rt={rt} c=- ! st=404 b=page end=ok"
        (st, verdictOf model impl (some (C02.tunnelHolds reachedI true stI status false false (field fs "b" = some "page"))))
  | _, _, _, _, _, _, _ => (st, .bad "fault op")

/-! ### error-path exchanges against a request body that is still in flight (op `ereq`; harness/eng_http_err.go)

    The route table of the model says whether the request has no route (`dialled = false`) or a route whose
    CreateConnFn fails (`dialled = true`); Frp/Model/HttpErr.lean says when the answer is due given what the user has
    sent and withholds; `C02.errHolds` demands the not-found page inside the engine's bound whenever the model says the
    answer comes.  Uploads net/http itself waits for (model: never) are skipped. -/
def stepErr (st : State) (host path user framing total sent ends expect : String) (impl : String) : State × Verdict :=
  match unhx host, unhx path, (if user = "-" then some [] else unhx user), total.toNat?, sent.toNat? with
  | some host, some path, some user, some total, some sent =>
    let fs := impl.splitOn " "
    let upath := pctDecode path
    let s := st.P
    let rt := rtString s host upath user
    let (_, out) := HttpPool.step poolIsFixed s (.serve host upath user none none 0 false)
    match out with
    | .answered _ _ _ => (st, .skip "ereq: the route has a reachable backend")
    | _ =>
      let hasBody : Bool := framing = "ch" ∨ total > 0
      let expect100 : Bool := expect = "1" ∧ hasBody
      -- a user that announced Expect: 100-continue sends its body only after the server's 100 Continue
      let u : HttpErr.Upload :=
        { chunked := framing = "ch", unread := total, expect100 := expect100,
          pieces := if sent > 0 ∧ !expect100 then [(0, sent)] else [],
          ends := !hasBody || (ends = "1" && !expect100) }
      let dialled := (routeOf s host upath user).isSome
      match HttpErr.answerAt HttpErr.frpHandler dialled 0 u with
      | none => (st, .skip "ereq: net/http itself waits for body bytes this user does not send")
      | some a =>
        let model := s!"be=- rt={rt} ! st=404 b=page ans=ok c100={(field fs "c100").getD "0"}"
        let prop := field fs "be" = some "-" ∧
          C02.errHolds (some a) (field fs "ans" = some "ok") (stOf fs) (field fs "b" = some "page") (field fs "ans" = some "cut") false
        (st, verdictOf model impl (some prop))
  | _, _, _, _, _ => (st, .bad "ereq")

def step (st : State) (tok : List String) (impl : String) : State × Verdict :=
  match tok with
  | ["ereq", host, path, user, _method, framing, total, sent, ends, expect] => stepErr st host path user framing total sent ends expect impl
  | ["freq", host, path, user, _method, body, status, rbody, fault] => stepFault st false host path user body status rbody fault impl
  | ["fh2c", host, path, user, status, rbody, fault] => stepFault st true host path user "-" status rbody fault impl
  | ["reset"] => ({}, verdictOf "-" impl)
  | ["reg", id, d, l, u, rw, hs, rhs, mode] =>
    match id.toNat?, unhx d, unhx l, unhx u, unhx rw, parsePairs hs, parsePairs rhs with
    | some id, some d, some l, some u, some rw, some hs, some rhs =>
      let rc : RouteCfg := { domain := d, location := l, routeUser := u, rewriteHost := rw, headers := hs, respHeaders := rhs }
      let (P', out) := HttpPool.step poolIsFixed st.P (.reg id { rc := rc, reachable := mode ≠ "unreach" })
      let silent' := if mode = "silent" ∧ out = .ok then id :: st.silent else st.silent
      ({ P := P', silent := silent' }, verdictOf (if out = .ok then "ok" else "conflict") impl)
    | _, _, _, _, _, _, _ => (st, .bad "reg")
  | ["unreg", d, l, u] =>
    match unhx d, unhx l, unhx u with
    | some d, some l, some u => ({ st with P := (HttpPool.step poolIsFixed st.P (.unreg d l u)).1 }, verdictOf "-" impl)
    | _, _, _ => (st, .bad "unreg")
  | ["req", cli, form, method, host, path, query, user, hs, body, status, rhs, rbody, keep] =>
    stepReq st cli form method host path query user hs body status rhs rbody keep [] 0 [] impl
  | ["treq", cli, form, method, host, path, query, user, hs, body, status, rhs, rbody, keep, upG, think, dnG] =>
    match parseGaps upG, think.toNat?, parseGaps dnG with
    | some upG, some think, some dnG =>
      stepReq st cli form method host path query user hs body status rhs rbody keep upG think dnG impl
    | _, _, _ => (st, .bad "treq")
  | ["ws", host, path, user, up, down] => stepWs st host path user up down [0, 0] impl
  | ["tws", host, path, user, up, down, gaps] =>
    match parseGaps gaps with
    | some g => stepWs st host path user up down g impl
    | none => (st, .bad "tws")
  | ["h2c", host, path, user, method, body, status, rbody] => stepH2c st host path user method body status rbody impl
  | ["connect", host, user, up, down] => stepConnect st host user up down [0, 0] impl
  | ["tconnect", host, user, up, down, gaps] =>
    match parseGaps gaps with
    | some g => stepConnect st host user up down g impl
    | none => (st, .bad "tconnect")
  | ["silent", hs, ho] =>
    match unhx hs, unhx ho with
    | some hs, some ho =>
      let s := st.P
      let isSilent := match routeOf s hs [47] [] with
        | some r => st.silent.contains r.payload
        | none => false
      let other := match routeOf s ho [47] [] with
        | some r => match s.cfgOf r.payload with
          | some c => if c.reachable then "200" else "404"
          | none => "404"
        | none => "404"
      if !isSilent then (st, .skip "silent: target is not a silent route") else
      let u := errorMap true
      let model := s!"st={u.status} bound=ok other={other}"
      (st, verdictOf model impl (some (impl.startsWith "st=504 bound=ok " ∧ !(impl.endsWith "late") ∧ !(impl.endsWith "err"))))
    | _, _ => (st, .bad "silent")
  | ["plug", kind, hr, cfg, method, path, query, hs, body, status, rhs, rbody] =>
    let kind? : Option PluginKind := match kind with
      | "h2h" => some .h2h | "h2hs" => some .h2hs | "hs2h" => some .hs2h | "hs2hs" => some .hs2hs | _ => none
    match kind?, unhx hr, parsePairs cfg, unhx path, (if query = "-" then some none else (unhx query).map some),
          parsePairs hs, parseBody body, status.toNat?, parsePairs rhs, parseBody rbody with
    | some kind, some hr, some cfg, some path, some query, some hs, some (bk, bd), some status, some rhs, some (rk, rbd) =>
      let fs := impl.splitOn " "
      let (reqF, respF) := (fs.takeWhile (· ≠ "!"), (fs.dropWhile (· ≠ "!")).drop 1)
      let q : Req := { method := ofString method, absForm := false, path := path, query := query,
                       host := ofString "plug.example.com", hdr := serverHdr hs, chunked := bk = "ch", body := bd }
      let ip := ofString "10.7.7.7"
      let r : Resp := { status := status, body := rbd, hdr := parseHdr (rhs ++ [(kConnection, ofString "close")]) }
      let implReqB := (field reqF "b").getD "-"
      let implRespB := (field respF "b").getD "-"
      let echoEmpty (b : Str) (implB : String) : String :=
        if b = [] then (if implB.startsWith "0." then implB else "-") else Str.toString b
      let seen := pluginSees pluginH2HIsFixed kind hr cfg q (some ip)
      let fr := if seen.body = [] then (field reqF "fr").getD "?" else if seen.chunked then "ch" else "cl"
      let u := userSees none q.method r
      let implHasCT := match (field respF "hd").bind parseHdrMap with
        | some uh => get uh kCT ≠ []
        | none => true
      let u := if (rk = "ch" ∨ rk = "eof") ∧ get u.hdr kCT = [[42]] ∧ !implHasCT then { u with hdr := del u.hdr kCT } else u
      let model := s!"m={hx seen.method} t={hx (targetOf seen seen.host)} h={hx seen.host} hd={fmtHdr seen.hdr} fr={fr} b={echoEmpty seen.body implReqB} ! st={u.status} hd={fmtHdr u.hdr} fr={(field respF "fr").getD "?"} b={echoEmpty u.body implRespB}"
      let prop : Option Bool :=
        match (field reqF "t").bind unhx, (field reqF "h").bind unhx, (field reqF "hd").bind parseHdrMap,
              (field reqF "m").bind unhx, (field respF "st").bind String.toNat?, (field respF "hd").bind parseHdrMap with
        | some t, some h, some hd, some m, some ust, some uhd =>
          let (abs, p, qq) := splitTarget t
          let seenI : Req := { method := m, absForm := abs, path := p, query := qq, host := h, hdr := hd,
                               chunked := (field reqF "fr") = some "ch", body := bodyOfField implReqB }
          let useen : Resp := { status := ust, hdr := uhd.filter (fun e => e.1 ≠ kDate ∧ e.1 ≠ kCT), body := bodyOfField implRespB }
          some (C02.plugHolds kind hr cfg q ip seenI && C02.respHolds none q.method r useen)
        | _, _, _, _, _, _ => some false
      (st, verdictOf model impl prop)
    | _, _, _, _, _, _, _, _, _, _ => (st, .bad "plug")
  | _ => (st, .bad "op")

end HttpEng

def http : Engine := { State := HttpEng.State, init := {}, step := HttpEng.step }

end Engines
end Frp
