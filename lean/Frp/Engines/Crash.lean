import Frp.Driver.Proto
import Frp.Props.C16
/-
  Driver engine "crash" (C16): replays the trace of harness/eng_crash.go.  The model's answer to every
  operation is "the process is alive and answered" — except where the faithful models say otherwise:
    * `login` with an accepted key and PoolCount < -10: `Crash.loginOutcome` says the process dies
      (switch `Crash.poolCountIsFixed`);
    * `race6`: if the regenerated lock facts contain the unsynchronised pre-check read, a fatal
      "concurrent map read and map write" is an allowed outcome (non-deterministic: relational);
    * `stun k`: if `Crash.discoverMayDie`, the send on the closed channel is an allowed outcome.
    * `wconn` / `wstorm` (frames on work and visitor connections): `C16.frames_never_kill` — the answer is
      "sent" / "done";
    * `tear <gate> <n>`: the schedule the gate forces (`Crash.tearSchedule`) is run on the teardown model with
      RegisterWorkConn as the regenerated channel facts say it is written (`C16.regRecover`).
    * `relogin <gate> <k> <order>`: the forced schedule (`RegCtl.reloginSchedule`) is run on the RegisterControl
      model, written as the regenerated fact says it is (`C16.startAlways`): `done` iff the last login is answered;
    * `gleave`: with the regenerated lock graph in order (`C16.lock_order_respected`) the join and the last leave
      cannot block each other: `done`; otherwise a stalled answer is an allowed outcome;
    * `gchurn`: the same race without a gate (leave and join written back to back, hundreds of rounds): same answer;
    * `swc <ver> <src> <sport> <dst> <dport>`: `Crash.handleStartWork` on what the resolver made of the addresses
      (reported by the harness: relational), switch `Crash.startWorkAddrIsFixed`;
    * `closerace udp` (and the storms that send user datagrams while udp proxies close): `Crash.fstep` — while the
      hand-over in ForwardUserConn is a plain send (regenerated fact) the panic is an allowed outcome;
    * `nstorm`: valid nat-hole traffic — `done` (the table accesses are covered by obligation 1).
    * `ureq` / `ustorm` (hostile USER traffic on the tcpmux / vhost http / vhost https / tcp / udp listeners): whatever the
      listener answers (`r:…`) is accepted — `C16.index_sites_guarded` says the parsers behind them cannot index out of range;
    * `canon <host>`: `Host.canonicalHost` (= the Go function with its indexing explicit, `C16.canonicalHost_never_panics`) on
      ASCII hosts; strings.ToLower is not modelled beyond ASCII, there the implementation's answer is accepted;
    * `ptear <plugin> <mux> <hold> <n>`: `UserIn.prun` with the Close method of that plugin as the regenerated facts have it,
      n active requests, four turns of the worker: `done` iff it reaches the next login.
    * `ssh <gw> <auth> <item>…` (one hostile ssh client on the ssh tunnel gateway): the items are turned into
      `SshGw.Ev` and run on `SshGw.step` with the arithmetic of `end` AS THE SOURCE HAS IT (`C16.sshExecArith`,
      regenerated): if a request of the script makes the loop body of handleNewChannel panic, frps dies — certainly when
      the gateway cannot have closed the connection before (it does so once it has a forward address AND an exec
      payload), possibly otherwise; everything else the gateway answers (`s:…`) is accepted;
    * `ostorm`: concurrent logins / pings / work connections through the ONE verifier of a frps with auth.method = oidc: `done`
      (`C16.map_census_closed`, `auth_field_writes_pinned`: no map of the verifier is written at run time);
    * `maxports <variant>`: a session refused for max_ports_per_client goes on (CloseProxy, NewProxy, Ping), drops and
      logs in again with its run id: `done` — `LockBal.run` with lock-balanced functions (regenerated `Gen.LockBalance`);
    * `sstorm`: the same from several clients at once, scripts drawn in the child: with the wrapping arithmetic the
      panic is an allowed outcome.
    * a result `slow:<answer>` (no answer within 90 s, the answer within the next 90 s, watchdog ok afterwards) is skipped.
  The property predicate `C16.holdsOn` is evaluated on the implementation's own observation: any
  crash / hang / failed watchdog is `prop=FAILS`, whether or not the model predicted it.
-/
namespace Frp
namespace Engines
namespace CrashEng
open Proto Crash

def obsOf (impl : String) : C16.Obs :=
  if impl.startsWith "crash:" then .crash
  else if impl = "hang" || impl.startsWith "fail:" || impl = "nologin" || impl = "spawnfail" then .wedge
  else .alive

/-- frps default `transport.maxPoolCount` (pkg/config/v1/server.go Complete) — the harness child uses the default -/
def maxPool : Int := 5

def precheckUnguarded : Bool := (C16.unguarded.map LockDisc.Access.site).contains C16.exc6

def crashMakechan : String := "crash:makechan@server.NewControl"
/-- the unsynchronised read shows as the runtime's "concurrent map read and map write" or, when the
    reader sees a half-written entry (key present, value still nil), as a nil dereference two lines later -/
def crashMap6 (impl : String) : Bool :=
  impl = "crash:concurrent-map@pkg/nathole.(*Controller).HandleVisitor" ||
  impl = "crash:nil@pkg/nathole.(*Controller).HandleVisitor"
def crashDiscover : String := "crash:closed-channel@pkg/nathole.(*discoverConn).readLoop"
def crashRegister : String := "crash:closed-channel@server.(*Control).RegisterWorkConn"

/-- the model's answer to a forced teardown schedule -/
def tearModel (gate : String) (n : Nat) (impl : String) : String :=
  if gate = "none" then
    -- a free race: with the recover nothing can happen; without it the panic is an allowed outcome
    if !C16.regRecover && impl = crashRegister then impl else "done"
  else
    match (trun ⟨C16.regRecover, false⟩ {} (tearSchedule gate n)).2 with
    | .alive => "done"
    | .processDies => crashRegister

def crashUdpForward : String := "crash:closed-channel@pkg/proto/udp.ForwardUserConn"

/-- ops that make user datagrams meet the close of a udp proxy: while the hand-over is a plain send (regenerated
    fact `C16.udpForwardRecovered`) the panic is an allowed — timing dependent — outcome -/
def udpRaceModel (dflt impl : String) : String :=
  if !C16.udpForwardRecovered && impl = crashUdpForward then impl else dflt

def crashStartWork : String := "crash:nil@client/proxy.(*BaseProxy).HandleTCPWorkConnection"

def lockOrderOk : Bool := LockOrd.respects Frp.Gen.LockOrder.order Frp.Gen.LockOrder.edges && Frp.Gen.LockOrder.relocks.isEmpty

/-- digits of a release order -/
def orderOf (s : String) : List Nat := s.toList.map (fun c => c.toNat - 48)

def reloginModel (k : Nat) (order : String) : String :=
  if RegCtl.lastAnswered (RegCtl.run C16.startAlways {} (RegCtl.reloginSchedule k (orderOf order))) then "done"
  else "fail:relogin-last-unanswered"

def addrResOf (c : Char) : Option AddrRes :=
  if c = '4' then some .v4 else if c = '6' then some .v6 else if c = '-' then some .bad else none

def ppVerOf (s : String) : PPVer :=
  if s = "none" then .unset else if s = "v1" then .v1 else if s = "v2" then .v2 else .other

def swcOutName : SwcOut → String
  | .crash => "crash" | .hdr => "hdr" | .nohdr => "nohdr" | .closed => "closed"

/-- `swc`: the harness reports what net.ResolveTCPAddr made of the two addresses (`res=<s><d>`); a dead child cannot
    report: then the crash is accepted iff the model has an address class for which it dies -/
def swcModel (ver src sport : String) (impl : String) : Option String :=
  match unhx src with
  | none => none
  | some srcBytes =>
    let srcGiven := !srcBytes.isEmpty && sport != "0"
    let srcHasDot := srcBytes.contains 46
    let v := ppVerOf ver
    if impl.startsWith "crash:" then
      if handleStartWork startWorkAddrIsFixed v srcGiven srcHasDot .bad .v4 = .crash && impl = crashStartWork then some impl
      else some "res=??;out=?"
    else
      match impl.toList with
      | 'r' :: 'e' :: 's' :: '=' :: a :: b :: _ =>
        match addrResOf a, addrResOf b with
        | some ra, some rb =>
          let o := handleStartWork startWorkAddrIsFixed v srcGiven srcHasDot ra rb
          if o = .crash then some crashStartWork
          else some (String.ofList ['r', 'e', 's', '=', a, b] ++ ";out=" ++ swcOutName o)
        | _, _ => none
      | _ => some "res=??;out=?"

/-- the calls of the plugin's `Close()` (regenerated), by the plugin's file name -/
def closeCallsOf (plugin : String) : Option (List UserIn.CloseCall) :=
  (Frp.Gen.PluginClose.closeFacts.find? (fun f => f.file = "pkg/plugin/client/" ++ plugin ++ ".go" && f.recv != "Listener")).map (·.calls)

def ptearModel (plugin mux : String) (n : Nat) : String :=
  match closeCallsOf plugin with
  | none => "badplugin"
  | some cs =>
    if (UserIn.prun (mux = "1") cs { active := n } [.worker, .worker, .worker, .worker]).pc = 4 then "done"
    else "fail:ptear-nologin"

def canonModel (h : String) (impl : String) : Option String :=
  match unhx h with
  | none => none
  | some hb =>
    if Str.isAscii hb then
      some (match Host.canonicalHost hb with | none => "err" | some x => hx x)
    else some impl

def crashSshExec : String := "crash:range@pkg/ssh.(*TunnelServer).handleNewChannel"

/-- one item of an `ssh` script: `none` = malformed, `some none` = nothing the gateway's request loops see -/
def sshItem (it : String) : Option (Option SshGw.Ev) :=
  match it.splitOn "." with
  | ["d"] => some (some .disconnect)
  | ["g", t, _, p] => match unhx t, unhx p with
    | some tb, some pb => some (some (.global tb pb))
    | _, _ => none
  | ["c", t, _] => (unhx t).map (fun tb => some (.openCh tb))
  | ["r", k, t, _, p] => match k.toNat?, unhx t, unhx p with
    | some kk, some tb, some pb => some (some (.chanReq kk tb pb 0))
    | _, _, _ => none
  | ["w", _, _] => some none
  | ["k", k] => k.toNat?.map (fun kk => some (.closeCh kk))
  | _ => none

def sshEvents : List String → Option (List SshGw.Ev)
  | [] => some []
  | it :: rest =>
    match sshItem it, sshEvents rest with
    | some (some e), some es => some (e :: es)
    | some none, some es => some es
    | _, _ => none

/-- does the gateway let this client in: gateway `a` has no authorizedKeysFile (NoClientAuth), `b` knows one key -/
def sshLetIn (gw auth : String) : Bool :=
  if auth.startsWith "raw." then false
  else if gw = "a" then auth = "none" || auth = "key" || auth = "badkey"
  else auth = "key"

/-- the first event at which the process dies, with: did the gateway have both halves (forward address and exec payload)
    before it — then it may have closed the connection on its own in the meantime -/
def sshFirstDeath (t : UserIn.NumT) : SshGw.Conn → List SshGw.Ev → Option Bool
  | _, [] => none
  | c, e :: es =>
    match SshGw.step t (c, .alive) e with
    | (_, .processDies) => some (c.addr.isSome && c.extra.isSome)
    | (c', .alive) => sshFirstDeath t c' es

def sshModel (gw auth : String) (items : List String) (impl : String) : Option String :=
  match sshEvents items with
  | none => none
  | some evs =>
    let accept := if impl.startsWith "s:" then impl else "s:"
    if !sshLetIn gw auth then some accept
    else
      match sshFirstDeath C16.sshExecArith {} evs with
      | none => some accept
      | some false => some crashSshExec
      | some true => if impl = crashSshExec then some impl else some accept

/-- the model's result; for the relational ops the implementation's result is accepted if allowed -/
def modelOf (tok : List String) (impl : String) : Option String :=
  match tok with
  | ["reset"] => some "-"
  | ["login", _, pool, good, variant] =>
    match pool.toInt? with
    | none => none
    | some p =>
      -- variant ≠ 0: the other Login fields are extreme too; a Login frame above the 10 KiB limit is
      -- dropped by ReadMsg (connection closed without a reply) — accepted relationally
      let oversize := variant ≠ "0" && impl = "eof"
      if good = "1" then
        (match loginOutcome poolCountIsFixed maxPool p with
         | .alive => if oversize then some "eof" else some "ok"
         | .processDies => if oversize then some "eof" else some crashMakechan)
      else if oversize then some "eof" else some "err"
  | ["negpool", _, pool, _] =>
    match pool.toInt? with
    | none => none
    | some p =>
      -- a negative pool count below -10 dies in NewControl already (the login inside the op gets no answer)
      if loginOutcome poolCountIsFixed maxPool p = .processDies then
        (if impl = crashMakechan then some impl else some "done")
      else if proxyUseOutcome poolCountIsFixed maxPool p = .processDies then
        (if impl.startsWith "crash:nil@" then some impl else some "crash:nil@")
      else some "done"
  | ["msg", _, _, _] => some "sent"
  | ["json", _, _, _] => some "sent"
  | ["raw", _] => some "sent"
  | ["drop", _] => some "-"
  | ["storm", _, _, _] => some (udpRaceModel "done" impl)
  | ["wstorm", _, _, _] => some (udpRaceModel "done" impl)
  | ["wconn", _, _, _] => some (udpRaceModel "sent" impl)
  | ["closerace", _, kind, _, _] => if kind = "udp" then some (udpRaceModel "done" impl) else some "done"
  | ["pstorm", _, _, _] => some "done"
  | ["routes", _, _, _] => some "done"
  | ["tear", _, gate, n, _] =>
    match n.toNat? with
    | none => none
    | some k => some (tearModel gate k impl)
  | ["cstorm", _, _] => some "done"
  | ["nstorm", _, _, _] => some "done"
  | ["relogin", _, _, k, order, _] =>
    match k.toNat? with
    | none => none
    | some kk => some (reloginModel kk order)
  | ["gleave", _, _, _] =>
    if !lockOrderOk && impl.startsWith "fail:gleave" then some impl else some "done"
  | ["gchurn", _, _, _] =>
    if !lockOrderOk && impl.startsWith "fail:gchurn" then some impl else some "done"
  | ["swc", ver, src, sport, _, _] => swcModel ver src sport impl
  | ["ureq", _, _] => if impl.startsWith "r:" then some impl else some "r:"
  | ["ustorm", _, _, _] => some "done"
  | ["canon", h] => canonModel h impl
  | ["ptear", plugin, mux, _, n] =>
    match n.toNat? with
    | none => none
    | some k => some (ptearModel plugin mux k)
  | "ssh" :: gw :: auth :: items => sshModel gw auth items impl
  | ["sstorm", _, _, _] =>
    if C16.sshExecArith = .u32 && impl = crashSshExec then some impl else some "done"
  | ["ostorm", _, _, _] =>
    -- auth.method = oidc: the verifier's fields are not maps (`C16.auth_field_writes_pinned`) and every map written at run
    -- time is a judged table (`C16.map_census_closed`): `done`
    some "done"
  | ["maxports", _, _] =>
    -- with every function lock-balanced (regenerated, `C16.lock_balance`) the session handles everything and is torn
    -- down (`C16.session_handles_all`, `session_teardown_closes`): `done`; with an open leak a stall is an allowed outcome
    if !C16.lockLeaksOpen.isEmpty && impl.startsWith "fail:maxports" then some impl else some "done"
  | ["watch"] => some "ok"
  | ["stat"] => if impl.startsWith "stat:" then some impl else some "stat:"
  | ["race6", _] =>
    if precheckUnguarded && crashMap6 impl then some impl else some "done"
  | ["stun", k, _] =>
    match k.toNat? with
    | none => none
    | some kk => if discoverMayDie discoverIsFixed kk 1 && impl = crashDiscover then some crashDiscover else some "done"
  | _ => none

def step (st : Unit) (tok : List String) (impl : String) : Unit × Verdict :=
  -- the child answered only in the second 90 s and passed the watchdog right after: alive, but the op's timing is not the
  -- model's business (a loaded machine); counted as skipped, never as agreement
  if impl.startsWith "slow:" then (st, .skip "the child answered after the bound and passed the watchdog") else
  match modelOf tok impl with
  | none => (st, .bad "unknown op")
  | some m => (st, verdictOf m impl (some (C16.holdsOn (obsOf impl))))

end CrashEng

open Proto in
def crash : Engine := { State := Unit, init := (), step := CrashEng.step }

end Engines
end Frp
