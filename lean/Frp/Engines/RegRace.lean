import Frp.Driver.Proto
import Frp.Engines.Release
import Frp.Props.C10
import Frp.Props.C10Drop
/-
  Driver engine "regrace" (C10): replays the harness trace of concurrently running registrations on
  Frp/Model/RegSteps.lean.  Besides the exact comparison with the model, every answer of the
  implementation is judged by the property on a RECORD built from the implementation's own answers
  (`RrRec`: which proxy objects it reported as registered / parked after Run): `C10.Conc.accountedView` —
  its tables, name table and per-session quota counters must be exactly what that record accounts for;
  a refusal (quota / exists / conflict / in use) must be justified by the record.
-/
namespace Frp
namespace Engines
open Proto Release RegSteps SessDrop

structure RrState where
  s   : CState := CState.init 0
  /-- sessions whose control connection was dropped while their registration is parked (Frp/Model/SessDrop.lean) -/
  ending : List Nat := []
  /-- the implementation's own account: built only from its answers -/
  acct : CState := CState.init 0
  /-- sessions the implementation answered `pending` for and not yet `gone` -/
  acctEnding : List Nat := []

def RrState.d (st : RrState) : DState := { c := st.s, ending := st.ending }

def rrDRes : DRes → String
  | .r x => match x with
    | .parked .checked => "at:checked"
    | .parked .ran => "at:ran"
    | .ok => "ok"
    | .quota => "err:quota"
    | .exists_ => "err:exists"
    | .conflict _ => "err:conflict"
    | .inuse => "err:inuse"
    | .busy => "busy"
    | .noflight => "noflight"
    | .done => "-"
  | .pending => "pending"
  | .gone => "gone"

def rrNumSessions : Nat := 3

def rrKeys (name : Str) (typ : String) (args : List String) : Option (List Key × Nat) :=
  match typ, args with
  | "tcp", [r] =>
    if r.startsWith "r" then ((r.drop 1).toString.toNat?).map (fun k => ([⟨.tcp, Str.ofString (toString k)⟩], 1)) else none
  | "udp", [r] =>
    if r.startsWith "r" then ((r.drop 1).toString.toNat?).map (fun k => ([⟨.udp, Str.ofString (toString k)⟩], 1)) else none
  | "http", _ => (relKeys name "http" args).map (fun ks => (ks, 0))
  | "stcp", [] => some ([⟨.visitor, name⟩], 0)
  | _, _ => none

def rrEq : Nat := 61   -- '='

def rrPortTbl (s : CState) (t : Tbl) : String :=
  ",".intercalate ((relSort ((s.held.filter (fun e => e.1.tbl = t)).map
    (fun e => e.1.k ++ rrEq :: e.2.name))).map Str.toString)

def rrView (s : CState) : String :=
  let http := ",".intercalate ((relSort ((s.held.filter (fun e => e.1.tbl = .http)).map (fun e => e.1.k))).map hx)
  let vis := ",".intercalate ((relSort ((s.held.filter (fun e => e.1.tbl = .visitor)).map (fun e => e.1.k))).map Str.toString)
  let names := ",".intercalate ((relSort (s.names.map (fun e => e.1 ++ rrEq :: Str.ofString (toString e.2)))).map Str.toString)
  let quota := ",".intercalate (((List.range rrNumSessions).map (· + 1)).map (fun sid => s!"{sid}={s.quotaOf sid}"))
  s!"tcp[{rrPortTbl s .tcp}]udp[{rrPortTbl s .udp}]http[{http}]visitor[{vis}]names[{names}]quota[{quota}]"

def rrRes : Res → String
  | .parked .checked => "at:checked"
  | .parked .ran => "at:ran"
  | .ok => "ok"
  | .quota => "err:quota"
  | .exists_ => "err:exists"
  | .conflict _ => "err:conflict"
  | .inuse => "err:inuse"
  | .busy => "busy"
  | .noflight => "noflight"
  | .done => "-"

/-- follow the implementation's answer on its own record -/
def rrRecBegin (r : CState) (sid : Nat) (name : Str) (keys : List Key) (n : Nat) (impl : String) : CState :=
  if impl = "at:checked" then
    { r with flights := { sid := sid, name := name, keys := keys, n := n, pc := .checked } :: r.flights.filter (fun f => f.sid ≠ sid) }
  else r

def rrRecStep (r : CState) (sid : Nat) (impl : String) : CState :=
  match r.flights.find? (fun f => f.sid = sid) with
  | none => r
  | some f =>
    let rest := r.flights.filter (fun g => g.sid ≠ sid)
    if impl = "at:ran" then
      { r with flights := { f with pc := .ran } :: rest, held := f.keys.map (fun k => (k, ⟨sid, f.name⟩)) ++ r.held }
    else if impl = "ok" then
      { r with flights := rest, names := (f.name, sid) :: r.names, own := ⟨sid, f.name, f.n⟩ :: r.own }
    else if impl.startsWith "err:" then
      { r with flights := rest, held := r.held.filter (fun e => e.2 ≠ ⟨sid, f.name⟩) }
    else r

def rrRecClose (r : CState) (sid : Nat) (name : Str) : CState :=
  if r.own.any (fun o => o.sid = sid ∧ o.name = name) then r.dropProxy sid name else r

def rrRecEnd (r : CState) (sid : Nat) : CState :=
  { r with held := r.held.filter (fun e => e.2.sid ≠ sid),
           names := r.names.filter (fun e => e.2 ≠ sid),
           own := r.own.filter (fun o => o.sid ≠ sid) }

def regraceStep (st : RrState) (tok : List String) (impl : String) : RrState × Verdict :=
  match tok with
  | ["reset", m] =>
    match m.toNat? with
    | some m => ({ s := CState.init m, acct := CState.init m }, verdictOf "-" impl)
    | none => (st, .bad "reset")
  | "begin" :: sid :: name :: typ :: args =>
    let nm := Str.ofString name
    match sid.toNat?, rrKeys nm typ args with
    | some sid, some (keys, n) =>
      let (s', res) := st.s.begin sid nm keys n
      let acc := C10.Conc.accounted st.acct
      let prop : Bool :=
        if impl = "err:quota" then C10.Conc.quotaRefusalJustified acc sid n
        else if impl = "err:exists" then acc.nameTaken nm
        else if impl = "at:checked" then !C10.Conc.quotaRefusalJustified acc sid n && !acc.nameTaken nm
        else impl = "busy"
      ({ st with s := s', acct := rrRecBegin st.acct sid nm keys n impl }, verdictOf (rrRes res) impl (some prop))
    | _, _ => (st, .bad "begin")
  | ["step", sid] =>
    match sid.toNat? with
    | some sid =>
      let (d', res) := st.d.step sid
      let acc := C10.Conc.accounted st.acct
      let prop : Bool :=
        match st.acct.flights.find? (fun f => f.sid = sid) with
        | none => impl = "noflight"
        | some f =>
          if impl = "at:ran" then f.pc = .checked && C10.Conc.keysFree acc f.keys
          else if impl = "gone" then st.acctEnding.contains sid    -- the session's end was pending
          else if st.acctEnding.contains sid then false            -- a closed connection delivers no answer
          else if impl = "err:conflict" then f.pc = .checked && !C10.Conc.keysFree acc f.keys
          else if impl = "ok" then f.pc = .ran && !acc.nameTaken f.name
          else if impl = "err:inuse" then f.pc = .ran && acc.nameTaken f.name
          else false
      -- `gone`: whatever the registration's outcome, the session's teardown ran after it: nothing of the
      -- session is accounted for any more
      let acct' := if impl = "gone" then
          { rrRecEnd st.acct sid with flights := st.acct.flights.filter (fun f => f.sid ≠ sid) }
        else rrRecStep st.acct sid impl
      let ae := if impl = "gone" then st.acctEnding.filter (· ≠ sid) else st.acctEnding
      ({ s := d'.c, ending := d'.ending, acct := acct', acctEnding := ae }, verdictOf (rrDRes res) impl (some prop))
    | none => (st, .bad "step")
  | ["close", sid, name] =>
    match sid.toNat? with
    | some sid =>
      let (s', res) := st.s.close sid (Str.ofString name)
      let acct' := if impl = "-" then rrRecClose st.acct sid (Str.ofString name) else st.acct
      ({ st with s := s', acct := acct' }, verdictOf (rrRes res) impl)
    | none => (st, .bad "close")
  | ["endsess", sid] =>
    match sid.toNat? with
    | some sid =>
      let (d', res) := st.d.drop sid
      let acct' := if impl = "-" then rrRecEnd st.acct sid else st.acct
      let ae := if impl = "pending" && !st.acctEnding.contains sid then sid :: st.acctEnding else st.acctEnding
      -- `pending` is only justified while a registration of the session is in flight
      let prop : Bool :=
        if impl = "pending" then st.acct.flights.any (fun f => f.sid = sid)
        else if impl = "-" then !st.acct.flights.any (fun f => f.sid = sid)
        else false
      ({ s := d'.c, ending := d'.ending, acct := acct', acctEnding := ae }, verdictOf (rrDRes res) impl (some prop))
    | none => (st, .bad "endsess")
  | ["view"] =>
    -- exact comparison with the model; the property is judged on the implementation's dump against
    -- what its own answers account for
    (st, verdictOf (rrView st.s) impl (some (rrView (C10.Conc.accounted st.acct) = impl)))
  | _ => (st, .bad "op")

def regrace : Engine := { State := RrState, init := {}, step := regraceStep }

end Engines
end Frp
