import Frp.Driver.Proto
import Frp.Props.C04
import Frp.Model.Md5
/-
  Driver engine "peer" (C04): replays the trace of harness/eng_peer.go (a scripted raw peer against a
  real server.Service) on `Frp.AuthGate` and evaluates `C04.holdsOn` on what the implementation did.

  `H` is the driver's own MD5 (`Frp.Md5`): hex(md5(token ++ decimal ts)) of the token of the episode (`reset t … <token>`:
  0 … 200 bytes, any bytes); every op line also carries the digest the harness computed with crypto/md5 (`exp`), and the
  two must agree (else the line is BAD: the oracles, not frp, would be broken).  frp's util.GetAuthKey is a third
  party: what frps accepts is compared with this, and ops `authkey` / `authkey2` evaluate the function itself.  OIDC: in `o` episodes the verifier is the
  harness's stub ("s:<subject>" = a well-formed, well-signed token of that subject; every check switched
  off); in `O` episodes frps runs the real go-oidc verifier against the harness's provider and the op line
  names the claims of the token the real `OidcAuthProvider` obtained (`ologin` / `oping` / `owork`): the model
  decides at claim level (`AuthGate.oidcVerify`).  `S` episodes: frps with the ssh tunnel gateway; `ssh` ops
  are replayed with `AuthGate.gwTunnel`, the authorized_keys content is state (`akset`).
  Run ids chosen by frps (`util.RandID`) are taken from the implementation's answer
  (relational: the model checks the rest of the outcome and continues from the observed id).
-/
namespace Frp
namespace Engines
open Proto AuthGate

/-- the token an `ologin` / `oping` / `owork` line describes (harness/eng_peer_auth.go) -/
structure PeerSpec where
  client : Str
  secok : Bool
  caud : Str
  audx : Str
  iss : String
  exp : String
  nbf : String
  sig : String

def peerSpec : List String → Option PeerSpec
  | [client, secok, caud, audx, _scope, iss, exp, nbf, sig] =>
    match unhx client, unhx caud, unhx audx with
    | some client, some caud, some audx =>
      some { client := client, secok := secok = "1", caud := caud, audx := audx, iss := iss, exp := exp, nbf := nbf, sig := sig }
    | _, _, _ => none
  | _ => none

structure PeerState where
  cfg  : Cfg := { method := .token, hb := false, wc := false, token := Str.ofString "s3cr3t-tok", maxPool := 5 }
  srv  : Srv := Srv.empty
  pre  : Srv := Srv.empty                    -- model state before the last op
  rids : List (String × RunId) := []         -- cid ↦ run id a successful login on cid got
  lastRefused : Bool := false                -- the implementation refused the last attempt
  implDump : Option String := none           -- the implementation's own last table dump
  quiet : Bool := false                      -- every op since that dump was an attempt the implementation refused
  quietLen : Nat := 0                        -- … and how many of them there were (dumps in between do not count)
  diverged : Bool := false                   -- model and implementation disagreed earlier in this episode: predicates
                                             -- that need the model's tables are no longer evaluated
  real : Bool := false                       -- `O` episode: keys are JWTs; a raw key is not one
  gw : Bool := false                         -- `S` episode: the ssh tunnel gateway is enabled
  akSet : Bool := false                      -- `S` episode: authorizedKeysFile configured
  ak : Option (List (PubKey × Str)) := none  -- what loadAuthorizedKeysFromFile returns now (none = error)
  now : Int := 0                             -- `O` / `C` episodes: the clock (seconds since the reset)
  jwks : Option (List Jwk) := some [1]       -- what the provider's jwks_uri serves now (none = the request fails)
  cache : List Jwk := []                     -- go-oidc RemoteKeySet.cachedKeys of the verifier of this episode
  toks : List (String × PeerSpec × Int) := [] -- minted tokens kept for replay: id ↦ (spec, clock when minted)
  hbT : Nat := 0                             -- transport.heartbeatTimeout in ms when the episode runs in real time (0: 90 s, never reached)
  idle : List (Nat × Nat) := []              -- control connection ↦ ms of `wait` since its login / last heartbeat the MODEL accepted

/-- slack of the real-time episodes: the watchdog (a 1 s ticker comparing `time.Since(lastPing)` with the timeout) may
    fire from `timeout - early` of model time on (operations take real time the model does not count) and must have
    fired and removed the session by `timeout + late` -/
def peerHbEarly : Nat := 500
def peerHbLate : Nat := 2000

def PeerState.idleOf (st : PeerState) (c : Nat) : Nat := (st.idle.lookup c).getD 0
def PeerState.touch (st : PeerState) (c : Nat) : PeerState := { st with idle := (c, 0) :: st.idle.filter (·.1 ≠ c) }

def peerCid (t : String) : Option Nat :=
  match t.toList with
  | 'c' :: rest => (String.ofList rest).toNat?
  | _ => none

/-- the harness's stub of go-oidc: "s:<subject>" with a non-empty subject -/
def peerStub (k : Key) : Option Subject :=
  match k with
  | 115 :: 58 :: c :: rest => some (c :: rest)
  | _ => none

def peerStubClaims (k : Key) : Option Claims :=
  (peerStub k).map fun sub => { iss := [], aud := [], sub := sub, exp := 0, nbf := none }

/-- util.GetAuthKey as specified: hex(md5(token ++ strconv.FormatInt(ts, 10))), with the driver's own MD5 -/
def peerH (tok : Str) (ts : Int) : Key := Md5.hexDigest (tok ++ Str.ofString (toString ts))

/-- raw keys: the token digest is the driver's MD5; as an OIDC key a raw string is the stub's token in `o` episodes
    and not a JWT at all in `O` episodes -/
def peerPrimR (real : Bool) : Prim :=
  { H := peerH, jwtClaims := fun k => if real then none else peerStubClaims k,
    jwtSigOk := fun _ => !real, now := 0 }

def peerToken : Str := Str.ofString "s3cr3t-tok"
def peerIss : Str := Str.ofString "ISSUER"
def peerOtherIss : Str := Str.ofString "OTHER-ISSUER"
def peerDefaultAud : Str := Str.ofString "default-aud"

/-- `base` = the clock when the token was minted.  exp: f = +1 h, p = -1 h, s = +3 s, e = the very second of
    minting, z = no claim (the zero time); nbf: p = -1 h, s = +2 min, l = +5 min (exactly the leeway), m = +5 min 1 s,
    f = +1 h, n = none -/
def PeerSpec.claims (sp : PeerSpec) (base : Int) : Option Claims :=
  if sp.sig = "raw" then none else
  some { iss := if sp.iss = "g" then peerIss else if sp.iss = "b" then peerOtherIss else [],
         aud := (if sp.audx = [] then [] else [sp.audx]) ++ [if sp.caud = [] then peerDefaultAud else sp.caud],
         sub := sp.client,
         exp := if sp.exp = "f" then base + 3600 else if sp.exp = "p" then base - 3600
                else if sp.exp = "s" then base + 3 else if sp.exp = "e" then base else -62135596800,
         nbf := if sp.nbf = "p" then some (base - 3600) else if sp.nbf = "s" then some (base + 120)
                else if sp.nbf = "l" then some (base + 300) else if sp.nbf = "m" then some (base + 301)
                else if sp.nbf = "f" then some (base + 3600) else none }

/-- the setter cannot obtain a token: wrong client secret / a response without access_token -/
def PeerSpec.setErr (sp : PeerSpec) : Bool := !sp.secok || sp.sig = "empty"

/-- keys of spec ops: `[1]` stands for the minted token, `[]` for "the setter left the key empty".
    Outside `O` episodes (a shrunk sequence that lost its reset) the token goes to a token / stub verifier,
    for which a JWT is just a wrong key. -/
def peerPT (real : Bool) (sp : PeerSpec) (base : Int) : PrimT :=
  { H := fun _ _ => [0], jwtClaims := fun k => if k = [] || !real then none else sp.claims base,
    -- RS256 with one signature: parses; alg none / HS256 do not
    jwsOk := fun k => k ≠ [] && sp.sig ∈ ["k1", "k2", "k2as1", "bad", "swap"],
    -- k1 / k2: kid and signature of that key; k2as1 (kid k1, signed by k2), bad, swap verify with no key
    sigBy := fun k j => k ≠ [] && ((sp.sig = "k1" && j = 1) || (sp.sig = "k2" && j = 2)) }

def PeerState.idp (st : PeerState) : Idp := { now := st.now, jwks := st.jwks, cache := st.cache }

/-- the primitives at the moment of this op: the clock, the published keys and the verifier's cache as they are -/
def peerPrimS (st : PeerState) (sp : PeerSpec) (base : Int) : Prim := primAt (peerPT st.real sp base) st.idp

/-- the verifier's key cache after the event (go-oidc refetches the key set when no cached key verifies) -/
def peerCacheAfter (st : PeerState) (sp : PeerSpec) (base : Int) (e : Ev) : List Jwk :=
  match verifiedKey workVerifierIsFixed Plugins.id st.cfg st.srv e with
  | some k => cacheAfterVerify (peerPT st.real sp base) st.cfg.oidc st.idp k
  | none => st.cache

/-- ssh ops: the virtual client's key is `GetAuthKey(--token, now)`; only equality of tokens matters -/
def peerPrimG : Prim := { H := fun tok _ => tok, jwtClaims := fun _ => none, jwtSigOk := fun _ => false, now := 0 }

def peerKeyA : PubKey := [65]
def peerKeyB : PubKey := [66]
def peerKeyC : PubKey := [67]

def peerAkMode : String → Option (Option (List (PubKey × Str)))
  | "AB" => some (some [(peerKeyA, Str.ofString "alice"), (peerKeyB, [])])
  | "A" => some (some [(peerKeyA, Str.ofString "alice")])
  | "B" => some (some [(peerKeyB, [])])
  | "A2" => some (some [(peerKeyA, Str.ofString "alice"), (peerKeyB, []), (peerKeyA, Str.ofString "zed")])
  | "empty" => some (some [])
  | "garbage" => some none
  | "missing" => some none
  | _ => none

def peerRidref (st : PeerState) (t : String) : Option RunId :=
  match t.toList with
  | '@' :: rest =>
    match st.rids.lookup (String.ofList rest) with
    | some r => some r
    | none => some (Str.ofString ("unknown-" ++ String.ofList rest))
  | _ => unhx t

def insertSess (s : Session) : List Session → List Session
  | [] => [s]
  | t :: rest => if Str.lt s.runId t.runId then s :: t :: rest else t :: insertSess s rest

def insertStr (a : Str) : List Str → List Str
  | [] => [a]
  | b :: rest => if Str.lt a b then a :: b :: rest else b :: insertStr a rest

def peerRender (srv : Srv) : String :=
  if srv.sessions.isEmpty then "empty" else
  let ss := srv.sessions.foldr insertSess []
  ";".intercalate (ss.map fun s =>
    s!"{hx s.runId},{if s.vk = .alwaysPass then "1" else "0"},{s.pool.length},{s.poolCap},{s.lastPing},{"+".intercalate ((s.proxies.foldr insertStr []).map hx)}")

def peerIsNet (tr : String) : Bool := tr ∈ ["tcp", "tls", "ws", "wst", "kcp", "quic", "tcpn"]

/-- the digest on the op line (harness, crypto/md5) is the driver's for the token of this episode -/
def peerOracleOk (cfg : Cfg) (ts : Int) (exp : Key) : Bool :=
  cfg.method != .token || exp = peerH cfg.token ts

/-- `pw<x…>` / `kbd<x…>`: the password / the answer to every keyboard-interactive question -/
def peerSshReq (t : String) : Option SshAuth :=
  if t = "A" then some (.pubkey peerKeyA true)
  else if t = "B" then some (.pubkey peerKeyB true)
  else if t = "C" then some (.pubkey peerKeyC true)
  else if t = "Af" then some (.pubkey peerKeyA false)
  else if t = "Cf" then some (.pubkey peerKeyC false)
  else if t = "gss" then some .gssapi
  else if t.startsWith "pw" then (unhx (t.drop 2).toString).map .password
  else if t.startsWith "kbd" then (unhx (t.drop 3).toString).map (fun a => .kbd [a])
  else none

/-- what the ssh client of the harness sends: "none" first (every client does), then the listed methods in order;
    `none` alone = no further method -/
def peerSshReqs (spec : String) : Option (List SshAuth) :=
  if spec = "none" then some [.none]
  else (spec.splitOn "+").foldr (fun t acc => match peerSshReq t, acc with
    | some a, some l => some (a :: l)
    | _, _ => none) (some []) |>.map (fun l => SshAuth.none :: l)

/-- key accepted by the configured method at login -/
def peerLoginKv (pr : Prim) (cfg : Cfg) (ts : Int) (key : Key) : Bool :=
  match cfg.method with
  | .token => decide (pr.H cfg.token ts = key)
  | .oidc => (oidcVerify pr cfg.oidc key).isSome

def peerLogin (st : PeerState) (pr : Prim) (c : Nat) (cid tr : String) (rid : RunId) (ts : Int) (key : Key)
    (aap : Bool) (pool : Nat) (impl : String) : PeerState × Verdict :=
  if !(peerIsNet tr || tr = "int") then (st, .bad "transport") else
  let internal := tr = "int"
  let implRid : Option RunId := if impl.startsWith "ok:" then unhx (impl.drop 3).toString else none
  let m : Login := { runId := rid, ts := ts, key := key, aap := aap, poolCount := pool, genId := implRid.getD [] }
  let (srv', out) := handleFirst Plugins.id pr st.cfg st.srv internal c (.login m)
  let ms := match out.reply with
    | .loginOk r => "ok:" ++ hx r
    | _ => if out.closed then "err:closed" else "err:open"
  let prop : Option Bool :=
    if impl.startsWith "ok:" then some (C04.holdsOn (.sessionCreated internal aap (peerLoginKv pr st.cfg ts key)))
    else if impl = "err:open" then some false      -- refused but left open
    else none
  let rids' := match out.reply with
    | .loginOk r => (cid, r) :: st.rids
    | _ => st.rids
  let st1 := match out.reply with
    | .loginOk _ => st.touch c
    | _ => st
  ({ st1 with srv := srv', pre := st.srv, rids := rids', lastRefused := !impl.startsWith "ok:" },
   verdictOf ms impl prop)

def peerWork (st : PeerState) (pr : Prim) (c : Nat) (tr : String) (rid : RunId) (ts : Int) (key : Key)
    (impl : String) : PeerState × Verdict :=
  if !(peerIsNet tr || tr = "int") then (st, .bad "transport") else
  let internal := tr = "int"
  let m : WorkConn := { runId := rid, ts := ts, key := key }
  let sess := lookup st.srv rid
  let sessAp := match sess with | some s => decide (s.vk = .alwaysPass) | none => false
  let (srv', out) := handleFirst Plugins.id pr st.cfg st.srv internal c (.work m)
  let ms :=
    if !out.closed then (if sessAp then "pooled:ap" else "pooled")
    else match out.reply with
      | .startWorkErr => "refused:closed"
      | _ => "closed"
  let implPooled := impl.startsWith "pooled"
  let prop : Option Bool :=
    if st.diverged then none else
    if implPooled then
      some (C04.holdsOn (.pooled sess.isSome internal sessAp st.cfg.wc
              (keyOk pr st.cfg st.srv.subjects ts key)))
    else if impl = "refused:open" || impl = "timeout" then some false  -- refused but left open / neither pooled nor closed
    else none
  ({ st with srv := srv', pre := st.srv, lastRefused := !implPooled }, verdictOf ms impl prop)

def peerPing (st : PeerState) (pr : Prim) (c : Nat) (ts : Int) (key : Key) (impl : String) : PeerState × Verdict :=
  let sess := byCtl st.srv c
  let sessAp := match sess with | some s => decide (s.vk = .alwaysPass) | none => false
  let (srv', out) := handlePing Plugins.id pr st.cfg st.srv c { ts := ts, key := key }
  let ms := match out.reply with
    | .pongOk => "pong:ok:moved"
    | .pongErr => "pong:err:same"
    | _ => "gone"
  let prop : Option Bool :=
    if st.diverged then none else
    if impl.endsWith ":moved" then
      some (C04.holdsOn (.pingMoved sessAp st.cfg.hb (keyOk pr st.cfg st.srv.subjects ts key)))
    else none
  let st1 := if out.reply = .pongOk then st.touch c else st
  ({ st1 with srv := srv', pre := st.srv, lastRefused := impl = "pong:err:same" }, verdictOf ms impl prop)

/-- spec ops (a token minted now or replayed): the op itself, then the key cache -/
def peerSpecLogin (st : PeerState) (sp : PeerSpec) (base : Int) (c : Nat) (cid tr : String) (rid : RunId) (aap : Bool)
    (pool : Nat) (impl : String) : PeerState × Verdict :=
  let (st', v) := peerLogin st (peerPrimS st sp base) c cid tr rid 0 [1] aap pool impl
  let m : Login := { runId := rid, ts := 0, key := [1], aap := aap, poolCount := pool, genId := [] }
  ({ st' with cache := peerCacheAfter st sp base (.first (tr = "int") c (.login m)) }, v)

def peerSpecWork (st : PeerState) (sp : PeerSpec) (base : Int) (c : Nat) (tr : String) (rid : RunId) (key : Key)
    (impl : String) : PeerState × Verdict :=
  let (st', v) := peerWork st (peerPrimS st sp base) c tr rid 0 key impl
  ({ st' with cache := peerCacheAfter st sp base (.first (tr = "int") c (.work { runId := rid, ts := 0, key := key })) }, v)

def peerSpecPing (st : PeerState) (sp : PeerSpec) (base : Int) (c : Nat) (key : Key) (impl : String) :
    PeerState × Verdict :=
  let (st', v) := peerPing st (peerPrimS st sp base) c 0 key impl
  ({ st' with cache := peerCacheAfter st sp base (.ping c { ts := 0, key := key }) }, v)

def peerJwksMode : String → Option (Option (List Jwk))
  | "k1" => some (some [1])
  | "k2" => some (some [2])
  | "k1k2" => some (some [1, 2])
  | "none" => some (some [])
  | "fail" => some none
  | _ => none

def peerStep1 (st : PeerState) (tok : List String) (impl : String) : PeerState × Verdict :=
  match tok with
  | "reset" :: m :: hb :: wc :: extra =>
    let base : Cfg := { method := if m = "o" || m = "O" || m = "C" then Method.oidc else Method.token,
                        hb := hb = "1", wc := wc = "1", token := peerToken, maxPool := 5 }
    match m, extra with
    | "t", [] => ({ cfg := base }, verdictOf "-" impl)
    | "t", [tk] | "t", [tk, _] =>
      -- the token of this episode; the second extra (tcpMux on / off) does not concern the model
      match unhx tk with
      | some tk => ({ cfg := { base with token := tk } }, verdictOf "-" impl)
      | none => (st, .bad "reset")
    | "t", [tk, _, hbto] =>
      match unhx tk, hbto.toNat? with
      | some tk, some secs => ({ cfg := { base with token := tk }, hbT := secs * 1000 }, verdictOf "-" impl)
      | _, _ => (st, .bad "reset")
    | "o", [] =>
      -- the stub verifier: no issuer / audience / expiry involved
      ({ cfg := { base with oidc := { skipExpiry := true, skipIssuer := true } } }, verdictOf "-" impl)
    | "O", [aud, se, si] | "C", [aud, se, si] =>
      match unhx aud with
      | some aud =>
        ({ cfg := { base with oidc := { issuer := peerIss, audience := aud, skipExpiry := se = "1", skipIssuer := si = "1" } },
           real := true }, verdictOf "-" impl)
      | none => (st, .bad "reset")
    | "S", [ak] =>
      ({ cfg := base, gw := true, akSet := ak = "1", ak := if ak = "1" then (peerAkMode "AB").getD none else none },
       verdictOf "-" impl)
    | _, _ => (st, .bad "reset")
  | ["login", cid, tr, rid, ts, key, exp, aap, pool] =>
    match peerCid cid, unhx rid, ts.toInt?, unhx key, unhx exp, pool.toNat? with
    | some c, some rid, some ts, some key, some exp, some pool =>
      if !peerOracleOk st.cfg ts exp then (st, .bad "oracle: harness md5 /= driver md5") else
      peerLogin st (peerPrimR st.real) c cid tr rid ts key (aap = "1") pool impl
    | _, _, _, _, _, _ => (st, .bad "login")
  | "ologin" :: cid :: tr :: rid :: aap :: pool :: spec =>
    match peerCid cid, unhx rid, pool.toNat?, peerSpec spec with
    | some c, some rid, some pool, some sp =>
      if sp.setErr then ({ st with pre := st.srv, lastRefused := false }, verdictOf "seterr" impl)
      else peerSpecLogin st sp st.now c cid tr rid (aap = "1") pool impl
    | _, _, _, _ => (st, .bad "ologin")
  | ["tlogin", cid, tr, rid, aap, pool, tid] =>
    match peerCid cid, unhx rid, pool.toNat? with
    | some c, some rid, some pool =>
      match st.toks.lookup tid with
      | some (sp, base) => peerSpecLogin st sp base c cid tr rid (aap = "1") pool impl
      | none => ({ st with pre := st.srv, lastRefused := true }, verdictOf "notok" impl)
    | _, _, _ => (st, .bad "tlogin")
  | ["twork", cid, tr, ref, tid] =>
    match peerCid cid, peerRidref st ref with
    | some c, some rid =>
      match st.toks.lookup tid with
      | some (sp, base) => peerSpecWork st sp base c tr rid [1] impl
      | none => ({ st with pre := st.srv, lastRefused := true }, verdictOf "notok" impl)
    | _, _ => (st, .bad "twork")
  | ["tping", cid, tid] =>
    match peerCid cid with
    | some c =>
      match st.toks.lookup tid with
      | some (sp, base) => peerSpecPing st sp base c [1] impl
      | none => ({ st with pre := st.srv, lastRefused := true }, verdictOf "notok" impl)
    | none => (st, .bad "tping")
  | "omint" :: tid :: spec =>
    match peerSpec spec with
    | some sp =>
      if sp.setErr then ({ st with pre := st.srv, lastRefused := true }, verdictOf "seterr" impl)
      else ({ st with toks := (tid, sp, st.now) :: st.toks, pre := st.srv, lastRefused := true }, verdictOf "-" impl)
    | none => (st, .bad "omint")
  | ["okeys", mode] =>
    match peerJwksMode mode with
    | some j => ({ st with jwks := j, pre := st.srv, lastRefused := true }, verdictOf "-" impl)
    | none => (st, .bad "okeys")
  | ["oclock", d] =>
    match d.toNat? with
    | some d => ({ st with now := st.now + d, pre := st.srv, lastRefused := true }, verdictOf "-" impl)
    | none => (st, .bad "oclock")
  | ["work", cid, tr, ref, ts, key, exp] =>
    match peerCid cid, peerRidref st ref, ts.toInt?, unhx key, unhx exp with
    | some c, some rid, some ts, some key, some exp =>
      if !peerOracleOk st.cfg ts exp then (st, .bad "oracle: harness md5 /= driver md5") else
      peerWork st (peerPrimR st.real) c tr rid ts key impl
    | _, _, _, _, _ => (st, .bad "work")
  | "owork" :: cid :: tr :: ref :: cscope :: spec =>
    match peerCid cid, peerRidref st ref, peerSpec spec with
    | some c, some rid, some sp =>
      if cscope = "1" && sp.setErr then ({ st with pre := st.srv, lastRefused := false }, verdictOf "seterr" impl)
      else peerSpecWork st sp st.now c tr rid (if cscope = "1" then [1] else []) impl
    | _, _, _ => (st, .bad "owork")
  | ["visit", cid, tr, ref, _name] =>
    match peerCid cid, peerRidref st ref with
    | some c, some rid =>
      let (srv', out) := handleFirst Plugins.id (peerPrimR st.real) st.cfg st.srv (tr = "int") c (.visitor rid false)
      let ms := match out.reply with
        | .visitorOk => "vok"
        | _ => if out.closed then "verr:closed" else "verr:open"
      ({ st with srv := srv', pre := st.srv, lastRefused := impl ≠ "vok" }, verdictOf ms impl)
    | _, _ => (st, .bad "visit")
  | ["first", cid, tr, kind] =>
    match peerCid cid with
    | some c =>
      let garbage := kind ∈ ["badtype", "zerotype", "biglen", "neglen", "badjson", "emptybody", "wrongshape"]
      let (srv', out) := handleFirst Plugins.id (peerPrimR st.real) st.cfg st.srv (tr = "int") c
        (if garbage then .garbage else .other)
      ({ st with srv := srv', pre := st.srv, lastRefused := impl = "closed" },
       verdictOf (if out.closed then "closed" else "open") impl (if impl = "open" then some false else none))
    | none => (st, .bad "first")
  | ["raw", _] =>
    -- bytes that are not a yamux header on the bare port: the connection never reaches handleConnection
    ({ st with pre := st.srv, lastRefused := impl = "closed" },
     verdictOf "closed" impl (if impl = "open" then some false else none))
  | ["ping", cid, ts, key, exp] =>
    match peerCid cid, ts.toInt?, unhx key, unhx exp with
    | some c, some ts, some key, some exp =>
      if !peerOracleOk st.cfg ts exp then (st, .bad "oracle: harness md5 /= driver md5") else
      peerPing st (peerPrimR st.real) c ts key impl
    | _, _, _, _ => (st, .bad "ping")
  | "oping" :: cid :: cscope :: spec =>
    match peerCid cid, peerSpec spec with
    | some c, some sp =>
      if cscope = "1" && sp.setErr then ({ st with pre := st.srv, lastRefused := false }, verdictOf "seterr" impl)
      else peerSpecPing st sp st.now c (if cscope = "1" then [1] else []) impl
    | _, _ => (st, .bad "oping")
  | ["akset", mode] =>
    if !st.gw then (st, verdictOf "nogw" impl) else
    if !st.akSet then (st, verdictOf "noak" impl) else
    match peerAkMode mode with
    | some f => ({ st with ak := f, pre := st.srv, lastRefused := false }, verdictOf "-" impl)
    | none => (st, .bad "akset")
  | ["ssh", cid, auth, ptype, name, user, token] =>
    if !st.gw then ({ st with pre := st.srv, lastRefused := false }, verdictOf "nogw" impl) else
    match peerCid cid, peerSshReqs auth, unhx name, unhx user, unhx token with
    | some c, some reqs, some name, some user, some token =>
      let parts := impl.splitOn ":"
      let implUp := impl.startsWith "up:" && parts.length = 5
      let implRid : RunId := if implUp then (unhx (parts.getD 1 "")).getD [] else []
      let cmd : Option GwCmd :=
        if ptype = "tcp" || ptype = "stcp" then some { name := name, user := user, token := token } else none
      -- the virtual client's connections are not the harness's: ids out of the range of `cid`s
      let t : Tunnel := { reqs := reqs, file := st.ak, cmd := cmd, conn := c + 1000000, wconn := c + 500000, ts := 0, genId := implRid }
      let (srv', out) := gwTunnel workVerifierIsFixed Plugins.id peerPrimG st.cfg st.akSet st.srv t
      let ms := match out with
        | .authFail => "authfail"
        | .closed => "closed"
        | .up rid pname =>
          match lookup srv' rid with
          | some s =>
            let e := if ptype = "tcp" && !s.pool.isEmpty then "e1" else "e-"
            s!"up:{hx rid}:{hx pname}:{if s.vk = .alwaysPass then "1" else "0"}:{e}"
          | none => "up:lost"
      let prop : Option Bool :=
        if implUp then
          some (C04.holdsOn (.sshSession st.akSet (sshHandshake st.akSet st.ak reqs).isSome
                  (decide (st.cfg.token = token)) (parts.getD 3 "" = "1")))
        else if impl = "closed:residue" then some false       -- the tunnel is gone and something stayed behind
        else none
      let rids' := match out with
        | .up r _ => (cid, r) :: st.rids
        | _ => st.rids
      ({ st with srv := srv', pre := st.srv, rids := rids', lastRefused := !implUp }, verdictOf ms impl prop)
    | _, _, _, _, _ => (st, .bad "ssh")
  | ["sshclose", cid] =>
    match peerCid cid with
    | some c => ({ st with srv := (sessionEnd st.srv (c + 1000000)).1, pre := st.srv, lastRefused := false }, verdictOf "-" impl)
    | none => (st, .bad "sshclose")
  | ["uconn", name] =>
    match unhx name with
    | some name =>
      match proxyOwner st.srv name with
      | none => ({ st with pre := st.srv, lastRefused := false }, verdictOf "noproxy" impl)
      | some s =>
        -- relational: the implementation says which of the harness's pooled connections got the user
        let implC : Option Nat :=
          if impl.startsWith "e1:" || impl.startsWith "e0:" then peerCid (impl.drop 3).toString else none
        match (takeWork st.srv name).2 with
        | none => ({ st with pre := st.srv, lastRefused := false }, verdictOf "e0" impl)
        | some h =>
          let chosen := match implC with
            | some x => if x ∈ s.pool then x else h
            | none => h
          -- connections queued before the chosen one were taken and found dead by frps (`GetWorkConnFromPool` retries)
          let pool' := (s.pool.dropWhile (· ≠ chosen)).drop 1
          let srv' := updSession st.srv s.runId (fun x => { x with pool := pool' })
          let prop : Option Bool :=
            if st.diverged then none else
            match implC with
            | some x => some (C04.holdsOn (.userServed (decide (x ∈ s.pool))))
            | none => none
          ({ st with srv := srv', pre := st.srv, lastRefused := false }, verdictOf s!"e1:c{chosen}" impl prop)
    | none => (st, .bad "uconn")
  | ["tproxy", cid, name] | ["nproxy", cid, name] =>
    match peerCid cid, unhx name with
    | some c, some name =>
      let (srv', out) := handleNewProxy st.srv c name
      let ms := match out.reply with
        | .proxyOk => "ok"
        | .proxyErr => "err"
        | _ => "gone"
      -- a proxy registered although no session owns this connection: the property fails
      let prop : Option Bool := if impl = "ok" && !st.diverged then some (byCtl st.srv c).isSome else none
      ({ st with srv := srv', pre := st.srv, lastRefused := false }, verdictOf ms impl prop)
    | _, _ => (st, .bad "nproxy")
  | ["cproxy", cid, name] =>
    -- CloseProxy has no reply; the harness lets a NewProxy of an unsupported type follow and waits for ITS error
    match peerCid cid, unhx name with
    | some c, some name =>
      let (srv', out) := handleCloseProxy st.srv c name
      ({ st with srv := srv', pre := st.srv, lastRefused := false }, verdictOf (if out.closed then "gone" else "ok") impl)
    | _, _ => (st, .bad "cproxy")
  | ["wait", ms] =>
    match ms.toNat? with
    | some d => ({ st with idle := st.srv.sessions.map (fun s => (s.ctl, st.idleOf s.ctl + d)), pre := st.srv,
                           lastRefused := false }, verdictOf "-" impl)
    | none => (st, .bad "wait")
  | ["alive", cid, _hint] =>
    match peerCid cid with
    | some c =>
      match byCtl st.srv c with
      | none => ({ st with pre := st.srv, lastRefused := false }, verdictOf "dead" impl)
      | some _ =>
        let i := st.idleOf c
        let gone : PeerState := { st with srv := (sessionEnd st.srv c).1, pre := st.srv, lastRefused := false }
        if st.hbT = 0 || i + peerHbEarly ≤ st.hbT then
          ({ st with pre := st.srv, lastRefused := false }, verdictOf "alive" impl)
        else if i ≥ st.hbT + peerHbLate then
          -- no heartbeat the model accepts for timeout + 2 s: a session that is still there is being kept alive
          (gone, verdictOf "dead" impl (if impl = "alive" then some false else none))
        else (if impl = "dead" then gone else { st with pre := st.srv, lastRefused := false },
              .skip "inside the watchdog's granularity")
    | none => (st, .bad "alive")
  | ["authkey", tk, ts, exp] =>
    -- util.GetAuthKey(token, ts) itself against the two MD5s that are not frp's
    match unhx tk, ts.toInt?, unhx exp with
    | some tk, some ts, some exp =>
      let ms := peerH tk ts
      if exp ≠ ms then (st, .bad "oracle: harness md5 /= driver md5") else
      ({ st with pre := st.srv, lastRefused := false },
       verdictOf (hx ms) impl (some (C04.holdsOn (.keyFn (impl = hx ms)))))
    | _, _, _ => (st, .bad "authkey")
  | ["authkey2", ta, tb, ts] =>
    -- two tokens, one timestamp: equal keys only for equal tokens (`C04.KeyInjective` on the implementation)
    match unhx ta, unhx tb, ts.toInt? with
    | some ta, some tb, some ts =>
      let parts := impl.splitOn ":"
      let prop : Option Bool :=
        if parts.length = 2 then some (C04.holdsOn (.keyInj (ta = tb) (parts.getD 0 "" = parts.getD 1 "-"))) else none
      ({ st with pre := st.srv, lastRefused := false },
       verdictOf (hx (peerH ta ts) ++ ":" ++ hx (peerH tb ts)) impl prop)
    | _, _, _ => (st, .bad "authkey2")
  | ["drop", cid] =>
    match peerCid cid with
    | some c => ({ st with srv := (sessionEnd st.srv c).1, pre := st.srv, lastRefused := false }, verdictOf "-" impl)
    | none => (st, .bad "drop")
  | ["dump"] =>
    let ms := peerRender st.srv
    -- after attempts the implementation refused, its tables must be what they were before them: its own
    -- previous dump
    let prop : Option Bool :=
      match st.quiet, st.implDump with
      | true, some d => some (impl = d)
      | _, _ => none
    ({ st with implDump := some impl, lastRefused := true }, verdictOf ms impl prop)
  | _ => (st, .bad "op")

/-- the model accepts the operation (session created / pooled / heartbeat counted / user connection served) -/
def peerAccepts (m : String) : Bool :=
  m.startsWith "ok:" || m.startsWith "pooled" || m = "pong:ok:moved" || m.startsWith "e1:"

def peerStep (st : PeerState) (tok : List String) (implRaw : String) : PeerState × Verdict :=
  -- "!lp": while this operation ran, `Control.lastPing` of some session moved although the operation was not an accepted
  -- heartbeat on it (the harness counts the moves that heartbeats account for): the liveness clause fails on it
  let flagged := implRaw.endsWith "!lp"
  let impl := if flagged then (implRaw.dropEnd 3).toString else implRaw
  -- real-time episodes: an operation on a control connection whose session has had no accepted heartbeat for about
  -- the timeout may find it gone (the watchdog fired: the implementation decides when, within the slack)
  -- (the control connection, what the implementation answers when the session is no longer there)
  let victim : Option (Nat × String) :=
    if st.hbT = 0 then none else
    match tok with
    | ["ping", cid, _, _, _] | ["nproxy", cid, _] | ["tproxy", cid, _] | ["cproxy", cid, _] =>
      match peerCid cid with
      | some c => if (byCtl st.srv c).isSome then some (c, "gone") else none
      | none => none
    | ["work", _, _, ref, _, _, _] =>
      -- a work connection naming the session: an unknown run id is closed without a reply
      match peerRidref st ref with
      | some rid => (lookup st.srv rid).map (fun s => (s.ctl, "closed"))
      | none => none
    | _ => none
  let watchdogFired := match victim with
    | some (c, goneRes) => impl = goneRes && st.idleOf c + peerHbEarly ≥ st.hbT
    | none => false
  if watchdogFired then
    ({ st with srv := (sessionEnd st.srv (victim.getD (0, "")).1).1, pre := st.srv, lastRefused := false,
               quiet := false, quietLen := 0 }, .agree)
  else
  let overdue := match victim with
    | some (c, goneRes) =>
      impl ≠ goneRes && impl ≠ "timeout" && impl ≠ "dialerr" && st.idleOf c ≥ st.hbT + peerHbLate
    | none => false
  let (st', v1a) := peerStep1 st tok impl
  -- the session answers although the model has seen no valid heartbeat on it for timeout + 2 s: it is being kept alive
  let v1 := if !overdue then v1a else
    match v1a with
    | .agree => .diff "gone (heartbeat timeout)" (some false)
    | .diff m _ => .diff m (some false)
    | o => o
  let v0 := if !flagged then v1 else
    match v1 with
    | .agree => .diff "lastPing-unmoved" (some (C04.holdsOn (.lastPingMoved false)))
    | .diff m _ => .diff m (some (C04.holdsOn (.lastPingMoved false)))
    | o => o
  -- "Refused attempts, however many, leave no server state behind and do not disturb existing sessions": after a
  -- run of at least 8 operations all of which the implementation refused (and nothing else since its last table
  -- dump) the state is what it was (`refused_no_residue`), so an operation this state accepts must be accepted.
  let v := match v0 with
    | .diff m none =>
      if st.quiet && st.quietLen ≥ 8 && !st.diverged && peerAccepts m then .diff m (some false) else v0
    | _ => v0
  let isReset := tok.head? = some "reset"
  let isDiff := match v with
    | .diff _ _ => true
    | _ => false
  ({ st' with quiet := if tok = ["dump"] then true else st.quiet && st'.lastRefused && !isReset,
              quietLen := if isReset then 0 else if tok = ["dump"] then st.quietLen
                          else if st.quiet && st'.lastRefused then st.quietLen + 1 else 0,
              implDump := if isReset then none else st'.implDump,
              diverged := !isReset && (st.diverged || isDiff) }, v)

def peer : Engine := { State := PeerState, init := {}, step := peerStep }

end Engines
end Frp
