import Frp.Driver.Proto
import Frp.Props.C04
/-
  Driver engine "peer" (C04): replays the trace of harness/eng_peer.go (a scripted raw peer against a
  real server.Service) on `Frp.AuthGate` and evaluates `C04.holdsOn` on what the implementation did.

  `H` is instantiated per op with the digest the harness computed independently
  (`exp` = md5(token ++ decimal ts) via crypto/md5, not via frp); `oidcVerify` is the harness's stub
  ("s:<subject>").  Run ids chosen by frps (`util.RandID`) are taken from the implementation's answer
  (relational: the model checks the rest of the outcome and continues from the observed id).
-/
namespace Frp
namespace Engines
open Proto AuthGate

structure PeerState where
  cfg  : Cfg := { method := .token, hb := false, wc := false, token := [], maxPool := 5 }
  srv  : Srv := Srv.empty
  pre  : Srv := Srv.empty                    -- model state before the last op
  rids : List (String × RunId) := []         -- cid ↦ run id a successful login on cid got
  lastRefused : Bool := false                -- the implementation refused the last attempt

def peerCid (t : String) : Option Nat :=
  match t.toList with
  | 'c' :: rest => (String.ofList rest).toNat?
  | _ => none

/-- the harness's stub of go-oidc: "s:<subject>" with a non-empty subject -/
def peerStub (k : Key) : Option Subject :=
  match k with
  | 115 :: 58 :: c :: rest => some (c :: rest)
  | _ => none

def peerPrim (exp : Key) : Prim := { H := fun _ _ => exp, oidcVerify := peerStub }

def peerRidref (st : PeerState) (t : String) : Option RunId :=
  match t.toList with
  | '@' :: rest =>
    match st.rids.lookup (String.ofList rest) with
    | some r => some r
    | none => some (Str.ofString ("unknown-" ++ String.ofList rest))
  | _ => unhx t

def insertSess (s : Session) : List Session → List Session
  | [] => [s]
  | t :: rest => if Str.lt s.runId t.runId then s :: t :: rest else t :: insertSess s rest

def insertStr (a : Str) : List Str → List Str
  | [] => [a]
  | b :: rest => if Str.lt a b then a :: b :: rest else b :: insertStr a rest

def peerRender (srv : Srv) : String :=
  if srv.sessions.isEmpty then "empty" else
  let ss := srv.sessions.foldr insertSess []
  ";".intercalate (ss.map fun s =>
    s!"{hx s.runId},{if s.vk = .alwaysPass then "1" else "0"},{s.pool.length},{s.poolCap},{s.lastPing},{"+".intercalate ((s.proxies.foldr insertStr []).map hx)}")

def peerIsNet (tr : String) : Bool := tr ∈ ["tcp", "tls", "ws", "kcp", "quic"]

def peerStep (st : PeerState) (tok : List String) (impl : String) : PeerState × Verdict :=
  match tok with
  | ["reset", m, hb, wc] =>
    let method := if m = "o" then Method.oidc else Method.token
    ({ cfg := { method := method, hb := hb = "1", wc := wc = "1", token := [], maxPool := 5 } }, verdictOf "-" impl)
  | ["login", cid, tr, rid, ts, key, exp, aap, pool] =>
    match peerCid cid, unhx rid, ts.toInt?, unhx key, unhx exp, pool.toNat? with
    | some c, some rid, some ts, some key, some exp, some pool =>
      if !(peerIsNet tr || tr = "int") then (st, .bad "transport") else
      let internal := tr = "int"
      let pr := peerPrim exp
      let implRid : Option RunId := if impl.startsWith "ok:" then unhx (impl.drop 3).toString else none
      let m : Login := { runId := rid, ts := ts, key := key, aap := aap = "1", poolCount := pool,
                         genId := implRid.getD [] }
      let (srv', out) := handleFirst Plugins.id pr st.cfg st.srv internal c (.login m)
      let ms := match out.reply with
        | .loginOk r => "ok:" ++ hx r
        | _ => if out.closed then "err:closed" else "err:open"
      let kv := match st.cfg.method with
        | .token => decide (exp = key)
        | .oidc => (peerStub key).isSome
      let prop : Option Bool :=
        if impl.startsWith "ok:" then some (C04.holdsOn (.sessionCreated internal (aap = "1") kv))
        else if impl = "err:open" then some false      -- refused but left open
        else none
      let rids' := match out.reply with
        | .loginOk r => (cid, r) :: st.rids
        | _ => st.rids
      ({ st with srv := srv', pre := st.srv, rids := rids', lastRefused := !impl.startsWith "ok:" },
       verdictOf ms impl prop)
    | _, _, _, _, _, _ => (st, .bad "login")
  | ["work", cid, tr, ref, ts, key, exp] =>
    match peerCid cid, peerRidref st ref, ts.toInt?, unhx key, unhx exp with
    | some c, some rid, some ts, some key, some exp =>
      if !(peerIsNet tr || tr = "int") then (st, .bad "transport") else
      let internal := tr = "int"
      let pr := peerPrim exp
      let m : WorkConn := { runId := rid, ts := ts, key := key }
      let sess := lookup st.srv rid
      let sessAp := match sess with | some s => decide (s.vk = .alwaysPass) | none => false
      let (srv', out) := handleFirst Plugins.id pr st.cfg st.srv internal c (.work m)
      let ms :=
        if !out.closed then (if sessAp then "pooled:ap" else "pooled")
        else match out.reply with
          | .startWorkErr => "refused:closed"
          | _ => "closed"
      let implPooled := impl.startsWith "pooled"
      let prop : Option Bool :=
        if implPooled then
          some (C04.holdsOn (.pooled sess.isSome internal sessAp st.cfg.wc
                  (keyOk pr st.cfg st.srv.subjects ts key)))
        else if impl = "refused:open" || impl = "timeout" then some false  -- refused but left open / neither pooled nor closed
        else none
      ({ st with srv := srv', pre := st.srv, lastRefused := !implPooled }, verdictOf ms impl prop)
    | _, _, _, _, _ => (st, .bad "work")
  | ["visit", cid, tr, ref, _name] =>
    match peerCid cid, peerRidref st ref with
    | some c, some rid =>
      let (srv', out) := handleFirst Plugins.id (peerPrim []) st.cfg st.srv (tr = "int") c (.visitor rid false)
      let ms := match out.reply with
        | .visitorOk => "vok"
        | _ => if out.closed then "verr:closed" else "verr:open"
      ({ st with srv := srv', pre := st.srv, lastRefused := impl ≠ "vok" }, verdictOf ms impl)
    | _, _ => (st, .bad "visit")
  | ["first", cid, tr, kind] =>
    match peerCid cid with
    | some c =>
      let garbage := kind ∈ ["badtype", "zerotype", "biglen", "neglen", "badjson", "emptybody", "wrongshape"]
      let (srv', out) := handleFirst Plugins.id (peerPrim []) st.cfg st.srv (tr = "int") c
        (if garbage then .garbage else .other)
      ({ st with srv := srv', pre := st.srv, lastRefused := impl = "closed" },
       verdictOf (if out.closed then "closed" else "open") impl (if impl = "open" then some false else none))
    | none => (st, .bad "first")
  | ["raw", _] =>
    -- bytes that are not a yamux header on the bare port: the connection never reaches handleConnection
    ({ st with pre := st.srv, lastRefused := impl = "closed" },
     verdictOf "closed" impl (if impl = "open" then some false else none))
  | ["ping", cid, ts, key, exp] =>
    match peerCid cid, ts.toInt?, unhx key, unhx exp with
    | some c, some ts, some key, some exp =>
      let pr := peerPrim exp
      let sess := byCtl st.srv c
      let sessAp := match sess with | some s => decide (s.vk = .alwaysPass) | none => false
      let (srv', out) := handlePing Plugins.id pr st.cfg st.srv c { ts := ts, key := key }
      let ms := match out.reply with
        | .pongOk => "pong:ok:moved"
        | .pongErr => "pong:err:same"
        | _ => "gone"
      let prop : Option Bool :=
        if impl.endsWith ":moved" then
          some (C04.holdsOn (.pingMoved sessAp st.cfg.hb (keyOk pr st.cfg st.srv.subjects ts key)))
        else none
      ({ st with srv := srv', pre := st.srv, lastRefused := false }, verdictOf ms impl prop)
    | _, _, _, _ => (st, .bad "ping")
  | ["nproxy", cid, name] =>
    match peerCid cid, unhx name with
    | some c, some name =>
      let (srv', out) := handleNewProxy st.srv c name
      let ms := match out.reply with
        | .proxyOk => "ok"
        | .proxyErr => "err"
        | _ => "gone"
      -- a proxy registered although no session owns this connection: the property fails
      let prop : Option Bool := if impl = "ok" then some (byCtl st.srv c).isSome else none
      ({ st with srv := srv', pre := st.srv, lastRefused := false }, verdictOf ms impl prop)
    | _, _ => (st, .bad "nproxy")
  | ["drop", cid] =>
    match peerCid cid with
    | some c => ({ st with srv := (sessionEnd st.srv c).1, pre := st.srv, lastRefused := false }, verdictOf "-" impl)
    | none => (st, .bad "drop")
  | ["dump"] =>
    let ms := peerRender st.srv
    -- after an attempt the implementation refused, its tables must be what they were before it
    let prop : Option Bool := if st.lastRefused then some (impl = peerRender st.pre) else none
    (st, verdictOf ms impl prop)
  | _ => (st, .bad "op")

def peer : Engine := { State := PeerState, init := {}, step := peerStep }

end Engines
end Frp
