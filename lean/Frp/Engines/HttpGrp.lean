import Frp.Driver.Proto
import Frp.Props.C02
import Frp.Engines.Http
/-
  Driver engine "httpgrp" (C02): every declared route option × {no group, first member of a load-balancing group,
  later member} — harness/eng_httpgrp.go drives the real vhost.Routers + HTTPReverseProxy + HTTPGroupController.

  Model: Frp/Model/Router.lean (the table), Frp/Model/HttpGroup.lean (the route a group registers =
  `groupRouteBy Gen.HttpFacts.groupCarried`, the members, the parameter / key checks of (*HTTPGroup).Register),
  Frp/Model/HttpRewrite.lean (what the backend and the user see through a route).  WHICH member serves a request
  (round robin over an atomic counter, pooled connections per endpoint) is taken from the implementation's result;
  `C02.groupHolds` demands that it is a live member of the group the request's route belongs to and that
  `C02.reqHolds` / `C02.respHolds` hold for the options THAT MEMBER DECLARED (and that its credentials were checked).
-/
namespace Frp
namespace Engines
open Proto Str HttpRewrite
open HttpEng (parsePairs parseHdrMap fmtHdr parseBody bodyOfField field pctDecode pathOk targetOf splitTarget userIp stOf)

namespace HttpGrpEng
open HttpGroup (groupRouteBy authOk)

abbrev GRoute := HttpGroup.Route

structure Rec where
  route   : GRoute                 -- what the router holds
  first   : GRoute                 -- what the registering member declared (the group's parameters)
  members : List Nat
  grp     : Option (Str × Str)    -- group name, group key
deriving Repr

structure State where
  R        : Routers := Router.empty
  recs     : List (Nat × Rec) := []          -- router payload ↦ record
  declared : List (Nat × Option Str × GRoute) := []   -- live registration ↦ (group, what it declared)

def findGroup (st : State) (g : Str) : Option (Nat × Rec) :=
  st.recs.find? (fun e => match e.2.grp with | some (n, _) => n = g | none => false)

def setRec (st : State) (p : Nat) (r : Rec) : State :=
  { st with recs := (p, r) :: st.recs.filter (fun e => e.1 ≠ p) }

def dropRec (st : State) (p : Nat) : State := { st with recs := st.recs.filter (fun e => e.1 ≠ p) }

def stepReg (st : State) (id : Nat) (grp : Option Str) (gkey : Str) (m : GRoute) : State × String :=
  match grp with
  | none =>
    match Router.add st.R m.rc.domain m.rc.location m.rc.routeUser id with
    | (R', .ok) =>
      (setRec { st with R := R', declared := (id, none, m) :: st.declared } id { route := m, first := m, members := [id], grp := none }, "ok")
    | (_, .conflict) => (st, "conflict")
  | some g =>
    match findGroup st g with
    | none =>
      -- the first proxy in this group
      match Router.add st.R m.rc.domain m.rc.location m.rc.routeUser id with
      | (R', .ok) =>
        (setRec { st with R := R', declared := (id, some g, m) :: st.declared } id
          { route := groupRouteBy Gen.HttpFacts.groupCarried id m, first := m, members := [id], grp := some (g, gkey) }, "ok")
      | (_, .conflict) => (st, "conflict")
    | some (p, r) =>
      let f := r.first
      if f.rc.domain ≠ m.rc.domain ∨ f.rc.location ≠ m.rc.location ∨ f.rc.routeUser ≠ m.rc.routeUser ∨
         f.httpUser ≠ m.httpUser ∨ f.httpPassword ≠ m.httpPassword then (st, "params")
      else if (r.grp.map (·.2)) ≠ some gkey then (st, "auth")
      else if r.members.contains id then (st, "repeated")
      else (setRec { st with declared := (id, some g, m) :: st.declared } p { r with members := r.members ++ [id] }, "ok")

def stepUnreg (st : State) (id : Nat) : State :=
  match st.declared.find? (fun e => e.1 = id) with
  | none => st
  | some (_, grp, m) =>
    let st := { st with declared := st.declared.filter (fun e => e.1 ≠ id) }
    match grp with
    | none => dropRec { st with R := Router.del st.R m.rc.domain m.rc.location m.rc.routeUser } id
    | some g =>
      match findGroup st g with
      | none => st
      | some (p, r) =>
        let ms := r.members.filter (· ≠ id)
        if ms.isEmpty then
          dropRec { st with R := Router.del st.R r.first.rc.domain r.first.rc.location r.first.rc.routeUser } p
        else setRec st p { r with members := ms }

def declaredOf (st : State) (id : Nat) : Option GRoute :=
  (st.declared.find? (fun e => e.1 = id)).map (·.2.2)

def stepReq (st : State) (cli form method host path query user hs body status rhs rbody keep pw : String) (impl : String) :
    State × Verdict :=
  match cli.toNat?, unhx host, unhx path, (if query = "-" then some none else (unhx query).map some),
        (if user = "-" then some [] else unhx user), (if pw = "-" then some [] else unhx pw), parsePairs hs, parseBody body,
        status.toNat?, parsePairs rhs, parseBody rbody with
  | some cli, some host, some path, some query, some user, some pw, some hs, some (bk, bd), some status, some rhs, some (rk, rbd) =>
    let fs := impl.splitOn " "
    let (reqF, respF) := (fs.takeWhile (· ≠ "!"), (fs.dropWhile (· ≠ "!")).drop 1)
    let q : Req := { method := ofString method, absForm := form = "a", path := path, query := query, host := host,
                     hdr := serverHdr hs, chunked := bk = "ch", body := bd }
    let upath := pctDecode path
    let wellFormed := hs.all (fun kv => kv.1.all tokenByte ∧ kv.1 ≠ []) && pathOk path &&
      (match query with | some qq => queryClean qq | none => true)
    if !wellFormed then (st, .skip "request outside the model's domain (header name / path bytes / unparsable query)") else
    let echo (k : String) : String := (field reqF k).getD "-"
    let implReqB := (field reqF "b").getD "-"
    let implRespB := (field respF "b").getD "-"
    let echoEmpty (b : Str) (implB : String) : String :=
      if b = [] then (if implB.startsWith "0." then implB else "-") else Str.toString b
    let respStr (u : Resp) : String :=
      s!"st={u.status} hd={fmtHdr u.hdr} fr={(field respF "fr").getD "?"} b={echoEmpty u.body implRespB}"
    let r : Resp := { status := status, body := rbd,
                      hdr := parseHdr (rhs ++ (if keep = "1" then [] else [(kConnection, ofString "close")])) }
    let beI := (field reqF "be").bind String.toNat?
    let ustI := (field respF "st").bind String.toNat?
    match (Router.getVhost st.R (HttpPool.canon host) upath user).bind (fun rt => st.recs.lookup rt.payload) with
    | none =>
      -- no route: the not-found page
      let u := userSeesError q.method false
      let model := s!"be=- rt=- c=- ! " ++ respStr u
      let ok : Bool := beI.isNone ∧ ustI = some 404 ∧ (implRespB = "page" ∨ (q.method = ofString "HEAD" ∧ implRespB = "-"))
      (st, verdictOf model impl (some ok))
    | some rec =>
      -- the members of one group declare the same options: the first one's stand for the group when nobody served
      let decl : GRoute := (beI.bind (declaredOf st)).getD rec.first
      if !authOk rec.route user pw then
        -- the 401 challenge of `authorize` (text and headers of http.Error: echoed)
        let model := s!"be=- rt={echo "rt"} c=- ! " ++ " ".intercalate respF
        let ok : Bool := beI.isNone ∧ ustI = some 401 ∧ !authOk decl user pw
        (st, verdictOf (if ustI = some 401 then model else s!"be=- rt={echo "rt"} c=- ! st=401") impl (some ok))
      else
        let rc := some rec.route.rc
        let seen := backendSees rc q (some (userIp cli)) false
        let fr := if seen.body = [] then (field reqF "fr").getD "?" else if seen.chunked then "ch" else "cl"
        let u := userSees rc q.method r
        let implHasCT := match (field respF "hd").bind parseHdrMap with
          | some uh => get uh kCT ≠ []
          | none => true
        let u := if (rk = "ch" ∨ rk = "eof") ∧ get u.hdr kCT = [[42]] ∧ !implHasCT
                 then { u with hdr := del u.hdr kCT } else u
        let beM : String := match beI with
          | some b => if rec.members.contains b then toString b else "?"
          | none => "?"
        let model := s!"be={beM} rt={echo "rt"} ow={echo "ow"} c={echo "c"} m={hx seen.method} t={hx (targetOf seen seen.host)} h={hx seen.host} hd={fmtHdr seen.hdr} fr={fr} b={echoEmpty seen.body implReqB} ! " ++ respStr u
        let prop : Bool :=
          match beI, (field reqF "t").bind unhx, (field reqF "h").bind unhx,
                (field reqF "hd").bind parseHdrMap, (field reqF "m").bind unhx, ustI, (field respF "hd").bind parseHdrMap with
          | some be, some t, some h, some hd, some m, some ust, some uhd =>
            let (abs, p, qq) := splitTarget t
            let seenI : Req := { method := m, absForm := abs, path := p, query := qq, host := h, hdr := hd,
                                 chunked := (field reqF "fr") = some "ch", body := bodyOfField implReqB }
            let useen : Resp := { status := ust, hdr := uhd, body := bodyOfField implRespB }
            let framingOk := seenI.body = [] || ((field reqF "fr") = some (if q.chunked then "ch" else "cl"))
            C02.groupHolds rec.members be
              (authOk decl user pw && C02.reqHolds (some decl.rc) q (userIp cli) seenI && framingOk)
              (C02.respHolds (some decl.rc) q.method r { useen with hdr := useen.hdr.filter (fun e => e.1 ≠ kDate ∧ e.1 ≠ kCT) })
          | _, _, _, _, _, _, _ => false
        (st, verdictOf model impl (some prop))
  | _, _, _, _, _, _, _, _, _, _, _ => (st, .bad "req")

def step (st : State) (tok : List String) (impl : String) : State × Verdict :=
  match tok with
  | ["reset"] => ({}, verdictOf "-" impl)
  | ["reg", id, grp, gkey, d, l, u, rw, hs, rhs, usr, pw] =>
    match id.toNat?, (if grp = "-" then some none else (unhx grp).map some), unhx gkey, unhx d, unhx l, unhx u, unhx rw,
          parsePairs hs, parsePairs rhs, unhx usr, unhx pw with
    | some id, some grp, some gkey, some d, some l, some u, some rw, some hs, some rhs, some usr, some pw =>
      let rc : RouteCfg := { domain := d, location := l, routeUser := u, rewriteHost := rw, headers := hs, respHeaders := rhs }
      let m : GRoute := { rc := rc, httpUser := usr, httpPassword := pw, src := HttpGroup.ConnSrc.own id }
      let (st', out) := stepReg st id grp gkey m
      (st', verdictOf out impl)
    | _, _, _, _, _, _, _, _, _, _, _ => (st, .bad "reg")
  | ["unreg", id] =>
    match id.toNat? with
    | some id => (stepUnreg st id, verdictOf "-" impl)
    | none => (st, .bad "unreg")
  | ["req", cli, form, method, host, path, query, user, hs, body, status, rhs, rbody, keep, pw] =>
    stepReq st cli form method host path query user hs body status rhs rbody keep pw impl
  | _ => (st, .bad "op")

end HttpGrpEng

def httpgrp : Engine := { State := HttpGrpEng.State, init := {}, step := HttpGrpEng.step }

end Engines
end Frp
