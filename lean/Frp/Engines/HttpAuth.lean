import Frp.Driver.Proto
import Frp.Props.C07
import Frp.Props.C07Conn
import Frp.Props.C07Hand
/-
  Driver engine "httpauth" (C07): replays the harness trace on Frp/Model/HttpAuth.lean and evaluates
  the C07 predicates on the implementation's answers.
-/
namespace Frp
namespace Engines
open Proto Router Str HttpAuth

/-- one queued web request: which endpoint (router + configured credentials) and the request as written -/
structure WebItem where
  R      : WebAuth.Router
  cfg    : Creds
  method : Str
  target : Str
  hdr    : Option Str
  ok     : Bool                       -- inside the modelled syntax

structure HttpAuthState where
  T : Table := { R := Router.empty, creds := [] }
  M : Table := { R := Router.empty, creds := [] }
  wq : List WebItem := []             -- web requests queued by `wq`, answered at the next `wflush`
  TM : TmState := TmState.empty       -- the tcpmux muxer with the proxies run on it (`tpx` / `tclose`)
  tsh : Str := []                     -- its subDomainHost (`treset`)
  HO : HoState := HoState.empty       -- the muxer of the hand-off ops (`holisten` / `hoconn` / `hoclose` / `hoaccept`)
  hoL : List (Nat × (Nat × TmListener)) := []   -- harness listener id ↦ (object number, configuration as written)
  hoC : List (Nat × ConnectReq) := []           -- harness connection id ↦ the CONNECT it sent
  HG : HgState := HgState.empty       -- http load-balancing groups (`gjoin` / `gleave` / `greq`)
  hgOwn : List (Nat × Creds) := []    -- proxy ↦ the credentials it is configured with (joins the implementation accepted)

/-- "-" | "m<k>" ↦ none ; "b<k>:<hexu>:<hexp>" ↦ some (u, p) ; "r<hexvalue>" ↦ the parse of the raw value ;
    anything else ↦ malformed token -/
def parseAuthTokT (trim : Bool) (t : String) : Option (Option (Str × Str)) :=
  if t = "-" then some none
  else if t.startsWith "m" then some none
  else if t.startsWith "r" then
    -- the header value byte for byte (`req`, `mreq`: sent over TCP, so textproto trims it); parsed by
    -- net/http `parseBasicAuth` / frp's copies of it (vhost.parseBasicAuth, httppkg.ParseBasicAuth)
    (unhx (t.drop 1).toString).map (fun v => WebAuth.parseBasicAuth (if trim then WebAuth.trimWsp v else v))
  else match t.splitOn ":" with
    | [_, u, p] => match unhx u, unhx p with
      | some u, some p => some (some (u, p))
      | _, _ => none
    | _ => none

/-- header values that travel in an HTTP/1.x message (textproto trims them) -/
def parseAuthTok (t : String) : Option (Option (Str × Str)) := parseAuthTokT true t

/-- header values that travel in an HTTP/2 header block (hpack: byte for byte, nothing is trimmed) -/
def parseAuthTokH2 (t : String) : Option (Option (Str × Str)) := parseAuthTokT false t

def respString : Resp → String
  | .unauthorized => "401"
  | .forward id => s!"fwd:{id}"
  | .notFound => "404"

def parseResp (s : String) : Option Resp :=
  if s = "401" then some .unauthorized
  else if s = "404" then some .notFound
  else if s.startsWith "fwd:" then ((s.drop 4).toString.toNat?).map .forward
  else none

/-- the request targets the model speaks about: origin-form or absolute-form path starting with '/', CONNECT
    without path; printable ASCII without space, '?', '#' (query and fragment are not modelled) -/
def targetInDomain (form : String) (p : Str) : Bool :=
  p.all (fun c => 33 ≤ c && c < 127 && c != 63 && c != 35) &&
  (if form = "c" then p.isEmpty else p.head? = some 47)


/-! ### web endpoints: header-level tokens and observation classes -/

open WebAuth in
/-- the `Authorization` value the harness writes for a token (mirror of `authHeader` in
    harness/eng_httpauth.go): "-" absent, "m<k>" five malformed kinds, "b<k>:<hexuser>:<hexpass>" =
    scheme in casing k, space, base64(user ":" pass), "r<hex>" = the raw value -/
def authTokHeader (t : String) : Option (Option Str) :=
  if t = "-" then some none
  else if t = "m0" then some (some (Str.ofString "Bearer abc"))
  else if t = "m1" then some (some (Str.ofString "Basic !!!"))
  else if t = "m2" then some (some (Str.ofString "Basic"))
  else if t = "m3" then some (some (Str.ofString "Basic YWxpY2U="))
  else if t.startsWith "m" then some (some (Str.ofString "Digest x=y"))
  else if t.startsWith "r" then (unhx (t.drop 1).toString).map some
  else match t.splitOn ":" with
    | [k, u, p] =>
      let scheme := if k = "b0" then some "Basic" else if k = "b1" then some "basic" else if k = "b2" then some "BASIC" else none
      match scheme, unhx u, unhx p with
      | some sc, some u, some p => some (some (Str.ofString sc ++ [32] ++ Base64.encode (u ++ Str.colon :: p)))
      | _, _, _ => none
    | _ => none

/-- header values the model speaks about: what net/http accepts in a field value and textproto leaves alone
    apart from trimming (printable ASCII, SP, HT) -/
def hdrInDomain (v : Str) : Bool := v.all (fun c => (32 ≤ c && c < 127) || c = 9)

open WebAuth in
/-- "-" | "w<k>:<hexvalue>[:<hexvalue>]": the Authorization lines of a request as written (k = spelling of the
    field name: 0-3 letter-case variants of "Authorization", 4 = "Proxy-Authorization", which the web
    endpoints do not read).  Result: `Header.Get("Authorization")`; outer `none` = malformed token -/
def parseWireAuth (t : String) : Option (Option Str × Bool) :=
  if t = "-" then some (none, true)
  else if !t.startsWith "w" then none
  else match t.splitOn ":" with
    | k :: vs =>
      match vs.mapM unhx with
      | some vals =>
        if vals.isEmpty then none
        else some (if k = "w4" then none else headerGet vals, vals.all hdrInDomain)
      | none => none
    | [] => none

def methodInDomain (m : Str) : Bool :=
  !m.isEmpty && m.all (fun c => (65 ≤ c && c ≤ 90) || (97 ≤ c && c ≤ 122))

def webOutString : WebAuth.Out → String
  | .redirect => "301"
  | .notFound => "404"
  | .notAllowed => "405"
  | .unauthorized => "401"
  | .handler _ => "h"

/-- what the model expects for one request: "400" when the target does not decode (net/http answers
    itself), else the router's outcome -/
def webModel (q : WebItem) : String :=
  if !q.ok then "-" else
  match unescapePath q.target with
  | none => "400"
  | some p => webOutString (WebAuth.serve q.R q.cfg ⟨q.method, p, q.hdr⟩)

/-- class of an observed response "<status><flag>" (flag: e = empty body, n = body "404 page not found",
    g = Content-Encoding: gzip set by the gzip wrapper in front of a file handler, o = other body):
    the middleware's 401, the router's own 405 / 404 / clean-path 301, the server's 400 for an undecodable
    target; everything else means a route handler produced the response ("h") -/
def webObs (q : WebItem) (tok : String) : String :=
  if !q.ok then "-" else
  let decoded := unescapePath q.target
  if tok = "401e" || tok = "401o" then "401"
  else if tok = "405e" then "405"
  else if tok = "404n" || tok = "404e" then "404"
  else if tok = "301e" && (match decoded with | some p => WebAuth.cleanPath p != p | none => false) then "301"
  else if tok.startsWith "400" && decoded.isNone then "400"
  else if tok = "err" then "err"
  else "h"

def webProp (q : WebItem) (obs : String) : Bool :=
  if !q.ok then true else
  match unescapePath q.target with
  | none => obs != "h"
  | some p => C07.webHoldsOn q.R q.cfg ⟨q.method, p, q.hdr⟩ (obs == "h")

/-- `wflush`: the queued requests, implementation answers joined by ',' -/
def webStep (qs : List WebItem) (impl : String) : Verdict :=
  let toks := if impl = "-" then [] else impl.splitOn ","
  let ms := qs.map webModel
  let render := fun (l : List String) => if l.isEmpty then "-" else ",".intercalate l
  if toks.length != qs.length then .diff (render ms) none else
  let obs := (qs.zip toks).map (fun x => webObs x.1 x.2)
  let prop := (qs.zip obs).all (fun x => webProp x.1 x.2)
  verdictOf (render ms) (render obs) (some prop)


/-! ### h2c connections and server-side tcpmux proxies -/

/-- the streams of an `h2c` op: groups of <host> <path> <auth> <pauth>; `none` = malformed; the flag says
    whether every stream lies inside the modelled syntax -/
def parseStreams : List String → Option (List WireReq × Bool)
  | [] => some ([], true)
  | h :: p :: a' :: pa :: rest =>
    match unhx h, unhx p, parseAuthTokH2 a', parseAuthTokH2 pa, parseStreams rest with
    | some h, some p, some a, some pa, some (ws, ok) =>
      -- a value that textproto would trim is outside the domain: frps sees it as sent, the HTTP/1.1 backend trimmed
      some ({ host := h, proxied := false, target := p, auth := a, pauth := pa } :: ws,
            ok && targetInDomain "o" p && parseAuthTok a' == some a)
    | _, _, _, _, _ => none
  | _ => none

/-- `fwd:<id>`, with "!" appended when the backend of route `id` is protected and the request it received did not
    carry its exact credentials (the harness's backends report that themselves) -/
def fwdString (T : Table) (id : Nat) (auth : Option (Str × Str)) : String :=
  s!"fwd:{id}" ++ (if decide (C07.CredsOK T id auth) then "" else "!")

def streamRespString (T : Table) (w : WireReq) : StreamResp → String
  | .rst => "rst"
  | .resp (.forward id) => fwdString T id w.auth
  | .resp r => respString r

def dropBang (s : String) : String := if s.endsWith "!" then (s.dropEnd 1).toString else s

/-- an observed stream answer; anything the predicate does not speak about ("cut", other status codes)
    counts as "no backend answered" -/
def parseStreamResp (s : String) : StreamResp :=
  match parseResp (dropBang s) with
  | some r => .resp r
  | none => .rst

def h2cRender (pri : Bool) (T : Table) (w0 : WireReq) (ws : List WireReq) (m : Option (Resp × List StreamResp)) : String :=
  match m with
  | none => "st:400;-"
  | some (first, rs) =>
    let f := match first with
      | .forward id => if pri then "pri" else fwdString T id w0.auth
      | r => respString r
    f ++ ";" ++ (if rs.isEmpty then "-" else ",".intercalate ((ws.zip rs).map (fun p => streamRespString T p.1 p.2)))

def tmList (t : String) : Option (List Str) :=
  if t = "-" then some [] else (t.splitOn ",").mapM unhx

def tmBar : Nat := 124   -- '|'

def tmInsert (x : Str) : List Str → List Str
  | [] => [x]
  | y :: ys => if x < y ∨ x = y then x :: y :: ys else y :: tmInsert x ys

def tmSort (l : List Str) : List Str := l.foldr tmInsert []

/-- every listener stored at the muxer, rendered as the harness renders the real ones:
    name|routeByHTTPUser|username|password of the listener object behind each stored route -/
def tmView (S : TmState) : String :=
  let routes := ((S.T.R.tbl.map (·.1)).eraseDups).flatMap (fun k => S.T.R k.1 k.2)
  let rows := routes.map (fun r =>
    match S.recs.lookup r.payload with
    | some rec => rec.l.name ++ tmBar :: rec.l.routeByHTTPUser ++ tmBar :: rec.l.username ++ tmBar :: rec.l.password
    | none => r.domain ++ tmBar :: r.user ++ [tmBar, 63, tmBar, 63])
  if rows.isEmpty then "-" else ",".intercalate ((tmSort rows).map hx)

/-- SPEC side of `tview`: what the LIVE proxies' configurations demand — for every running proxy and every
    one of its domains a listener with username = httpUser, password = httpPassword,
    routeByHTTPUser = routeByHTTPUser (cf. `C07.tmListeners_fields`) -/
def tmSpecView (sh : Str) (S : TmState) : String :=
  let rows := S.live.flatMap (fun h =>
    let c := h.2.1
    ((c.domains.filter (fun d => !d.isEmpty)) ++ (if c.sub = [] then [] else [c.sub ++ Str.dot :: sh])).map (fun d =>
      d ++ tmBar :: c.routeUser ++ tmBar :: c.httpUser ++ tmBar :: c.httpPwd))
  if rows.isEmpty then "-" else ",".intercalate ((tmSort rows).map hx)

def plActString : PlAct → String
  | .refuseClose => "rc"
  | .challenge => "ch"
  | .tunnel => "tun+"
  | .fetch => "get+"

/-- "<method> <authtok>" pairs -/
def parsePlReqs : List String → Option (List PlReq)
  | [] => some []
  | m :: a :: rest =>
    match unhx m, parseAuthTok a, parsePlReqs rest with
    | some m, some a, some r => some (⟨m, a⟩ :: r)
    | _, _, _ => none
  | _ => none

def natInsert (x : Nat) : List Nat → List Nat
  | [] => [x]
  | y :: ys => if x ≤ y then x :: y :: ys else y :: natInsert x ys

def natSort (l : List Nat) : List Nat := l.foldr natInsert []

def hgResString : HgRes → String
  | .ok => "ok" | .conflict => "conflict" | .params => "params" | .auth => "auth" | .repeated => "repeated"

/-- "got:<cid>:<lid>" -/
def parseGot (s : String) : Option (Nat × Nat) :=
  match s.splitOn ":" with
  | ["got", c, l] => match c.toNat?, l.toNat? with
    | some c, some l => some (c, l)
    | _, _ => none
  | _ => none

def httpAuthStep (st : HttpAuthState) (tok : List String) (impl : String) : HttpAuthState × Verdict :=
  match tok with
  | ["reset"] => ({}, verdictOf "-" impl)
  | ["reg", d, l, ru, u, p, id] =>
    match unhx d, unhx l, unhx ru, unhx u, unhx p, id.toNat? with
    | some d, some l, some ru, some u, some p, some id =>
      let (R', res) := add st.T.R d l ru id
      let creds' := if res = .ok then (id, ⟨u, p⟩) :: st.T.creds else st.T.creds
      ({ st with T := { R := R', creds := creds' } }, verdictOf (if res = .ok then "ok" else "conflict") impl)
    | _, _, _, _, _, _ => (st, .bad "reg")
  | ["unreg", d, l, ru] =>
    match unhx d, unhx l, unhx ru with
    | some d, some l, some ru => ({ st with T := { st.T with R := del st.T.R d l ru } }, verdictOf "-" impl)
    | _, _, _ => (st, .bad "unreg")
  | ["req", form, h, p, a, pa] =>
    -- `p` is the path part of the request target as sent (percent-encoded)
    match unhx h, unhx p, parseAuthTok a, parseAuthTok pa with
    | some h, some p, some a, some pa =>
      if !targetInDomain form p then (st, .skip "request target outside the modelled syntax") else
      let w : WireReq := { host := h, proxied := form != "o", target := p, auth := a, pauth := pa }
      let m := serveWire st.T w
      let implR : Option (Option Resp) := if impl = "st:400" then some none else (parseResp impl).map some
      let prop := implR.map (fun r => C07.holdsOnWire st.T w r)
      (st, verdictOf (match m with | some r => respString r | none => "st:400") impl prop)
    | _, _, _, _ => (st, .bad "req")
  | ["mreg", d, ru, u, p, id] =>
    match unhx d, unhx ru, unhx u, unhx p, id.toNat? with
    | some d, some ru, some u, some p, some id =>
      let (R', res) := add st.M.R d [] ru id
      let creds' := if res = .ok then (id, ⟨u, p⟩) :: st.M.creds else st.M.creds
      ({ st with M := { R := R', creds := creds' } }, verdictOf (if res = .ok then "ok" else "conflict") impl)
    | _, _, _, _, _ => (st, .bad "mreg")
  | ["mreq", h, pa] =>
    match unhx h, parseAuthTok pa with
    | some h, some pa =>
      let q : ConnectReq := { host := canon (h ++ Str.ofString ":443"), pauth := pa }
      let m := muxHandle st.M q
      let ms := match m with
        | .notFound => "404" | .proxyAuthRequired => "407" | .accept id => s!"acc:{id}"
      let prop : Option Bool :=
        if impl.startsWith "acc:" then
          match (impl.drop 4).toString.toNat? with
          | some id =>
            let c := st.M.credsOf id
            some (decide (c.user ≠ [] → q.pauth = some (c.user, c.pass)))
          | none => none
        else some true
      (st, verdictOf ms impl prop)
    | _, _ => (st, .bad "mreq")
  | "h2c" :: form :: h :: p :: a :: pa :: rest =>
    -- ONE connection: the opening request (o / a: HTTP/1.1 + Upgrade: h2c, p: prior-knowledge preface) and the
    -- streams sent on it afterwards; impl = <first>;<stream>,<stream>…
    match unhx h, unhx p, parseAuthTok a, parseAuthTok pa, parseStreams rest with
    | some h, some p, some a, some pa, some (ws, okws) =>
      let pri := form == "p"
      let w0 : WireReq := if pri then priWire else { host := h, proxied := form == "a", target := p, auth := a, pauth := pa }
      if !(okws && (pri || targetInDomain form p)) then (st, .skip "request target outside the modelled syntax") else
      let m := h2cConn h2cStreamsChecked st.T w0 ws
      match impl.splitOn ";" with
      | [f, ss] =>
        let first : Option Resp := if f == "pri" then none else parseResp (dropBang f)
        let rs := if ss == "-" then [] else (ss.splitOn ",").map parseStreamResp
        (st, verdictOf (h2cRender pri st.T w0 ws m) impl (some (C07.h2cHoldsOn st.T w0 ws first rs)))
      | _ => (st, verdictOf (h2cRender pri st.T w0 ws m) impl)
    | _, _, _, _, _ => (st, .bad "h2c")
  | ["treset", sh] =>
    match unhx sh with
    | some sh => ({ st with TM := TmState.empty, tsh := sh }, verdictOf "-" impl)
    | none => (st, .bad "treset")
  | ["tpx", id, doms, sub, ru, u, p] =>
    -- the real proxy.NewProxy(tcpmux).Run() on the real muxer
    match id.toNat?, tmList doms, unhx sub, unhx ru, unhx u, unhx p with
    | some id, some doms, some sub, some ru, some u, some p =>
      let (TM', res) := tmRun st.tsh st.TM id { domains := doms, sub := sub, routeUser := ru, httpUser := u, httpPwd := p }
      ({ st with TM := TM' },
       verdictOf (match res with | .ok => "ok" | .busy => "busy" | .conflict => "conflict") impl)
    | _, _, _, _, _, _ => (st, .bad "tpx")
  | ["tclose", id] =>
    match id.toNat? with
    | some id => ({ st with TM := tmClose st.TM id }, verdictOf "-" impl)
    | none => (st, .bad "tclose")
  | ["tconn", h, pa] =>
    -- a real CONNECT to the muxer; acc:<id> = proxy <id> was asked for a work connection
    match unhx h, parseAuthTok pa with
    | some h, some pa =>
      let q : ConnectReq := { host := canon (h ++ Str.ofString ":443"), pauth := pa }
      let ms := match tmHandle st.TM q with
        | .notFound => "404"
        | .proxyAuthRequired => "407"
        | .accept n => match st.TM.recs.lookup n with
          | some rec => s!"acc:{rec.owner}"
          | none => "acc:?"
      let prop : Option Bool :=
        if impl.startsWith "acc:" then
          match (impl.drop 4).toString.toNat? with
          | some id =>
            match st.TM.live.lookup id with
            | some (c, _) => some (C07.tmHoldsOn c q.pauth)
            | none => none
          | none => none
        else some true
      (st, verdictOf ms impl prop)
    | _, _ => (st, .bad "tconn")
  | ["tview"] =>
    -- the listeners at the muxer with their credential fields; the property clause "every listener of a live
    -- proxy carries the proxy's httpUser / httpPassword / routeByHTTPUser, each in its own field" is evaluated
    -- on the implementation's own dump
    (st, verdictOf (tmView st.TM) impl (some (impl == tmSpecView st.tsh st.TM)))
  | ["horeset"] => ({ st with HO := HoState.empty, hoL := [], hoC := [] }, verdictOf "-" impl)
  | ["holisten", lid, d, ru, u, p] =>
    -- the real Muxer.Listen; the harness owns the listener (it accepts when an `hoaccept` says so)
    match lid.toNat?, unhx d, unhx ru, unhx u, unhx p with
    | some lid, some d, some ru, some u, some p =>
      if st.hoL.any (fun x => x.1 = lid) then (st, verdictOf "busy" impl) else
      let l : TmListener := ⟨d, ru, u, p⟩
      let (S', res) := hoListen st.HO l
      if res = .ok then ({ st with HO := S', hoL := (lid, (st.HO.next, l)) :: st.hoL }, verdictOf "ok" impl)
      else (st, verdictOf "conflict" impl)
    | _, _, _, _, _ => (st, .bad "holisten")
  | ["hoconn", cid, h, pa] =>
    -- a real CONNECT; park = past the checks, waiting to be accepted
    match cid.toNat?, unhx h, parseAuthTok pa with
    | some cid, some h, some pa =>
      let q : ConnectReq := { host := canon (h ++ Str.ofString ":443"), pauth := pa }
      let (S', r) := hoArrive st.HO cid q
      let ms := match r with | .notFound => "404" | .proxyAuthRequired => "407" | .accept _ => "park"
      ({ st with HO := S', hoC := (cid, q) :: st.hoC }, verdictOf ms impl)
    | _, _, _ => (st, .bad "hoconn")
  | ["hoclose", lid] =>
    -- the real Listener.Close; what became of the connections waiting at it
    match lid.toNat? with
    | some lid =>
      match st.hoL.lookup lid with
      | some (n, _) =>
        let gone := if st.HO.closed.contains n then [] else (st.HO.parked.filter (fun x => x.dst = n)).map (·.cid)
        let ms := if gone.isEmpty then "-" else ",".intercalate ((natSort gone).map (fun c => s!"{c}:c"))
        ({ st with HO := hoClose false st.HO n }, verdictOf ms impl)
      | none => (st, verdictOf "-" impl)
    | none => (st, .bad "hoclose")
  | ["hoaccept", lid] =>
    -- the real Listener.Accept: which connection came out of which listener.  The clause "a connection comes out
    -- of a listener only if it carried that listener's credentials" is evaluated on the implementation's own answer
    match lid.toNat? with
    | some lid =>
      let got := parseGot impl
      let prop : Option Bool :=
        match got with
        | some (c, l') =>
          match st.hoL.lookup l', st.hoC.lookup c with
          | some (_, l), some q => some (C07.hoHoldsOn l q.pauth)
          | _, _ => none
        | none => some true
      match st.hoL.lookup lid with
      | some (n, _) =>
        let waiting := if st.HO.closed.contains n then [] else st.HO.parked.filter (fun x => x.dst = n)
        -- which of the blocked senders is woken is the runtime's choice: follow the implementation if it names one
        let pickC : Option Nat :=
          match got with
          | some (c, l') => if l' = lid ∧ waiting.any (fun x => x.cid = c) then some c else (waiting.head?).map (·.cid)
          | none => (waiting.head?).map (·.cid)
        match pickC with
        | some c => ({ st with HO := hoAccept st.HO n c }, verdictOf s!"got:{c}:{lid}" impl prop)
        | none => (st, verdictOf "none" impl prop)
      | none => (st, verdictOf "none" impl prop)
    | none => (st, .bad "hoaccept")
  | ["greset"] => ({ st with HG := HgState.empty, hgOwn := [] }, verdictOf "-" impl)
  | ["gjoin", pid, g, k, d, l, ru, u, p] =>
    -- the real HTTPGroupController.Register on the routers of a real HTTPReverseProxy
    match pid.toNat?, unhx g, unhx k, unhx d, unhx l, unhx ru, unhx u, unhx p with
    | some pid, some g, some k, some d, some l, some ru, some u, some p =>
      let (S', res) := hgJoin true st.HG ⟨pid, g, k, d, l, ru, u, p⟩
      ({ st with HG := S', hgOwn := if impl == "ok" then (pid, ⟨u, p⟩) :: st.hgOwn else st.hgOwn },
       verdictOf (hgResString res) impl)
    | _, _, _, _, _, _, _, _ => (st, .bad "gjoin")
  | ["gleave", pid, g] =>
    match pid.toNat?, unhx g with
    | some pid, some g => ({ st with HG := hgLeave st.HG g pid }, verdictOf "-" impl)
    | _, _ => (st, .bad "gleave")
  | ["greq", h, p, a] =>
    -- a real request through ServeHTTP; fwd:<pid> = the backend of member <pid> answered.  The clause "a request
    -- served by member m carried m's OWN credentials" is evaluated on the implementation's answer
    match unhx h, unhx p, parseAuthTok a with
    | some h, some p, some a =>
      if !targetInDomain "o" p then (st, .skip "request target outside the modelled syntax") else
      let w : WireReq := { host := h, proxied := false, target := p, auth := a, pauth := none }
      let implPid : Option Nat := if impl.startsWith "fwd:" then (impl.drop 4).toString.toNat? else none
      let ms := match serveWire st.HG.T w with
        | none => "st:400"
        | some (.forward rid) =>
          match hgByRoute st.HG rid with
          | some g =>
            -- which member the rotation picks is the group's choice: follow the implementation if it names a member
            (match implPid with
             | some pid => if g.members.any (fun m => m.pid = pid) then s!"fwd:{pid}"
                           else s!"fwd:{(g.members.head?.map (·.pid)).getD 0}"
             | none => s!"fwd:{(g.members.head?.map (·.pid)).getD 0}")
          | none => "fwd:?"
        | some r => respString r
      let prop : Option Bool :=
        match implPid with
        | some pid => (st.hgOwn.lookup pid).map (fun own => C07.hgHoldsOn own a)
        | none => some true
      (st, verdictOf ms impl prop)
    | _, _, _ => (st, .bad "greq")
  | ["mw", u, p, a] =>
    -- the real middleware in front of a recording handler; the model starts from the header bytes
    match unhx u, unhx p, authTokHeader a with
    | some u, some p, some hdr =>
      let m := WebAuth.middlewareHdr ⟨u, p⟩ hdr
      (st, verdictOf (if m then "next" else "401") impl (some (C07.mwHoldsOn ⟨u, p⟩ hdr (impl == "next"))))
    | _, _, _ => (st, .bad "mw")
  | ["wq", kind, u, p, x, m, t, a] =>
    -- queue one request for a web endpoint: sf = the real static_file plugin (x = strip prefix), dash = the web
    -- server of a real frps (x = enablePrometheus), adm = the admin server of a real frpc
    match unhx u, unhx p, unhx m, unhx t, parseWireAuth a with
    | some u, some p, some m, some t, some (h, okh) =>
      let R : Option WebAuth.Router :=
        if kind = "sf" then (unhx x).map WebAuth.sfRouter
        else if kind = "dash" then some (WebAuth.dashRouter (x == "1"))
        else if kind = "adm" then some WebAuth.adminRouter
        else none
      match R with
      | some R =>
        ({ st with wq := st.wq ++ [⟨R, ⟨u, p⟩, m, t, h, okh && methodInDomain m && targetInDomain "o" t⟩] },
         verdictOf "q" impl)
      | none => (st, .bad "wq kind")
    | _, _, _, _, _ => (st, .bad "wq")
  | ["wflush"] => ({ st with wq := [] }, webStep st.wq impl)
  | ["s5", u, p, ver, methods, av, qu, qp] =>
    -- the real socks5 plugin (NewSocks5Plugin + Handle) in front of a recording target
    match unhx u, unhx p, ver.toNat?, unhx methods, av.toNat?, unhx qu, unhx qp with
    | some u, some p, some ver, some methods, some av, some qu, some qp =>
      let q : WebAuth.S5Req := ⟨ver, methods, av, qu, qp⟩
      let ms := match WebAuth.socks5 ⟨u, p⟩ q with
        | .closed => "closed" | .noAcceptable => "na" | .closedAfterSelect => "closed2"
        | .authFailed => "af" | .connected => "conn+"
      (st, verdictOf ms impl (some (C07.s5HoldsOn ⟨u, p⟩ q (impl.endsWith "+"))))
    | _, _, _, _, _, _, _ => (st, .bad "s5")
  | ["pl", u, p, a] =>
    match unhx u, unhx p, parseAuthTok a with
    | some u, some p, some a =>
      let m := pluginAuth ⟨u, p⟩ a
      let prop := if impl = "true" then some (decide ((u = [] ∧ p = []) ∨ a = some (u, p))) else some true
      (st, verdictOf (if m then "true" else "false") impl prop)
    | _, _, _ => (st, .bad "pl")
  | "plc" :: u :: p :: rest =>
    -- one work connection given to the real HTTPProxy.Handle; impl = per-request answers joined by ','
    -- ("+" suffix = the target behind the plugin saw that request)
    match unhx u, unhx p, parsePlReqs rest with
    | some u, some p, some qs =>
      let acts := pluginHandle ⟨u, p⟩ qs
      let ms := ",".intercalate (acts.map plActString)
      let reached := (impl.splitOn ",").map (fun t => t.endsWith "+")
      (st, verdictOf ms impl (some (C07.plHoldsOn ⟨u, p⟩ qs reached)))
    | _, _, _ => (st, .bad "plc")
  | _ => (st, .bad "op")

def httpauth : Engine := { State := HttpAuthState, init := {}, step := httpAuthStep }

end Engines
end Frp
