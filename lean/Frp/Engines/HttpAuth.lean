import Frp.Driver.Proto
import Frp.Props.C07
/-
  Driver engine "httpauth" (C07): replays the harness trace on Frp/Model/HttpAuth.lean and evaluates
  the C07 predicates on the implementation's answers.
-/
namespace Frp
namespace Engines
open Proto Router Str HttpAuth

structure HttpAuthState where
  T : Table := { R := Router.empty, creds := [] }
  M : Table := { R := Router.empty, creds := [] }

/-- "-" | "m<k>" ↦ none ; "b<k>:<hexu>:<hexp>" ↦ some (u, p) ; anything else ↦ malformed token -/
def parseAuthTok (t : String) : Option (Option (Str × Str)) :=
  if t = "-" then some none
  else if t.startsWith "m" then some none
  else match t.splitOn ":" with
    | [_, u, p] => match unhx u, unhx p with
      | some u, some p => some (some (u, p))
      | _, _ => none
    | _ => none

def respString : Resp → String
  | .unauthorized => "401"
  | .forward id => s!"fwd:{id}"
  | .notFound => "404"

def parseResp (s : String) : Option Resp :=
  if s = "401" then some .unauthorized
  else if s = "404" then some .notFound
  else if s.startsWith "fwd:" then ((s.drop 4).toString.toNat?).map .forward
  else none

/-- the request targets the model speaks about: origin-form or absolute-form path starting with '/', CONNECT
    without path; printable ASCII without space, '?', '#' (query and fragment are not modelled) -/
def targetInDomain (form : String) (p : Str) : Bool :=
  p.all (fun c => 33 ≤ c && c < 127 && c != 63 && c != 35) &&
  (if form = "c" then p.isEmpty else p.head? = some 47)

def plActString : PlAct → String
  | .refuseClose => "rc"
  | .challenge => "ch"
  | .tunnel => "tun+"
  | .fetch => "get+"

/-- "<method> <authtok>" pairs -/
def parsePlReqs : List String → Option (List PlReq)
  | [] => some []
  | m :: a :: rest =>
    match unhx m, parseAuthTok a, parsePlReqs rest with
    | some m, some a, some r => some (⟨m, a⟩ :: r)
    | _, _, _ => none
  | _ => none

def httpAuthStep (st : HttpAuthState) (tok : List String) (impl : String) : HttpAuthState × Verdict :=
  match tok with
  | ["reset"] => ({}, verdictOf "-" impl)
  | ["reg", d, l, ru, u, p, id] =>
    match unhx d, unhx l, unhx ru, unhx u, unhx p, id.toNat? with
    | some d, some l, some ru, some u, some p, some id =>
      let (R', res) := add st.T.R d l ru id
      let creds' := if res = .ok then (id, ⟨u, p⟩) :: st.T.creds else st.T.creds
      ({ st with T := { R := R', creds := creds' } }, verdictOf (if res = .ok then "ok" else "conflict") impl)
    | _, _, _, _, _, _ => (st, .bad "reg")
  | ["unreg", d, l, ru] =>
    match unhx d, unhx l, unhx ru with
    | some d, some l, some ru => ({ st with T := { st.T with R := del st.T.R d l ru } }, verdictOf "-" impl)
    | _, _, _ => (st, .bad "unreg")
  | ["req", form, h, p, a, pa] =>
    -- `p` is the path part of the request target as sent (percent-encoded)
    match unhx h, unhx p, parseAuthTok a, parseAuthTok pa with
    | some h, some p, some a, some pa =>
      if !targetInDomain form p then (st, .skip "request target outside the modelled syntax") else
      let w : WireReq := { host := h, proxied := form != "o", target := p, auth := a, pauth := pa }
      let m := serveWire st.T w
      let implR : Option (Option Resp) := if impl = "st:400" then some none else (parseResp impl).map some
      let prop := implR.map (fun r => C07.holdsOnWire st.T w r)
      (st, verdictOf (match m with | some r => respString r | none => "st:400") impl prop)
    | _, _, _, _ => (st, .bad "req")
  | ["mreg", d, ru, u, p, id] =>
    match unhx d, unhx ru, unhx u, unhx p, id.toNat? with
    | some d, some ru, some u, some p, some id =>
      let (R', res) := add st.M.R d [] ru id
      let creds' := if res = .ok then (id, ⟨u, p⟩) :: st.M.creds else st.M.creds
      ({ st with M := { R := R', creds := creds' } }, verdictOf (if res = .ok then "ok" else "conflict") impl)
    | _, _, _, _, _ => (st, .bad "mreg")
  | ["mreq", h, pa] =>
    match unhx h, parseAuthTok pa with
    | some h, some pa =>
      let q : ConnectReq := { host := canon (h ++ Str.ofString ":443"), pauth := pa }
      let m := muxHandle st.M q
      let ms := match m with
        | .notFound => "404" | .proxyAuthRequired => "407" | .accept id => s!"acc:{id}"
      let prop : Option Bool :=
        if impl.startsWith "acc:" then
          match (impl.drop 4).toString.toNat? with
          | some id =>
            let c := st.M.credsOf id
            some (decide (c.user ≠ [] → q.pauth = some (c.user, c.pass)))
          | none => none
        else some true
      (st, verdictOf ms impl prop)
    | _, _ => (st, .bad "mreq")
  | ["mw", u, p, a] =>
    match unhx u, unhx p, parseAuthTok a with
    | some u, some p, some a =>
      let m := middleware ⟨u, p⟩ a
      let prop := if impl = "next" then some (decide ((u = [] ∧ p = []) ∨ a = some (u, p))) else some true
      (st, verdictOf (if m then "next" else "401") impl prop)
    | _, _, _ => (st, .bad "mw")
  | ["pl", u, p, a] =>
    match unhx u, unhx p, parseAuthTok a with
    | some u, some p, some a =>
      let m := pluginAuth ⟨u, p⟩ a
      let prop := if impl = "true" then some (decide ((u = [] ∧ p = []) ∨ a = some (u, p))) else some true
      (st, verdictOf (if m then "true" else "false") impl prop)
    | _, _, _ => (st, .bad "pl")
  | "plc" :: u :: p :: rest =>
    -- one work connection given to the real HTTPProxy.Handle; impl = per-request answers joined by ','
    -- ("+" suffix = the target behind the plugin saw that request)
    match unhx u, unhx p, parsePlReqs rest with
    | some u, some p, some qs =>
      let acts := pluginHandle ⟨u, p⟩ qs
      let ms := ",".intercalate (acts.map plActString)
      let reached := (impl.splitOn ",").map (fun t => t.endsWith "+")
      (st, verdictOf ms impl (some (C07.plHoldsOn ⟨u, p⟩ qs reached)))
    | _, _, _ => (st, .bad "plc")
  | _ => (st, .bad "op")

def httpauth : Engine := { State := HttpAuthState, init := {}, step := httpAuthStep }

end Engines
end Frp
