import Frp.Driver.Proto
import Frp.Props.C19
import Frp.Props.C19Sched
/-
  Driver engines "client" (proxy.Manager + Wrapper + visitor.Manager) and "health"
  (health.Monitor): replay the harness trace on the models and evaluate the C19 predicates on the
  implementation's own answers.
-/
namespace Frp
namespace Engines
open Proto Wrapper Reconcile

/-! ### small helpers -/

def insSorted (s : String) : List String → List String
  | [] => [s]
  | x :: xs => if s ≤ x then s :: x :: xs else x :: insSorted s xs

def sortStrings (l : List String) : List String := l.foldr insSorted []

def joinOrDash (l : List String) : String := if l.isEmpty then "-" else ",".intercalate l

def evStr : Nat × Msg → String
  | (n, .newProxy) => s!"N{n}"
  | (n, .closeProxy) => s!"C{n}"

def renderEvents (ev : List (Nat × Msg)) : String := joinOrDash (sortStrings (ev.map evStr))

def phaseTok : Phase → String
  | .new => "new" | .waitStart => "wait" | .startErr => "err"
  | .running => "run" | .checkFailed => "chk" | .closed => "closed"

def resTok : Res → String
  | .none => "-" | .ok => "ok" | .notWait => "notwait" | .respErr => "resperr" | .runErr => "runerr"
  | .handed => "handed" | .closed => "closed" | .doubleStop => "doublestop"

def parseCfg (t : String) : Option Cfg :=
  match t.splitOn ":" with
  | [n, v, h, r] =>
    match n.toNat?, v.toNat?, h.toNat?, r.toNat? with
    | some n, some v, some h, some r => some { name := n, variant := v, health := h == 1, runFails := r == 1 }
    | _, _, _, _ => none
  | _ => none

def parseAll {α} (f : String → Option α) : List String → Option (List α)
  | [] => some []
  | t :: ts => do let a ← f t; let r ← parseAll f ts; pure (a :: r)

/-! ### visitors (visitor_manager.go UpdateAll: same two loops; a visitor whose Run fails stays
    configured but is not running) -/

structure VCfg where
  name : Nat
  variant : Nat
  fails : Bool
  deriving DecidableEq

structure VMgr where
  cfgs : List VCfg := []
  running : List Nat := []

def vLookupLast (cfgs : List VCfg) (n : Nat) : Option VCfg := cfgs.reverse.find? (fun c => c.name == n)

def vAddLoop : VMgr → List VCfg → VMgr
  | m, [] => m
  | m, c :: cs =>
    if m.cfgs.any (fun x => x.name == c.name) then vAddLoop m cs
    else vAddLoop { cfgs := m.cfgs ++ [c], running := if c.fails then m.running else m.running ++ [c.name] } cs

def vUpdateAll (m : VMgr) (cfgs : List VCfg) : VMgr :=
  let kept := m.cfgs.filter (fun c => vLookupLast cfgs c.name == some c)
  let run := m.running.filter (fun n => kept.any (fun c => c.name == n))
  -- repaired code (fix 825e588): the add loop stores and starts `cfgsMap[name]`, the LAST entry of a name
  vAddLoop { cfgs := kept, running := run } (cfgs.map (fun c => (vLookupLast cfgs c.name).getD c))

def parseVCfg (t : String) : Option VCfg :=
  match t.splitOn ":" with
  | [n, v, f] =>
    match n.toNat?, v.toNat?, f.toNat? with
    | some n, some v, some f => some { name := n, variant := v, fails := f == 1 }
    | _, _, _ => none
  | _ => none

def sortNat (l : List Nat) : List Nat := l.foldr (fun a acc =>
  let rec ins : List Nat → List Nat
    | [] => [a]
    | x :: xs => if a ≤ x then a :: x :: xs else x :: ins xs
  ins acc) []

/-! ### engine "client" -/

structure ClientState where
  m : Mgr := Reconcile.init
  stopped : List W := []
  lastCfgs : Option (List Cfg) := none
  v : VMgr := {}

def sortByName (ws : List W) : List W :=
  (sortNat (ws.map (·.cfg.name))).filterMap (fun n => ws.find? (fun w => w.cfg.name == n))

def statusStr (m : Mgr) : String :=
  joinOrDash (sortStrings (m.proxies.map (fun w =>
    s!"{w.cfg.name}:{phaseTok w.phase}:{w.cfg.variant}:{w.id}")))

def dupFlag (cfgs : List Cfg) : Bool :=
  cfgs.any (fun a => cfgs.any (fun b => a.name == b.name && a.variant != b.variant))

def countEv (s : String) (evs : List String) : Nat := (evs.filter (· == s)).length

def implEvents (impl : String) : List String := if impl = "-" then [] else impl.splitOn ","

def deliverOp (st : ClientState) (n : Nat) (es : List Event) (impl : String) (withRes : Bool) :
    ClientState × Verdict :=
  match Reconcile.find st.m n with
  | none => (st, verdictOf (if withRes then "notfound" else "none") impl)
  | some _ =>
    -- deliver the events one after the other
    let (m', msgs, res) := es.foldl (fun (acc : Mgr × List Msg × Res) e =>
      match deliver acc.1 n e with
      | some (m2, ms, r) => (m2, acc.2.1 ++ ms, if r == .none then acc.2.2 else r)
      | none => acc) (st.m, [], Res.none)
    let evs := renderEvents (msgs.map (fun x => (n, x)))
    ({ st with m := m' }, verdictOf (if withRes then s!"{resTok res};{evs}" else evs) impl)

/-! ### op `race`: two overlapping operations.  The model result is "A, then B": whatever B needs
    a lock for that the holder of the held message owns waits for it (`C19.conc_refines`: every
    interleaving is a sequential run in lock order); a monitor callback that arrives while the
    wrapper's own worker is the holder only stores the flag (its non-blocking wake-up is lost). -/

def deliverEvents (m : Mgr) (n : Nat) (es : List Event) : Mgr × List Msg × Res :=
  es.foldl (fun (acc : Mgr × List Msg × Res) e =>
    match deliver acc.1 n e with
    | some (m2, ms, r) => (m2, acc.2.1 ++ ms, if r == .none then acc.2.2 else r)
    | none => acc) (m, [], Res.none)

/-- one operand on the model: new state, messages in order, result token -/
def raceApply (st : ClientState) (tok : List String) (storeOnly : Bool) :
    Option (ClientState × List (Nat × Msg) × String) :=
  match tok with
  | "upd" :: now :: dup :: cs =>
    match now.toNat?, dup.toNat?, parseAll parseCfg cs with
    | some now, some dup, some cfgs =>
      if (dup == 1) != dupFlag cfgs then none else
      let (m', stp, ev) := updateAll st.m cfgs now
      some ({ st with m := m', stopped := st.stopped ++ sortByName stp, lastCfgs := some cfgs }, ev, "-")
    | _, _, _ => none
  | ["close"] =>
    let (m', stp, ev) := closeAll st.m
    some ({ st with m := m', stopped := st.stopped ++ sortByName stp, lastCfgs := none }, ev, "-")
  | ["tick", n, now] =>
    match n.toNat?, now.toNat? with
    | some n, some now =>
      match Reconcile.find st.m n with
      | none => some (st, [], "none")
      | some _ =>
        let (m', ms, _) := deliverEvents st.m n [.tick now]
        some ({ st with m := m' }, ms.map (fun x => (n, x)), "-")
    | _, _ => none
  | ["resp", n, now, r] =>
    match n.toNat?, now.toNat? with
    | some n, some now =>
      match Reconcile.find st.m n with
      | none => some (st, [], "notfound")
      | some _ =>
        let (m', ms, res) := deliverEvents st.m n [.startResp now (r == "err")]
        some ({ st with m := m' }, ms.map (fun x => (n, x)), resTok res)
    | _, _ => none
  | ["work", n] =>
    match n.toNat? with
    | some n =>
      match Reconcile.find st.m n with
      | none => some (st, [], "closed")
      | some w => some (st, [], resTok (step w .inWorkConn).2.2)
    | none => none
  | [op, n, now] =>
    if op != "hup" && op != "hdown" then none else
    match n.toNat?, now.toNat? with
    | some n, some now =>
      match Reconcile.find st.m n with
      | none => some (st, [], "none")
      | some w =>
        if !w.cfg.health then some (st, [], "nohealth") else
        let e : Event := if op == "hup" then .healthUp else .healthDown
        let (m', ms, _) := deliverEvents st.m n (if storeOnly then [e] else [e, .tick now])
        some ({ st with m := m' }, ms.map (fun x => (n, x)), "-")
    | _, _ => none
  | _ => none

def dedupNat : List Nat → List Nat
  | [] => []
  | x :: xs => x :: (dedupNat xs).filter (· != x)

def msgChar : Msg → String
  | .newProxy => "N" | .closeProxy => "C"

/-- wire order per proxy name, the held message marked -/
def raceRender (ms : List (Nat × Msg × Bool)) : String :=
  if ms.isEmpty then "-" else
  ",".intercalate ((sortNat (dedupNat (ms.map (·.1)))).map (fun n =>
    s!"{n}:" ++ String.join ((ms.filter (·.1 == n)).map (fun x => msgChar x.2.1 ++ (if x.2.2 then "*" else "")))))

def markFirst (h : Nat) (k : Msg) : List (Nat × Msg) → List (Nat × Msg × Bool)
  | [] => []
  | (n, m) :: rest =>
    if n == h && m == k then (n, m, true) :: rest.map (fun x => (x.1, x.2, false))
    else (n, m, false) :: markFirst h k rest

def parseSeq : List Char → Option (List (Msg × Bool))
  | [] => some []
  | c :: '*' :: rest =>
    if c == 'N' then (parseSeq rest).map (fun r => (Msg.newProxy, true) :: r)
    else if c == 'C' then (parseSeq rest).map (fun r => (Msg.closeProxy, true) :: r) else none
  | c :: rest =>
    if c == 'N' then (parseSeq rest).map (fun r => (Msg.newProxy, false) :: r)
    else if c == 'C' then (parseSeq rest).map (fun r => (Msg.closeProxy, false) :: r) else none

def parseWire (s : String) : Option (List (Nat × List (Msg × Bool))) :=
  if s == "-" then some [] else
  parseAll (fun t => match t.splitOn ":" with
    | [n, q] => do let n ← n.toNat?; let q ← parseSeq q.toList; pure (n, q)
    | _ => none) (s.splitOn ",")

def parsePhase (t : String) : Option Phase :=
  if t == "new" then some .new else if t == "wait" then some .waitStart else if t == "err" then some .startErr
  else if t == "run" then some .running else if t == "chk" then some .checkFailed
  else if t == "closed" then some .closed else none

def parseStatus (s : String) : Option (List (Nat × Phase)) :=
  if s == "-" then some [] else
  parseAll (fun t => match t.splitOn ":" with
    | n :: ph :: _ => do let n ← n.toNat?; let ph ← parsePhase ph; pure (n, ph)
    | _ => none) (s.splitOn ",")

def parseStatusCfg (s : String) : Option (List (Nat × Nat)) :=
  if s == "-" then some [] else
  parseAll (fun t => match t.splitOn ":" with
    | n :: _ :: v :: _ => do let n ← n.toNat?; let v ← v.toNat?; pure (n, v)
    | _ => none) (s.splitOn ",")

structure RaceImpl where
  wire : List (Nat × List (Msg × Bool))
  aClosed : Bool
  status : List (Nat × Phase)

def parseRaceImpl (impl : String) : Option RaceImpl :=
  match impl.splitOn ";" with
  | [w, _, _, a, st] =>
    if !(w.startsWith "w=" && a.startsWith "a=" && st.startsWith "st=") then none else do
    let wire ← parseWire (w.drop 2).toString
    let status ← parseStatus (st.drop 3).toString
    pure { wire := wire, aClosed := a == "a=closed", status := status }
  | _ => none

/-- the C19 predicates on the implementation's own answer to a `race` op -/
def raceHoldsOn (r : RaceImpl) : Bool :=
  r.wire.all (fun (n, q) =>
    C19.raceSyncOK (q.map (·.1)) ((r.status.find? (·.1 == n)).map (·.2)) &&
    (!(q.any (·.2)) || C19.raceStopOK q r.aClosed))

def splitAt (sep : String) : List String → List String × List String
  | [] => ([], [])
  | t :: ts => if t == sep then ([], ts) else let r := splitAt sep ts; (t :: r.1, r.2)

def raceStep (st : ClientState) (kind : String) (rest : List String) (impl : String) : ClientState × Verdict :=
  let (aTok, bTok) := splitAt "/" rest
  let kindC := (kind.take 1).toString
  let kindName : Option Nat := (kind.drop 1).toString.toNat?
  let k : Msg := if kindC == "N" then .newProxy else .closeProxy
  let ri := parseRaceImpl impl
  match raceApply st aTok false with
  | none => (st, .bad "race A")
  | some (st1, msgsA, resA) =>
    -- which message was held: the implementation's choice if the model allows it
    let cand := ((msgsA.filter (·.2 == k)).map (·.1)).filter (fun n => kindName.all (· == n))
    let implHeld : Option Nat := ri.bind (fun r => (r.wire.find? (fun x => x.2.any (·.2))).map (·.1))
    let held : Option Nat := match implHeld with
      | some h => if cand.contains h then some h else cand.head?
      | none => cand.head?
    let aOp := aTok.headD ""
    let aIsWorker := aOp == "tick" || aOp == "hup" || aOp == "hdown" || (aOp == "upd" && kindC == "N")
    let bOp := bTok.headD ""
    let storeOnly := aIsWorker && (bOp == "hup" || bOp == "hdown") &&
      (match held, (bTok.getD 1 "").toNat? with | some h, some n => h == n | _, _ => false)
    match raceApply st1 bTok storeOnly with
    | none => (st, .bad "race B")
    | some (st2, msgsB, resB) =>
      let wire := (match held with
        | some h => markFirst h k msgsA
        | none => msgsA.map (fun x => (x.1, x.2, false))) ++ msgsB.map (fun x => (x.1, x.2, false))
      let aPhase := match held with
        | none => "-"
        | some h =>
          if aOp == "upd" && kindC == "C" then "closed" else
          match Reconcile.find st1.m h with
          | none => "-"
          | some w =>
            match st2.m.proxies.find? (fun (x : W) => x.cfg.name == h && x.id == w.id) with
            | some x => phaseTok x.phase
            | none => "closed"
      let model := s!"w={raceRender wire};ra={resA};rb={resB};a={aPhase};st={statusStr st2.m}"
      (st2, verdictOf model impl (ri.map raceHoldsOn))


/-! ### op `wake`: the worker has left its select (status-check timer, health notification) and a
    reload / Manager.Close stops the wrapper before (SW) or after (WS) the worker gets `pw.mu`.
    Every interleaving is a sequential run in lock order (`C19.conc_refines`), so the model result is
    "B, then the worker's iteration" — on the STOPPED wrapper object if B stopped it — for SW and the
    reverse for WS; the runtime may serve the two Lock() callers in the other order, that answer is
    accepted when it is exactly the other order's. -/

structure WakeImpl where
  r : RaceImpl
  gone : Bool

def parseWakeImpl (impl : String) : Option WakeImpl :=
  match impl.splitOn ";" with
  | [w, ra, rb, a, st, g] =>
    if g != "g=0" && g != "g=1" then none else
    (parseRaceImpl (";".intercalate [w, ra, rb, a, st])).map (fun r => { r := r, gone := g == "g=1" })
  | _ => none

/-- the C19 clauses on the implementation's own answer: status and wire in step for every name, and
    for the woken wrapper, if the reload took it out of the manager: its status is closed (closed is
    absorbing) and after the last CloseProxy of its name nothing is registered that the new
    configuration does not account for (one NewProxy if the name is configured again, none otherwise) -/
def wakeHoldsOn (n : Nat) (a : String) (wi : WakeImpl) : Bool :=
  raceHoldsOn wi.r &&
  (!wi.gone ||
    (a == "a=closed" &&
      C19.noNewAfterLastClose ((((wi.r.wire.find? (·.1 == n)).map (·.2)).getD []).map (·.1))
        (if wi.r.status.any (·.1 == n) then 1 else 0)))

def wakeStep (st : ClientState) (order : String) (rest : List String) (impl : String) : ClientState × Verdict :=
  let (wTok, bTok) := splitAt "/" rest
  match wTok with
  | [op, ns, nows] =>
    match ns.toNat?, nows.toNat? with
    | some n, some now =>
      if op != "tick" && op != "hup" && op != "hdown" then (st, .bad "wake op") else
      if order != "SW" && order != "WS" then (st, .bad "wake order") else
      match Reconcile.find st.m n with
      | none => (st, verdictOf "none" impl)
      | some w0 =>
        if op != "tick" && !w0.cfg.health then (st, verdictOf "nohealth" impl) else
        let wEv : List Event := if op == "tick" then [.tick now] else
          if op == "hup" then [.healthUp, .tick now] else [.healthDown, .tick now]
        let render := fun (st2 : ClientState) (wire : List (Nat × Msg)) (resB : String) =>
          let aPhase := match st2.m.proxies.find? (fun (x : W) => x.cfg.name == n && x.id == w0.id) with
            | some x => (phaseTok x.phase, "0")
            | none => ("closed", "1")
          s!"w={raceRender (wire.map (fun x => (x.1, x.2, false)))};ra=-;rb={resB};a={aPhase.1};st={statusStr st2.m};g={aPhase.2}"
        -- WS: the worker's iteration, then B
        let ws : Option (ClientState × String) :=
          let (m1, msW, _) := deliverEvents st.m n wEv
          (raceApply { st with m := m1 } bTok false).map (fun (st2, msB, resB) =>
            (st2, render st2 (msW.map (fun x => (n, x)) ++ msB) resB))
        -- SW: B, then the worker's iteration on the same wrapper OBJECT
        let sw : Option (ClientState × String) :=
          (raceApply st bTok false).map (fun (st2, msB, resB) =>
            match st2.m.proxies.find? (fun (x : W) => x.cfg.name == n && x.id == w0.id) with
            | some _ =>
              let (m3, msW, _) := deliverEvents st2.m n wEv
              let st3 := { st2 with m := m3 }
              (st3, render st3 (msB ++ msW.map (fun x => (n, x))) resB)
            | none =>
              -- stopped by B: the iteration runs on the closed wrapper (`C19.closed_tick_silent`)
              let wOld : W := ((st2.stopped.find? (fun (x : W) => x.cfg.name == n && x.id == w0.id)).getD
                { w0 with phase := .closed })
              let (_, msW, _) := run wOld wEv
              (st2, render st2 (msB ++ msW.map (fun x => (n, x))) resB))
        let (first, second) := if order == "SW" then (sw, ws) else (ws, sw)
        match first, second with
        | some (sa, ma), some (sb, mb) =>
          let wi := parseWakeImpl impl
          let aTok := ((impl.splitOn ";").getD 3 "")
          let prop := wi.map (wakeHoldsOn n aTok)
          if ma != impl && mb == impl then (sb, verdictOf mb impl prop) else (sa, verdictOf ma impl prop)
        | _, _ => (st, .bad "wake B")
    | _, _ => (st, .bad "wake")
  | _ => (st, .bad "wake tokens")

def clientStep (st : ClientState) (tok : List String) (impl : String) : ClientState × Verdict :=
  match tok with
  | ["reset"] => ({}, verdictOf "-" impl)
  | ["consts"] =>
    (st, verdictOf s!"{Wrapper.statusCheckInterval} {Wrapper.waitResponseTimeout} {Wrapper.startErrTimeout}" impl)
  | "upd" :: now :: dup :: cs =>
    match now.toNat?, dup.toNat?, parseAll parseCfg cs with
    | some now, some dup, some cfgs =>
      if (dup == 1) != dupFlag cfgs then (st, .bad "dup flag") else
      let (m', stp, ev) := updateAll st.m cfgs now
      let evs := implEvents impl
      let p1 := st.lastCfgs != some cfgs || evs.isEmpty
      -- (since fix eab68f8 the predicate applies to duplicated names as well)
      let p2 := C19.updHoldsOn st.m.proxies cfgs evs
      ({ st with m := m', stopped := st.stopped ++ sortByName stp, lastCfgs := some cfgs },
        verdictOf (renderEvents ev) impl (some (p1 && p2)))
    | _, _, _ => (st, .bad "upd")
  | ["tick", n, now] =>
    match n.toNat?, now.toNat? with
    | some n, some now => deliverOp st n [.tick now] impl false
    | _, _ => (st, .bad "tick")
  | ["hup", n, now] =>
    match n.toNat?, now.toNat? with
    | some n, some now =>
      match Reconcile.find st.m n with
      | some w => if !w.cfg.health then (st, verdictOf "nohealth" impl) else
                  deliverOp st n [.healthUp, .tick now] impl false
      | none => (st, verdictOf "none" impl)
    | _, _ => (st, .bad "hup")
  | ["hdown", n, now] =>
    match n.toNat?, now.toNat? with
    | some n, some now =>
      match Reconcile.find st.m n with
      | some w => if !w.cfg.health then (st, verdictOf "nohealth" impl) else
                  deliverOp st n [.healthDown, .tick now] impl false
      | none => (st, verdictOf "none" impl)
    | _, _ => (st, .bad "hdown")
  | ["resp", n, now, r] =>
    match n.toNat?, now.toNat? with
    | some n, some now => deliverOp st n [.startResp now (r == "err")] impl true
    | _, _ => (st, .bad "resp")
  | ["work", n] =>
    match n.toNat? with
    | some n =>
      match Reconcile.find st.m n with
      | none => (st, verdictOf "closed" impl (some (impl != "handed")))
      | some w =>
        let r := (step w .inWorkConn).2.2
        (st, verdictOf (resTok r) impl (some ((impl == "handed") == (w.phase == .running))))
    | none => (st, .bad "work")
  | ["status"] =>
    -- the clause about WHAT runs, on the implementation's answer: every wrapper holds the configured
    -- entry of its name in the last loaded list (an object something has written into decodes to no entry)
    let obs := (parseStatusCfg impl).map (C19.statusHoldsOn (st.lastCfgs.getD []))
    (st, verdictOf (statusStr st.m) impl obs)
  | "race" :: kind :: rest => raceStep st kind rest impl
  | "wake" :: order :: rest => wakeStep st order rest impl
  | ["close"] =>
    let (m', stp, ev) := closeAll st.m
    ({ st with m := m', stopped := st.stopped ++ sortByName stp, lastCfgs := none },
      verdictOf (renderEvents ev) impl)
  | "vupd" :: cs =>
    match parseAll parseVCfg cs with
    | some cfgs =>
      let v' := vUpdateAll st.v cfgs
      let cfgStr := ",".intercalate (sortStrings (v'.cfgs.map (fun c => s!"{c.name}:{c.variant}")))
      let runStr := ",".intercalate ((sortNat v'.running).map toString)
      ({ st with v := v' }, verdictOf s!"cfg={cfgStr};run={runStr}" impl)
    | none => (st, .bad "vupd")
  | "oresp" :: k :: now :: r :: [] =>
    match k.toNat?, now.toNat? with
    | some k, some now =>
      match st.stopped[k]? with
      | none => (st, verdictOf "nok" impl)
      | some w =>
        let (_, ms, res) := step w (.startResp now (r == "err"))
        (st, verdictOf s!"{resTok res};{renderEvents (ms.map (fun x => (w.cfg.name, x)))}" impl
          (some (C19.stoppedQuiet impl)))
    | _, _ => (st, .bad "oresp")
  | [op, k] =>
    match k.toNat? with
    | none => (st, .bad op)
    | some k =>
      match st.stopped[k]? with
      | none => (st, verdictOf "nok" impl)
      | some w =>
        if op == "ohup" || op == "ohdown" then
          let (_, ms, _) := run w [if op == "ohup" then .healthUp else .healthDown, .tick 0]
          -- a stopped wrapper's worker is gone: the kick finds the channel closed
          (st, verdictOf s!"kick=false;{renderEvents (ms.map (fun x => (w.cfg.name, x)))}" impl
            (some (C19.stoppedQuiet impl)))
        else if op == "owork" then
          (st, verdictOf (resTok (step w .inWorkConn).2.2) impl (some (C19.stoppedQuiet impl)))
        else if op == "ostat" then (st, verdictOf (phaseTok w.phase) impl (some (impl == "closed")))
        else (st, .bad op)
  | ["live"] => ({}, verdictOf "N=true,ok,R=same,C=true,chk,N=true" impl (some (impl == "N=true,ok,R=same,C=true,chk,N=true")))
  | ["livebackoff"] => ({}, verdictOf "resperr,retry=after" impl (some (impl == "resperr,retry=after")))
  | _ => (st, .bad "op")

def client : Engine := { State := ClientState, init := {}, step := clientStep }

/-! ### engine "health" -/

def parseOutcome (t : String) : Option Health.Outcome :=
  if t = "R" then some .reset else if t = "T" then some .timeout else (t.toNat?).map .http

def foldActive (m : Nat) : Health.HState → List Bool → List (Option Health.Cb)
  | _, [] => []
  | s, o :: os => let r := Health.activeStep m s o; r.2 :: foldActive m r.1 os

def renderCbs (l : List (Option Health.Cb)) : String := C19.renderCbs l

def healthStep (st : Unit) (tok : List String) (impl : String) : Unit × Verdict :=
  match tok with
  | ["reset"] => (st, verdictOf "-" impl)
  | ["hcfg", i, t, m] =>
    match i.toInt?, t.toInt?, m.toInt? with
    | some i, some t, some m =>
      (st, verdictOf s!"{Health.normInterval i * 1000} {Health.normTimeout t * 1000} {Health.normMax m}" impl)
    | _, _, _ => (st, .bad "hcfg")
  | ["hprobe", m, fsf, os] =>
    match m.toInt?, fsf.toNat?, parseAll parseOutcome (os.splitOn ",") with
    | some m, some fsf, some outs =>
      let bs := outs.map (·.ok)
      if (fsf == 1) != C19.fsfFrom 0 bs then (st, .bad "fsf flag") else
      let mm := Health.normMax m
      let model := renderCbs (foldActive mm Health.init bs)
      (st, verdictOf model impl (some (C19.healthHoldsOn mm bs impl)))
    | _, _, _ => (st, .bad "hprobe")
  | ["htcp", m] =>
    match m.toInt? with
    | some m =>
      let mm := Health.normMax m
      let cbs := foldActive mm Health.init ([true] ++ List.replicate mm false ++ [true])
      (st, verdictOf (renderCbs (cbs.filter (·.isSome))) impl)
    | none => (st, .bad "htcp")
  | _ => (st, .bad "op")

def health : Engine := { State := Unit, init := (), step := healthStep }

end Engines
end Frp
