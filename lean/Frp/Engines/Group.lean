import Frp.Driver.Proto
import Frp.Props.C13
/-
  Driver engine "group" (C13): replays the harness trace (harness/eng_group.go) on the small-step
  model `Frp.Group` with the switch `Group.current`, and evaluates the C13 predicates on the
  implementation's own results.

  Inside `sched` joins AND leaves are scheduled in sections (ops hold / unhold / leaveA / leaveW next to
  lookup / enter).  The engine keeps what the code's lock discipline (`C13.code_join_one_section`,
  `code_leave_one_section`: facts regenerated from the source) implies: a leave started while a join is parked
  waits for the controller lock (`lq`); a leave whose group lock the harness holds keeps the controller lock
  and everybody behind it waits; whatever can move after `enter` / `unhold` does, in arrival order (`drain`).
  An asynchronous leave is run as its two labels `leaveEdit`, `leaveDel`.  `wedged` (an op that can never
  finish) is, like `crash`, a failure of the property.
-/
namespace Frp
namespace Engines
namespace GroupEng
open Proto Str Group

structure JoinArgs where
  key : Str
  p : Params
  grab : Bool
  manual : Bool := false

structure GroupState where
  s : St := {}
  joined : List (Str × Str) := []              -- harness `members`: m ↦ group name it joined with
  args : List (Str × JoinArgs) := []           -- parked joins
  nextConn : Nat := 0
  manual : List Str := []                      -- held members: joined, accept loop not started (harness `manual`)
  dials : List (Nat × Nat × Nat) := []         -- kept user connections still waiting: (dial id, model conn, gid)
  ids : List Nat := []                         -- dial ids used
  ports : List (Str × Nat) := []               -- tcp: member ↦ real port of its last accepted join (token `@m`)
  -- joins and leaves as separately scheduled steps (ops hold / unhold / leaveA / leaveW inside `sched`)
  hold : Option Nat := none                    -- the harness holds the group lock of this object
  lq : List (Str × Str) := []                  -- leaves started and not finished, in arrival order: they wait for
                                               -- the controller lock, or hold it and wait for the held group lock
  jwait : Option (Str × Str) := none           -- a gated join that has not reached its lookup yet (m, g)
  athreads : List Str := []                    -- asynchronous leaves whose end has not been collected (leaveW)

def kindOf : String → Option Kind
  | "tcp" => some .tcp | "http" => some .http | "mux" => some .mux | _ => none

def tokStr (t : String) : Option Str := if t = "x" then some [] else unhx t

def parseParams (k : Kind) (p1 p2 p3 p4 : String) : Option Params :=
  match k with
  | .tcp => do let a ← tokStr p1; let n ← p2.toNat?; pure (.tcp a n)
  | .http => do let d ← tokStr p1; let l ← tokStr p2; let u ← tokStr p3; pure (.http d l u)
  | .mux => do let d ← tokStr p1; let u ← tokStr p2; let n ← tokStr p3; let w ← tokStr p4; pure (.mux d u n w)

def errName : Err → String
  | .paramsInvalid => "paramsInvalid" | .differentPort => "differentPort" | .authFailed => "authFailed"
  | .repeated => "repeated" | .acquire => "acquire" | .listen => "listen" | .conflict => "conflict"

/-- oracle values read off the implementation's result -/
def oracleOf (impl : String) (grab : Bool) : Oracle :=
  match impl.splitOn ":" with
  | ["ok", rp, act] =>
    let r := rp.toNat?.getD 0
    { choice := some r, eph := if act = "=" then r else act.toNat?.getD 0, grab := grab }
  | _ => { choice := none, eph := 0, grab := grab }

def renderJoin (s : St) (m : Str) (r : Res) : String :=
  match r with
  | .ok rp =>
    if s.kind = .tcp then
      match (s.gidOf m).map s.obj with
      | some o => match o.ep with
        | .port q => if q = rp then s!"ok:{rp}:=" else s!"ok:{rp}:{q}"
        | _ => "ok:?"
      | none => "ok:?"
    else "ok"
  | .err e => "err:" ++ errName e
  | _ => "?"

def implOk (impl : String) : Bool := impl = "ok" || impl.startsWith "ok:"

def implTruthful (impl : String) : Bool :=
  match impl.splitOn ":" with
  | ["ok", _, act] => act = "="
  | _ => true

def implReported (impl : String) : Nat :=
  match impl.splitOn ":" with
  | ["ok", rp, _] => rp.toNat?.getD 0
  | _ => 0

def busyName (st : GroupState) (m g : Str) : Bool :=
  st.joined.any (fun x => x.1 == m && !(st.s.kind == .http && x.2 == g)) ||
    st.s.pend.any (·.1 == m) || st.s.pend.any (·.2.1 == g) ||
    (match st.jwait with | some (m', g') => m' == m || g' == g | none => false)

/-- the enter half of a join + bookkeeping; returns (state, model result, prop) -/
def doEnter (fx : Fix) (st : GroupState) (m g : Str) (a : JoinArgs) (impl : String) (pre : St) :
    GroupState × String × Option Bool :=
  let prop0 := C13.joinHolds pre m g a.key a.p (implOk impl) (implTruthful impl) (implReported impl)
  match step fx st.s (.enter m a.key a.p (oracleOf impl a.grab)) with
  | none => (st, "impossible", some prop0)
  | some (s', r) =>
    -- "can be created again immediately": creation on an endpoint a dissolved group has held
    let prop := prop0 && C13.recreateHolds pre g a.p (match r with | .ok _ => true | _ => false) (implOk impl)
    let ports := match r with
      | .ok rp => if st.s.kind == .tcp then (m, rp) :: st.ports.filter (fun x => !(x.1 == m)) else st.ports
      | _ => st.ports
    let st := { st with ports := ports }
    let joined := match r with
      | .ok _ => (m, g) :: st.joined.filter (fun x => !(x.1 == m))
      | _ => st.joined
    let manual := match r with
      | .ok _ => if a.manual then m :: st.manual.filter (fun x => !(x == m)) else st.manual.filter (fun x => !(x == m))
      | _ => st.manual
    ({ st with s := s', joined := joined, manual := manual }, renderJoin s' m r, some prop)

/-- endpoints currently held: (key, some gid = a group object | none = somebody else) -/
def holders (s : St) : List (EpKey × Option Nat) :=
  s.ext.map (fun k => (k, none)) ++
    (s.objs.zipIdx.filter (fun x => x.1.lnOpen)).map (fun x => (x.1.ep, some x.2))

/-- `Routers.Get(host, path, user)`: same domain and user, location a prefix of the path, longest first -/
def routeGet (s : St) (d path u : Str) : Option (Option Nat) :=
  let cands := (holders s).filterMap (fun x => match x.1 with
    | .route d' l' u' => if d' = d ∧ u' = u ∧ l'.isPrefixOf path then some (l'.length, x.2) else none
    | _ => none)
  match cands with
  | [] => none
  | c :: cs => some (cs.foldl (fun best y => if y.1 > best.1 then y else best) c).2

/-- getVhost / getListener without wildcard domains: user-specific route first, then user "" -/
def routeFind (s : St) (d path u : Str) : Option (Option Nat) :=
  match routeGet s (toLower d) path u with
  | some r => some r
  | none => routeGet s (toLower d) path []

def memberOfImpl (impl : String) : Option Str :=
  if impl.startsWith "to:" then unhx (impl.drop 3).toString else none

/-- a connection reaches the worker of object `gid` (tcp / mux) -/
def deliver (fx : Fix) (st : GroupState) (gid : Nat) (impl : String) : GroupState × String × Option Bool :=
  let o := st.s.obj gid
  let got := memberOfImpl impl
  let prop := some (C13.connHolds (some o) (st.joined.map (·.1)) got)
  if o.workerDead then (st, "stuck", prop) else
  let c := st.nextConn
  match step fx st.s (.accept c gid) with
  | none => (st, "impossible", prop)
  | some (s1, _) =>
    let st1 := { st with s := s1, nextConn := c + 1 }
    -- only a member that is inside Accept can be the receiver
    let auto := o.members.filter (fun m => !st.manual.contains m)
    let m := match got with
      | some m => if auto.contains m then m else auto.headD []
      | none => auto.headD []
    match step fx s1 (.handoff c m) with
    | none => (st1, "blocked", prop)
    | some (s2, .to m') => ({ st1 with s := s2 }, "to:" ++ hx m', prop)
    | some (s2, _) => ({ st1 with s := s2 }, if fx.closeOnFail then "closed" else "stuck", prop)

def sortStrings (l : List String) : List String := l.mergeSort (fun a b => !(b < a))

def sortNats (l : List Nat) : List Nat := l.mergeSort (fun a b => a ≤ b)

def viewOf (s : St) : String :=
  match s.kind with
  | .tcp =>
    let used := sortNats (s.leaked ++ (s.objs.filter (·.lnOpen)).map (·.realPort))
    "used=" ++ ",".intercalate (used.map (fun (n : Nat) => s!"{n}"))
  | .http =>
    let rs := (holders s).filterMap (fun x => match x.1 with
      | .route d l u => some (hx d ++ "/" ++ hx l ++ "/" ++ hx u)
      | _ => none)
    "routes=" ++ ",".intercalate (sortStrings rs)
  | .mux => "-"

def epOfTokens (k : Kind) (a b c : String) : Option EpKey :=
  match k with
  | .tcp => a.toNat?.map .port
  | .http => do let d ← tokStr a; let l ← tokStr b; let u ← tokStr c; pure (.route (toLower d) l u)
  | .mux => do let d ← tokStr a; let u ← tokStr b; pure (.route (toLower d) [] u)

/-- every listed member of the object is held (none is inside Accept) -/
def allHeld (st : GroupState) (gid : Nat) : Bool :=
  let o := st.s.obj gid
  !o.members.isEmpty && o.members.all st.manual.contains

def parseFates (suf : String) : List (Nat × String) :=
  (suf.splitOn ",").filterMap (fun p => match p.splitOn "=" with
    | [a, b] => a.toNat?.map (fun n => (n, b))
    | _ => none)

def fateOf : Option String → C13.Fate
  | none => .waiting
  | some r => match memberOfImpl r with
    | some m => .to m
    | none => if r = "stuck" then .waiting else .closed

/-- a kept connection reaches the worker of object `gid` -/
def keep (fx : Fix) (st : GroupState) (id gid : Nat) : GroupState × String × Option Bool :=
  let c := st.nextConn
  match step fx st.s (.accept c gid) with
  | none => (st, "impossible", none)
  | some (s1, _) => ({ st with s := s1, nextConn := c + 1, dials := st.dials ++ [(id, c, gid)] }, "c", none)

/-- what happens, by the end of an op, to the kept connections that are still waiting — in id order.
    Channel closed (the group lost its last member): the worker's send fails and the connection is
    closed.  Some member is inside Accept: the hand-off completes with one of them (the
    implementation says which; any accepting member is allowed).  Otherwise it keeps waiting.
    The property predicate `pendHolds` is evaluated on what the implementation reports. -/
def settle (fx : Fix) (st : GroupState) (suffix : String) : GroupState × String × Option Bool :=
  let impls := parseFates suffix
  let ds := st.dials.mergeSort (fun a b => a.1 ≤ b.1)
  let (st', parts, prop) := ds.foldl (fun (acc : GroupState × List String × Option Bool) d =>
    let (st, parts, prop) := acc
    let (id, c, gid) := d
    let o := st.s.obj gid
    let implR := impls.lookup id
    let live := st.joined.map (·.1)
    let accepting := live.filter (fun m => !st.manual.contains m)
    let prop := some (prop.getD true && C13.pendHolds o live accepting (fateOf implR))
    let auto := o.members.filter (fun m => !st.manual.contains m)
    let gone := st.dials.filter (fun x => !(x.1 == id))
    if o.chClosed then
      match step fx st.s (.send c) with
      | some (s', _) =>
        ({ st with s := s', dials := gone }, if fx.closeOnFail then s!"{id}=closed" :: parts else parts, prop)
      | none => (st, parts, prop)
    else if auto.isEmpty then (st, parts, prop)
    else
      let m := match implR.bind memberOfImpl with
        | some m => if auto.contains m then m else auto.headD []
        | none => auto.headD []
      match step fx st.s (.handoff c m) with
      | some (s', .to m') => ({ st with s := s', dials := gone }, (s!"{id}=to:" ++ hx m') :: parts, prop)
      | _ => (st, parts, prop)) (st, [], none)
  (st', ",".intercalate parts.reverse, prop)

/-- one leave as its two sections, run back to back (`C13.leaveL_eq_sections` / `leaveG_eq_sections`: the same
    as the big-step label); returns the new model state and whether frps died -/
def runLeave (fx : Fix) (s : St) (m g : Str) : St × Bool :=
  let gid? := if s.kind = .http then s.table.lookup g else s.gidOf m
  match gid? with
  | none => (s, false)
  | some gid =>
    if (s.obj gid).members.contains m then
      match step fx s (.leaveEdit m gid) with
      | none => (s, false)
      | some (s1, .crash) => (s1, true)
      | some (s1, _) =>
        if s1.pdel.any (·.1 == m) then
          match step fx s1 (.leaveDel m) with
          | some (s2, _) => (s2, false)
          | none => (s1, false)
        else (s1, false)
    else
      match step fx s (.leaveG m g) with
      | some (s1, _) => (s1, false)
      | none => (s, false)

/-- the object whose group lock a leave of (m, g) needs -/
def leaveObj (s : St) (m g : Str) : Option Nat := if s.kind = .http then s.table.lookup g else s.gidOf m

/-- whatever can move after a lock was released does: the queued leaves in arrival order (the first one holds
    the controller lock — it stops everything if the harness holds its group lock), then the waiting join's lookup
    (which parks it at the gate, holding the controller lock) -/
def drain (fx : Fix) : Nat → GroupState → GroupState
  | 0, st => st
  | fuel + 1, st =>
    if st.s.lock.isSome then st else
    match st.lq with
    | (m, g) :: rest =>
      if st.hold.isSome && leaveObj st.s m g == st.hold then st
      else drain fx fuel { st with s := (runLeave fx st.s m g).1, lq := rest }
    | [] =>
      match st.jwait with
      | none => st
      | some (m, g) =>
        match step fx st.s (.lookup m g) with
        | some (s1, _) => { st with s := s1, jwait := none }
        | none => st

def parseNats (t : String) : List Nat := (t.splitOn ",").filterMap (·.toNat?)

def parseRoutes (t : String) : List EpKey :=
  (t.splitOn ",").filterMap (fun r => match r.splitOn "/" with
    | [d, l, u] => do let d ← unhx d; let l ← unhx l; let u ← unhx u; pure (EpKey.route d l u)
    | _ => none)

/-- the property on a dump of the real port manager / router: nothing is held that no populated group (and no
    outsider) holds -/
def viewProp (s : St) (impl : String) : Option Bool :=
  let body := (impl.splitOn " open=").headD ""
  match s.kind with
  | .tcp => if body.startsWith "used=" then some (C13.usedHolds s (parseNats (body.drop 5).toString)) else none
  | .http => if body.startsWith "routes=" then some (C13.routesHolds s (parseRoutes (body.drop 7).toString)) else none
  | .mux => none

/-- tcp: the port token `@<m>` = the real port last reported to member m -/
def resolvePort (st : GroupState) (p2 : String) : Option String :=
  if p2.startsWith "@" then
    match unhx (p2.drop 1).toString with
    | some m => (st.ports.lookup m).map (fun (n : Nat) => s!"{n}")
    | none => none
  else some p2

/-- one op (everything except `reset` and `sched`) -/
def groupOpBase (fx : Fix) (st : GroupState) (tok : List String) (impl : String) :
    GroupState × String × Option Bool :=
  match tok with
  | [op, m, g, key, p1, p2raw, p3, p4, grab] =>
    let p2? := if st.s.kind == .tcp then resolvePort st p2raw else some p2raw
    match p2? with
    | none =>
      (match tokStr m, tokStr g with
       | some m, some g => if busyName st m g then (st, "busy", none) else (st, "noref", none)
       | _, _ => (st, "badargs", none))
    | some p2 =>
    match tokStr m, tokStr g, tokStr key, parseParams st.s.kind p1 p2 p3 p4 with
    | some m, some g, some key, some p =>
      -- the harness can grab only a port it knows in advance (a fixed port)
      let a : JoinArgs := { key := key, p := p,
                            grab := grab = "1" && (match p with | .tcp _ 0 => false | _ => true),
                            manual := grab = "2" && st.s.kind != .http }
      if op = "join" then
        if busyName st m g then (st, "busy", none) else
        match step fx st.s (.lookup m g) with
        | none => (st, "impossible", none)
        | some (s1, _) => doEnter fx { st with s := s1 } m g a impl st.s
      else if op = "lookup" then
        if busyName st m g then (st, "busy", none) else
        -- the controller lock is with a leave (queued behind a hold) or with another parked join: wait for it
        if !st.lq.isEmpty || st.s.lock.isSome then
          ({ st with jwait := some (m, g), args := (m, a) :: st.args }, "waiting", none) else
        match step fx st.s (.lookup m g) with
        | none => (st, "impossible", none)
        | some (s1, _) => ({ st with s := s1, args := (m, a) :: st.args }, "parked", none)
      else (st, "badop", none)
    | _, _, _, _ => (st, "badargs", none)
  | ["enter", m] =>
    match tokStr m with
    | none => (st, "badargs", none)
    | some m =>
      match st.s.pend.find? (·.1 == m), st.args.find? (·.1 == m) with
      | some (_, g, _), some (_, a) =>
        if st.hold.isSome then (st, "premature", none) else
        let (st1, r, p) := doEnter fx { st with args := st.args.filter (fun x => !(x.1 == m)) } m g a impl st.s
        -- the controller lock is free again
        (drain fx (st1.lq.length + 2) st1, r, p)
      | _, _ =>
        if (st.jwait.map (·.1)) == some m then (st, "premature", none) else (st, "nopend", none)
  | ["leave", m] =>
    match tokStr m with
    | none => (st, "badargs", none)
    | some m =>
      match st.joined.find? (·.1 == m) with
      | none => (st, "nomember", none)
      | some (_, g) =>
        let st1 := { st with joined := st.joined.filter (fun x => !(x.1 == m)),
                             manual := st.manual.filter (fun x => !(x == m)) }
        let lab := if st.s.kind = .http then some (Label.leaveG m g)
                   else (st.s.gidOf m).map (Label.leaveL m)
        match lab with
        | none => (st1, "impossible", none)
        | some lab =>
          match step fx st.s lab with
          | none => (st1, "impossible", none)
          | some (s', .crash) => ({ st1 with s := s' }, "crash", none)
          | some (s', _) => ({ st1 with s := s' }, "-", none)
  | ["hold", g] =>
    match tokStr g with
    | none => (st, "badargs", none)
    | some g =>
      if st.hold.isSome then (st, "busy", none) else
      match st.s.table.lookup g with
      | none => (st, "nogroup", none)
      | some gid => ({ st with hold := some gid }, "held", none)
  | ["unhold"] =>
    if st.hold.isNone then (st, "noop", none) else
    let st1 := { st with hold := none }
    (drain fx (st1.lq.length + 2) st1, "-", none)
  | ["leaveA", m] =>
    match tokStr m with
    | none => (st, "badargs", none)
    | some m =>
      if st.athreads.contains m then (st, "dup", none) else
      match st.joined.find? (·.1 == m) with
      | none => (st, "nomember", none)
      | some (_, g) =>
        let st1 := { st with joined := st.joined.filter (fun x => !(x.1 == m)),
                             manual := st.manual.filter (fun x => !(x == m)) }
        let byLock := st.s.lock.isSome || !st.lq.isEmpty
        let byHold := st.hold.isSome && leaveObj st.s m g == st.hold
        if byLock || byHold then
          ({ st1 with lq := st.lq ++ [(m, g)], athreads := m :: st.athreads }, "waiting", none)
        else
          let (s', dead) := runLeave fx st.s m g
          ({ st1 with s := s' }, if dead then "crash" else "-", none)
  | ["leaveW", m] =>
    match tokStr m with
    | none => (st, "badargs", none)
    | some m =>
      if !st.athreads.contains m then (st, "noasync", none) else
      if !st.lq.any (·.1 == m) then ({ st with athreads := st.athreads.filter (fun x => !(x == m)) }, "-", none)
      else if st.hold.isSome || !st.s.pend.isEmpty || st.jwait.isSome then (st, "premature", none)
      else (st, "impossible", none)
  | ["resume", m] =>
    match tokStr m with
    | none => (st, "badargs", none)
    | some m =>
      if st.s.kind != .http && st.joined.any (·.1 == m) && st.manual.contains m then
        ({ st with manual := st.manual.filter (fun x => !(x == m)) }, "-", none)
      else (st, "noop", none)
  | ["dial", id, a, b, c] =>
    match id.toNat? with
    | none => (st, "badargs", none)
    | some id =>
      if st.ids.contains id then (st, "dupid", none) else
      let st1 := { st with ids := id :: st.ids }
      match st.s.kind with
      | .http => (st, "badop", none)
      | .tcp =>
        match a.toNat? with
        | none => (st, "badargs", none)
        | some r =>
          if st.s.ext.contains (.port r) then (st1, "squat", none) else
          match st.s.owner (.port r) with
          | none => (st1, "refused", none)
          | some gid => keep fx st1 id gid
      | .mux =>
        -- one kept connection at a time (a second one would wait inside vhost.Muxer.handle, not in the group)
        if !st.dials.isEmpty then (st, "busy", none) else
        match tokStr a, tokStr b, tokStr c with
        | some d, some u, some pw =>
          match routeFind st.s d [] u with
          | none => (st1, "noroute", none)
          | some none => (st1, "squat", none)
          | some (some gid) =>
            match (st.s.obj gid).params with
            | .mux _ _ un pw' =>
              if un ≠ [] ∧ (un ≠ u ∨ pw' ≠ pw) then (st1, "unauth", none) else keep fx st1 id gid
            | _ => (st, "impossible", none)
        | _, _, _ => (st, "badargs", none)
  | ["conn", a0, b, c] =>
    let got := memberOfImpl impl
    if st.s.kind == .tcp && a0.startsWith "@" && (resolvePort st a0).isNone then (st, "noref", none) else
    let a := if st.s.kind == .tcp then (resolvePort st a0).getD a0 else a0
    match st.s.kind with
    | .tcp =>
      match a.toNat? with
      | none => (st, "badargs", none)
      | some r =>
        if st.s.ext.contains (.port r) then (st, "squat", some (C13.connHolds none [] got)) else
        match st.s.owner (.port r) with
        | none => (st, "refused", some (C13.connHolds none [] got))
        | some gid => if allHeld st gid then (st, "held", none) else deliver fx st gid impl
    | .http =>
      match tokStr a, tokStr b, tokStr c with
      | some d, some l, some u =>
        match routeFind st.s d l u with
        | none => (st, "noroute", some (C13.connHolds none [] got))
        | some none => (st, "squat", some (C13.connHolds none [] got))
        | some (some gid) =>
          let o := st.s.obj gid
          match step fx st.s (.request gid) with
          | some (s', .to m) =>
            -- http: the request must go to the member the rotation `index mod n` designates
            ({ st with s := s' }, "to:" ++ hx m,
              some (C13.connHolds (some o) (st.joined.map (·.1)) got && got == some m))
          | some (s', _) => ({ st with s := s' }, "nomember", some (C13.connHolds (some o) (st.joined.map (·.1)) got))
          | none => (st, "impossible", none)
      | _, _, _ => (st, "badargs", none)
    | .mux =>
      if !st.dials.isEmpty then (st, "busy", none) else
      match tokStr a, tokStr b, tokStr c with
      | some d, some u, some pw =>
        match routeFind st.s d [] u with
        | none => (st, "noroute", some (C13.connHolds none [] got))
        | some none => (st, "squat", some (C13.connHolds none [] got))
        | some (some gid) =>
          if allHeld st gid then (st, "held", none) else
          match (st.s.obj gid).params with
          | .mux _ _ un pw' =>
            -- Muxer.handle: `if l.username != "" { checkAuth }`
            if un ≠ [] ∧ (un ≠ u ∨ pw' ≠ pw) then (st, "unauth", some (got.isNone)) else deliver fx st gid impl
          | _ => (st, "impossible", none)
      | _, _, _ => (st, "badargs", none)
  | ["squat", a, b, c] =>
    match epOfTokens st.s.kind a b c with
    | none => (st, "badargs", none)
    | some k =>
      match step fx st.s (.squat k) with
      | none => (st, "busy", none)
      | some (s', _) => ({ st with s := s' }, "ok", none)
  | ["unsquat", a, b, c] =>
    match epOfTokens st.s.kind a b c with
    | none => (st, "badargs", none)
    | some k =>
      match step fx st.s (.unsquat k) with
      | none => (st, "impossible", none)
      | some (s', _) => ({ st with s := s' }, "-", none)
  | ["view"] =>
    let ids := sortNats (st.dials.map (·.1))
    (st, viewOf st.s ++ (if ids.isEmpty then "" else " open=" ++ ",".intercalate (ids.map (fun (n : Nat) => s!"{n}"))),
      viewProp st.s impl)
  | _ => (st, "badop", none)

def andProp (a b : Option Bool) : Option Bool :=
  match a, b with
  | some false, _ => some false
  | _, some false => some false
  | some true, _ => some true
  | _, x => x

/-- the op itself, then (tcp / tcpmux; join, enter, leave, resume, dial) what became of the kept
    connections: the implementation's result is `<op result>[|<id>=<fate>,…]` -/
def groupOp (fx : Fix) (st : GroupState) (tok : List String) (impl : String) :
    GroupState × String × Option Bool :=
  let (implBase, implSuf) := match impl.splitOn "|" with
    | [b, s] => (b, s)
    | _ => (impl, "")
  -- http: `connE` is the same request through ServeHTTP (chooseEndpoint + createConnByEndpoint);
  -- both paths share the group's index and must rotate identically
  let tok := match tok with
    | "connE" :: rest => if st.s.kind == .http then "conn" :: rest else tok
    | _ => tok
  let (st1, r, p) := groupOpBase fx st tok implBase
  if st1.s.kind != .http && implBase != "blocked" &&
      ["join", "enter", "leave", "resume", "dial"].contains (tok.headD "") then
    let (st2, suf, p2) := settle fx st1 implSuf
    (st2, if suf = "" then r else r ++ "|" ++ suf, andProp p p2)
  else (st1, r, p)

def freshState (k : Kind) : GroupState := { s := init k [1, 2, 3, 4, 5, 6, 7, 8] }

/-- a schedule run in the sacrificial child: fresh world, inner ops, the child may die -/
def schedRun (fx : Fix) : GroupState → List String → List String → List String → Option Bool →
    List String × Option Bool
  | _, [], _, acc, pr => (acc.reverse, pr)
  | st, op :: ops, impls, acc, pr =>
    match impls with
    | [] => (acc.reverse, pr)          -- the child died before this op
    | impl :: rest =>
      if impl = "crash" || impl.startsWith "wedged" then
        -- the child died executing this op / the op can never finish (deadlock): frps is down either way
        let (_, r, p) := groupOp fx st ((op.splitOn ",").filter (· ≠ "")) impl
        ((r :: acc).reverse, andProp (andProp pr p) (some false))
      else
        let (st', r, p) := groupOp fx st ((op.splitOn ",").filter (· ≠ "")) impl
        if r = "crash" then ((r :: acc).reverse, andProp pr p)
        else schedRun fx st' ops rest (r :: acc) (andProp pr p)

def groupStep (st : GroupState) (tok : List String) (impl : String) : GroupState × Verdict :=
  match tok with
  | ["reset", k] =>
    match kindOf k with
    | some k => (freshState k, verdictOf "-" impl)
    | none => (st, .bad "kind")
  | ["sched", k, enc] =>
    match kindOf k with
    | none => (st, .bad "kind")
    | some k =>
      let impls := impl.splitOn ";"
      if impls.contains "nogate" then (st, .skip "tree has no lookup/join gates (hooks/C13.patch)") else
      if current.oneLock && impls.contains "blocked" then
        (st, .skip "one-lock controllers: the op waits for the parked join (schedule not enabled)") else
      let (rs, pr) := schedRun current (freshState k) (enc.splitOn ";") impls [] none
      (st, verdictOf (";".intercalate rs) impl pr)
  | _ =>
    let (st', r, pr) := groupOp current st tok impl
    (st', verdictOf r impl pr)

def engine : Engine := { State := GroupState, init := {}, step := groupStep }

end GroupEng

def group : Proto.Engine := GroupEng.engine

end Engines
end Frp
