import Frp.Engines.ConfBase
import Frp.Model.CmdSpec
import Frp.Props.C18Type
/-
  Driver engine "conf" (C18), second part: one logical definition through files on disk, JSON, flags
  (`cf`), raw flag parsing on the regenerated registration tables (`fl`, `dfl`), client-side and server
  validators (`cval`, `sval`), `parseNumberRange`, `BandwidthQuantity.Equal`, and the differential
  loader ops (`load`, `sload`, `sx`, `cx`, `env`).  Everything else is answered by `ConfBase`.
-/
namespace Frp
namespace Engines
open Proto ProxyMsg Gen.ProxyMsg ConfNum Validate Flags Gen.Flags TypedConf Gen.TypedConf TypeDispatch

namespace Conf

def parseKVsS (kvs : List String) : Option (List (Str × Value)) :=
  kvs.mapM fun (kv : String) =>
    match splitFirst kv "=" with
    | some (k, v) => do pure (Str.ofString k, (← parseValue v))
    | none => none

def recOfS (kvs : List (Str × Value)) : Rec Str := kvs.foldl (fun r (k, v) => r.set k v) Rec.empty

def implRecOf (impl : String) : Option (List (Str × Value)) :=
  match impl.splitOn " " with
  | "ok" :: rest => parseKVsS (rest.filter (· ≠ ""))
  | _ => none

def renderKVs (keys : List Str) (get : Str → Value) : String :=
  " ".intercalate ("ok" :: keys.map fun k => Str.toString k ++ "=" ++ renderValue (get k))

/-- the model's answer as a string: the implementation's own line when every listed field agrees
    up to `nrm`, else the model's rendering -/
def answer (nrm : Value → Value) (keys : List Str) (get : Str → Value) (implRec : Option (Rec Str)) (impl : String) : String :=
  match implRec with
  | some i => if keys.all (fun k => nrm (i.get k).canon == nrm (get k).canon) then impl else renderKVs keys get
  | none => renderKVs keys get

def vtOfName (n : String) : Option VT := VT.all.find? (fun t => t.name = n)

/-! ### fl / dfl -/

def parseForm : String → Option Form
  | "e" => some .eq | "s" => some .sp | "b" => some .bare | "h" => some .shEq | "g" => some .shSp
  | _ => none

def parseArg (t : String) : Option Arg :=
  match t.splitOn ":" with
  | [f, n, v] => do pure ⟨(← parseForm f), Str.ofString n, (← unhex v)⟩
  | _ => none

/-- (registrations of the real command, documented registrations) -/
def cmdOf (group : String) (ssh : Bool) : Option (List Bound × List Bound) :=
  if group = "s" then some (serverCmd, C18.expServerCmd)
  else match splitFirst group ":" with
    | some ("p", t) => (ptOfName t).map fun t => (proxyCmd t ssh, C18.expProxyCmd t ssh)
    | some ("v", t) => (vtOfName t).map fun _ => (visitorCmd, C18.expVisitorCmd)
    | _ => none

def flStep (group ssh : String) (toks : List String) (impl : String) : Verdict :=
  match cmdOf group (ssh = "1"), toks.mapM parseArg with
  | some (real, expd), some args =>
    match run real (!boolFuncIgnoresArg) args with
    | .unsupported why => .skip why
    | res =>
      let ikv := implRecOf impl
      let keys := (ikv.map fun l => l.map (·.1)).getD []
      let irec := ikv.map recOfS
      let model := match res with
        | .ok r => answer C18.canonE keys (readKey real r) irec impl
        | _ => "err"
      verdictOf model impl (C18.flHoldsOn (run expd true args) expd keys irec)
  | _, _ => .bad "fl"

def sortStrs (l : List String) : List String := (l.toArray.qsort (· < ·)).toList

def usgStep (group ssh impl : String) : Verdict :=
  match cmdOf group (ssh = "1") with
  | some (real, expd) =>
    let model := ",".intercalate (sortStrs (real.map usageItem))
    let items := impl.splitOn ","
    verdictOf model impl (some (expd.all fun b => items.contains (usageItem b)))
  | none => .bad "usg"

def mismatchTargets (pfx : String) (rs : List Reg) : List String :=
  (rs.filter fun r => C18.canonE (defaultValue r.kind r.dflt) != C18.canonE (C18.fileDefault (Str.ofString pfx ++ r.target))).map
    fun r => Str.toString r.target

def sameSet (a b : String) : Bool :=
  sortStrs ((a.splitOn ",").filter (· ≠ "")) == sortStrs ((b.splitOn ",").filter (· ≠ ""))

/-- the differences the harness reports between "empty argv, then Complete" and "empty file, loaded" -/
def dflModel (group : List String) : Option String :=
  let fmt := fun (common own : List String) (tag : String) =>
    if common.isEmpty && own.isEmpty then "same"
    else if own.isEmpty then "differ " ++ ",".intercalate common
    else if common.isEmpty then "differ " ++ ",".intercalate own
    else "differ " ++ ",".intercalate common ++ ";" ++ tag ++ ":" ++ ",".intercalate own
  match group with
  | ["s"] => some (fmt (mismatchTargets "Server." server) [] "")
  | ["s", "bind"] =>
    -- the file default of ProxyBindAddr is BindAddr (here 127.0.0.1), the flag default is a constant
    let pba := server.filter fun r => r.target = Str.ofString "ProxyBindAddr" && r.dflt != Str.ofString "127.0.0.1"
    some (fmt (pba.map (fun r => Str.toString r.target) ++ (mismatchTargets "Server." server).filter (· ≠ "ProxyBindAddr")) [] "")
  | [g] =>
    match splitFirst g ":" with
    | some ("p", t) => (ptOfName t).map fun t => fmt (mismatchTargets "Client." clientCommon) (mismatchTargets "" (proxyRegs t)) "proxy"
    | some ("v", t) => (vtOfName t).map fun _ => fmt (mismatchTargets "Client." clientCommon) (mismatchTargets "" visitorBase) "visitor"
    | _ => none
  | _ => none

def dflStep (group : List String) (impl : String) : Verdict :=
  match dflModel group with
  | some m =>
    let strip := fun (s : String) => if s.startsWith "differ " then (s.drop 7).toString else s
    let model := if m.startsWith "differ " && impl.startsWith "differ " && !(impl.contains ';') && !(m.contains ';')
        && sameSet (strip m) (strip impl) then impl else m
    verdictOf model impl (some (impl = "same"))
  | none => .bad "dfl"

/-! ### cf -/

def bwReparse : Value → Value
  | .bw s _ => bwParse (.str s)
  | v => v

def cfStep (root via user : String) (kvs : List String) (impl : String) : Verdict :=
  match splitFirst root ":", unhx user, parseKVsS kvs with
  | some (kind, tn), some user, some kv =>
    if kv.any (fun (_, v) => !bwSupported v) then .skip "bandwidth-literal-outside-model" else
    let text := via ≠ "mem"                    -- the value travels as text (file, JSON, flag)
    let c := recOfS (kv.map fun (k, v) => (k, if text then bwReparse v else v))
    let nrm : Value → Value := if via = "js" || via = "flag" then C18.canonE else id
    let keys := kv.map (·.1)
    let irec := (implRecOf impl).map recOfS
    let go := fun (model spec : Str → Value) =>
      let prop := match irec with
        | some i => C18.cfHoldsOn spec nrm keys i
        | none => false
      verdictOf (answer nrm keys model irec impl) impl (some prop)
    if kind = "p" then
      match ptOfName tn with
      | some _ => go (proxyComplete user c).get (C18.proxySpec user c)
      | none => .bad "cf: proxy type"
    else if kind = "v" then
      match vtOfName tn with
      | some t => go (visitorComplete t user c).get (closedForm user (C18.expVisitorSteps t) c)
      | none => .bad "cf: visitor type"
    else .bad "cf: root"
  | _, _, _ => .bad "cf"

/-! ### validators -/

def strsOf : Value → List Str
  | .strs l => l
  | _ => []

def isAlnum (c : Nat) : Bool := (48 ≤ c && c ≤ 57) || (65 ≤ c && c ≤ 90) || (97 ≤ c && c ≤ 122)

/-- annotation keys inside the fragment that needs no model of IsQualifiedName: a plain name
    (alphanumeric ends, `-_.` inside, at most 63 bytes), optionally after a lower-case DNS prefix and "/" -/
def plainAnnKey (k : Str) : Bool :=
  let name := fun (n : Str) => n ≠ [] && n.length ≤ 63 && isAlnum (n.headD 0) && isAlnum (n.getLastD 0) &&
    n.all fun c => isAlnum c || c = 45 || c = 95 || c = 46
  match Str.splitOn 47 k with
  | [n] => name n
  | [p, n] => name n && p ≠ [] && p.all (fun c => (97 ≤ c && c ≤ 122) || (48 ≤ c && c ≤ 57) || c = 46) &&
      isAlnum (p.headD 0) && isAlnum (p.getLastD 0) && !(Validate.contains p [46, 46])
  | _ => false

def pkindOf : String → Option PKind
  | "tcp" => some .tcp | "udp" => some .udp | "tcpmux" => some .tcpmux | "http" => some .http
  | "https" => some .https | "stcp" => some .stcp | "xtcp" => some .xtcp | "sudp" => some .sudp
  | _ => none

def S (s : String) : Str := Str.ofString s

def cvalStep (root : String) (kvs : List String) (impl : String) : Verdict :=
  match splitFirst root ":", parseKVsS kvs with
  | some ("p", tn), some kv =>
    match pkindOf tn with
    | none => .bad "cval: type"
    | some k =>
      let c := recOfS kv
      let annKeys : List Str := match c.get (S "Annotations") with | .smap m => m.map (fun (p : Str × Str) => p.1) | _ => []
      if !(annKeys.all fun a => plainAnnKey (Str.toLower a)) then .skip "annotation-key-outside-model" else
      let v : ProxyView := {
        name := asStr (c.get (S "Name")), proxyProtocolVersion := asStr (c.get (S "Transport.ProxyProtocolVersion")),
        bandwidthLimitMode := asStr (c.get (S "Transport.BandwidthLimitMode")),
        pluginType := asStr (c.get (S "Plugin.Type")), pluginLocalAddr := asStr (c.get (S "Plugin.LocalAddr")),
        pluginLocalPath := asStr (c.get (S "Plugin.LocalPath")), pluginUnixPath := asStr (c.get (S "Plugin.UnixPath")),
        localPort := asInt (c.get (S "LocalPort")), healthCheckType := asStr (c.get (S "HealthCheck.Type")),
        healthCheckPath := asStr (c.get (S "HealthCheck.Path")), subDomain := asStr (c.get (S "SubDomain")),
        customDomains := strsOf (c.get (S "CustomDomains")), multiplexer := asStr (c.get (S "Multiplexer")) }
      let model := match validateProxyForClient k v with
        | none => "ok" | some .name => "name" | some .ppv => "ppv" | some .bwmode => "bwmode" | some .port => "port"
        | some .hctype => "hctype" | some .hcpath => "hcpath" | some .domains => "domains" | some .mux => "mux" | some .plugin => "plugin"
      verdictOf model impl (some (C18.clientHoldsOn k v (impl = "ok")))
  | some ("v", tn), some kv =>
    match vtOfName tn with
    | none => .bad "cval: visitor type"
    | some t =>
      let c := recOfS kv
      let x := t.name = "xtcp"
      let name := asStr (c.get (S "Name"))
      let sname := asStr (c.get (S "ServerName"))
      let port := asInt (c.get (S "BindPort"))
      let proto := asStr (c.get (S "Protocol"))
      let model := match validateVisitor x name sname port proto with
        | none => "ok" | some .name => "name" | some .serverName => "sname" | some .bindPort => "bport" | some .protocol => "proto"
      verdictOf model impl (some (C18.visitorHoldsOn x name sname port proto (impl = "ok")))
  | _, _ => .bad "cval"

def svalStep (kvs : List String) (impl : String) : Verdict :=
  match parseKVsS kvs with
  | some kv =>
    let v := CmdSpec.serverViewOf (recOfS kv) false
    verdictOf (CmdSpec.errTags (validateServer v)) impl (some (C18.serverHoldsOn v (impl = "ok")))
  | none => .bad "sval"

/-- `svalv <via> k=v…` / `ccval <via> k=v…`: the blocks of a server / client common definition generated
    independently, judged by the real validator after the definition went through memory, a file of one of the
    three formats (LoadServerConfig / LoadClientConfig) or argv (Register*Flags + Complete) -/
def svalvStep (via : String) (kvs : List String) (impl : String) : Verdict :=
  match parseKVsS kvs with
  | some kv =>
    let v := CmdSpec.serverViewOf (recOfS kv) (via ≠ "mem")
    verdictOf (CmdSpec.errTags (validateServer v)) impl (some (C18.serverHoldsOn v (impl = "ok")))
  | none => .bad "svalv"

def ccvalStep (via : String) (kvs : List String) (impl : String) : Verdict :=
  match parseKVsS kvs with
  | some kv =>
    let v := CmdSpec.clientCommonViewOf (recOfS kv) (via ≠ "mem")
    verdictOf (CmdSpec.errTags (validateClientCommon v)) impl (some (C18.clientCommonHoldsOn v (impl = "ok")))
  | none => .bad "ccval"

/-! ### loads that overlap in time (`pload`), the loaded configuration handed on (`own`) -/

/-- `<fmt>.<strict>.<level>.<pos>` with `n` proxies and 3 visitors: the load as the model sees it -/
def parseLoadSpec (n : Nat) (spec : String) : Option StrictLoad.Load :=
  match spec.splitOn "." with
  | [_fmt, strict, level, pos] =>
    let m := n + 3
    let k := if pos = "first" then 0 else if pos = "mid" then m / 2 else m - 1
    let isNested := level = "proxy" || level = "plugin" || level = "visitor" || level = "vplugin"
    if !(isNested || level = "none" || level = "top") then none else
    some { strict := strict = "1", top := level = "top",
           nested := if isNested then List.replicate k false ++ [true] ++ List.replicate (m - k - 1) false
                     else List.replicate m false }
  | _ => none

def verdictsOf (s : String) : Option (List Bool) :=
  (s.splitOn ",").mapM fun v => if v = "rej" then some true else if v = "acc" then some false else none

def ploadStep (n : String) (specs : List String) (impl : String) : Verdict :=
  match n.toNat?, specs with
  | some n, _ :: _ =>
    match specs.mapM (parseLoadSpec n) with
    | none => .bad "pload: spec"
    | some loads =>
      -- `strict_verdict_own`: alone or overlapping, each load gives its own verdict
      let want := ",".intercalate (loads.map fun l => if StrictLoad.rejects l then "rej" else "acc")
      let model := "seq=" ++ want ++ " conc=" ++ want
      let prop := match (impl.splitOn " conc=").map (fun p => (p.splitOn "seq=").getLastD "") with
        | [sq, cc] =>
          match verdictsOf sq, verdictsOf cc with
          | some a, some b => C18.strictHoldsOn loads a && C18.strictHoldsOn loads b
          | _, _ => false
        | _ => false
      verdictOf model impl (some prop)
  | _, _ => .bad "pload"

/-! ### the `type` of a definition through the real loader (`ty`) -/

/-- `x<hex>` = the spelling written under the key `type`, `-` = no such key, `#` = a number under that key -/
def tyDoc (spell : String) : Option Doc :=
  if spell = "-" then some { keys := [] }
  else if spell = "#" then some { keys := [], typeNotString := true }
  else (unhx spell).map fun s => { keys := [(peekKey, s)] }

def renderCF (keys : List CF) (c : Rec CF) : String :=
  " ".intercalate (keys.map fun k => k.name ++ "=" ++ renderValue (c.get k))

/-- the implementation's `k=v …` list (proxy fields) -/
def implCF (s : String) : Option (Rec CF) := (parseKVs ((s.splitOn " ").filter (· ≠ ""))).map recOf

/-- `ty p <fmt> <place> <strict> <spell> <base> k=v…`: one proxy definition whose `type` is spelled `spell`, the
    other keys being a valid definition of type `base`, in a TOML / YAML / JSON client configuration (main file
    or an included one) through the real LoadClientConfig + ValidateAllClientConfig; when accepted, the real
    MarshalToMsg → JSON wire → NewProxyConfigurerFromMsg.
    impl = `rej:load | rej:val | acc go=<t> wrap=<x> cli k=v… srv=ok k=v… | … srv=err:<kind>` (k = every field of
    `serverFields`) -/
def tyProxyStep (fmt spell base : String) (kvs : List String) (impl : String) : Verdict :=
  match tyDoc spell, ptOfName base, parseKVs kvs with
  | some d, some bt, some kv =>
    if kv.any (fun (_, v) => !bwSupported v) then .skip "bandwidth-literal-outside-model" else
    let model :=
      -- the legacy INI format has its own parser and type table (pkg/config/legacy), which are not modelled:
      -- the documented spelling must be accepted as that type, anything else is only judged by the predicate
      if fmt = "ini" then
        (if d.get peekKey = some bt.bytes && !impl.startsWith ("acc go=" ++ bt.name ++ " ") then "acc go=" ++ bt.name ++ " …"
         else impl)
      else
      match loadProxy d with
      | none => "rej:load"
      | some l =>
        if l.cfg.go ≠ bt then "bad:base" else
        -- LoadClientConfig: decode, then Complete(user = "")
        let c0 := recOf (kv.map fun (k, v) => (k, bwReparse v))
        let cli := complete [] (c0.set .cType (.str l.cfg.ty))
        let keys := C18.serverFields l.cfg.go
        let head := "acc go=" ++ l.cfg.go.name ++ " wrap=" ++ hx l.wrapper ++ " cli " ++ renderCF keys cli
        match serverRecon (marshal (marshalTable l.cfg.go) (mapVals wireNorm cli)) with
        | none => head ++ " srv=err:type"
        | some (t', c') =>
          if t' ≠ l.cfg.go then head ++ " srv=err:othertype:" ++ t'.name
          else head ++ " srv=ok " ++ renderCF keys c'
    -- the property predicate on the implementation's own result: an ACCEPTED definition carries a listed
    -- type, its wrapper agrees, and the server reconstructs it field by field
    let prop : Option Bool :=
      if !impl.startsWith "acc " then some true else
      -- an INI section without `type` is the documented default type; its loaded Type is empty, which is the
      -- case the round-trip theorem excludes by hypothesis (the server's default type applies)
      -- (`type =` with an empty value is the same case for the legacy loader: empty means "not given")
      if fmt = "ini" && (spell = "-" || spell = "x") then none else
      match splitFirst ((impl.drop 4).toString) " cli " with
      | none => none
      | some (hd, rest) =>
        match hd.splitOn " ", splitFirst rest " srv=" with
        | [g, w], some (cliS, srvS) =>
          match splitFirst g "=", splitFirst w "=", implCF cliS with
          | some ("go", go), some ("wrap", wr), some cli =>
            match unhx wr with
            | none => none
            | some wr =>
              let srv : Option (Option (Str × Rec CF)) :=
                if srvS.startsWith "ok " then
                  (implCF ((srvS.drop 3).toString)).map fun sc => some (asStr (sc.get .cType), sc)
                else some none
              srv.map fun srv => C18.tyProxyHoldsOn (Str.ofString go) wr cli srv
          | _, _, _ => none
        | _, _ => none
    if model = "bad:base" then .bad "ty: the accepted spelling is not the base type" else
    verdictOf model impl prop
  | _, _, _ => .bad "ty p"

/-- `ty v …`: the same for one visitor definition; impl = `rej:load | rej:val | acc go=<t> wrap=<x> ty=<x>` -/
def tyVisitorStep (fmt spell base : String) (impl : String) : Verdict :=
  match tyDoc spell, vtOfName base with
  | some d, some bt =>
    let model :=
      if fmt = "ini" then
        (if d.get peekKey = some bt.bytes && !impl.startsWith ("acc go=" ++ bt.name ++ " ") then "acc go=" ++ bt.name ++ " …"
         else impl)
      else
      match loadVisitor d with
      | none => "rej:load"
      | some l =>
        if l.cfg.go ≠ bt then "bad:base"
        else "acc go=" ++ l.cfg.go.name ++ " wrap=" ++ hx l.wrapper ++ " ty=" ++ hx l.cfg.ty
    let prop : Option Bool :=
      if !impl.startsWith "acc " then some true else
      -- (`type =` with an empty value is the same case for the legacy loader: empty means "not given")
      if fmt = "ini" && (spell = "-" || spell = "x") then none else
      match ((impl.drop 4).toString).splitOn " " with
      | [g, w, t] =>
        match splitFirst g "=", splitFirst w "=", splitFirst t "=" with
        | some ("go", go), some ("wrap", wr), some ("ty", ty) =>
          match unhx wr, unhx ty with
          | some wr, some ty => some (C18.tyVisitorHoldsOn (Str.ofString go) wr ty)
          | _, _ => none
        | _, _, _ => none
      | _ => none
    if model = "bad:base" then .bad "ty: the accepted spelling is not the base type" else
    verdictOf model impl prop
  | _, _ => .bad "ty v"

def stepExt (tok : List String) (impl : String) : Option Verdict :=
  match tok with
  | "ty" :: "p" :: fmt :: _place :: _strict :: spell :: base :: kvs => some (tyProxyStep fmt spell base kvs impl)
  | ["ty", "v", fmt, _place, _strict, spell, base] => some (tyVisitorStep fmt spell base impl)
  | "fl" :: g :: ssh :: args => some (flStep g ssh args impl)
  | "dfl" :: g => some (dflStep g impl)
  | ["usg", g, ssh] => some (usgStep g ssh impl)
  | "cf" :: root :: via :: _strict :: user :: kvs => some (cfStep root via user kvs impl)
  | "cval" :: root :: kvs => some (cvalStep root kvs impl)
  | "sval" :: kvs => some (svalStep kvs impl)
  | "svalv" :: via :: kvs => some (svalvStep via kvs impl)
  | "ccval" :: via :: kvs => some (ccvalStep via kvs impl)
  | "pload" :: _seed :: n :: _rounds :: specs => some (ploadStep n specs impl)
  | ["own", _, _] => some (verdictOf "same idem kept" impl (some (impl = "same idem kept")))
  | ["nr", s] =>
    match unhx s with
    | some s =>
      if !Str.isAscii s then some (.skip "non-ascii") else
      -- the template function enumerates exactly what util.ParseRangeNumbers does
      let model := match parseRangeNumbers s with | some ns => "ok " ++ renderInts ns | none => "err"
      some (verdictOf model impl (some (impl = model)))
    | none => some (.bad "nr")
  | ["bweq", a, b] =>
    match unhx a, unhx b with
    | some a, some b =>
      if !Str.isAscii a || !Str.isAscii b then some (.skip "non-ascii")
      else if parseBW a = .unsupported || parseBW b = .unsupported then some (.skip "float-syntax-outside-model")
      else
        -- Equal ⇔ the same number of bytes
        let model := match C18.bwEqual a b with | some true => "eq" | some false => "ne" | none => "err"
        some (verdictOf model impl (some (impl = model)))
    | _, _ => some (.bad "bweq")
  | [op, _, _, strict, inj] =>
    if op = "load" || op = "sload" then
      let want := if strict = "1" && inj = "1" then "same err" else "same"
      some (verdictOf want impl (some (impl = want)))
    else none
  | [op, _] => if op = "sx" || op = "cx" then some (verdictOf "same" impl (some (impl = "same"))) else none
  | ["env"] => some (verdictOf "same" impl (some (impl = "same")))
  | _ => none

def stepAll (s : Unit) (tok : List String) (impl : String) : Unit × Verdict :=
  match stepExt tok impl with
  | some v => ((), v)
  | none => step s tok impl

end Conf

def conf : Engine := { State := Unit, init := (), step := Conf.stepAll }

end Engines
end Frp
