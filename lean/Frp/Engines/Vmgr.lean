import Frp.Driver.Proto
import Frp.Props.C19Visitors
import Frp.Props.C19Keeper
import Frp.Engines.Client
/-
  Driver engine "vmgr" (C19, visitors): replays the trace of harness/eng_vmgr.go (the real
  visitor.Manager with real stcp / xtcp / sudp visitors on loopback addresses the harness squats
  and frees) on Frp/Model/VisitorMgr.lean and evaluates `C19.vHoldsOn` / `C19.vSettledOn` on the
  implementation's own answers.

  Every op of the harness ends after at least one complete pass of the real keep-alive loop, so the
  reported state is one a further pass does not change.  The keeper goroutine itself is followed on
  Frp/Model/VisitorKeeper.lean (Once, idle / alive / exited): the model reports `nokeeper` when a list
  with a visitor has been loaded, Close() has not been called and the goroutine is not alive — which
  `C19.keeper_alive` excludes for the code as it is; an implementation that reports it has ended its
  keeper, and `vSettledOn` then fails on the first visitor that waits for a tick.  Which of several waiting visitors got an
  address that became free is the implementation's choice (Go's map order): the engine starts the
  ones the implementation reports as started first (`tryStart` refuses those that cannot start),
  then completes the pass in name order; if the implementation's choice was a legal and complete
  one the two states agree.
-/
namespace Frp
namespace Engines
open Proto VisitorMgr

structure VmState where
  m : Mgr := {}
  loaded : List VisitorMgr.VCfg := []
  gens : List (Nat × Nat) := []   -- visitor stamp → generation under its name
  cnt : List (Nat × Nat) := []    -- name → number of visitor objects seen
  quiet : Bool := false           -- Close() has been called and no UpdateAll since
  once : Bool := false            -- keepVisitorsRunningOnce has fired (VisitorKeeper.KM.once)
  k : VisitorKeeper.K := .idle    -- the keeper goroutine (VisitorKeeper.KM.k)

def vmPool : List Nat := [1, 2, 3, 4, 5]

def parseVmCfg (t : String) : Option VisitorMgr.VCfg :=
  match t.splitOn ":" with
  | [n, v, p, nv] =>
    match n.toNat?, v.toNat?, p.toNat?, nv.toNat? with
    | some n, some v, some p, some nv => some { name := n, variant := v, port := p, never := nv == 1 }
    | _, _, _, _ => none
  | _ => none

def vmAssignGens (st : VmState) : VmState :=
  st.m.visitors.foldl (fun s v =>
    if s.gens.any (·.1 == v.id) then s else
    let g := ((s.cnt.find? (·.1 == v.cfg.name)).map (·.2)).getD 0 + 1
    { s with gens := (v.id, g) :: s.gens, cnt := (v.cfg.name, g) :: s.cnt.filter (·.1 != v.cfg.name) }) st

def vmRender (st : VmState) : String :=
  let cfg := ",".intercalate (sortStrings (st.m.cfgs.map (fun c => s!"{c.name}:{c.variant}:{c.port}")))
  let run := ",".intercalate (sortStrings (st.m.visitors.map (fun v =>
    s!"{v.cfg.name}.{((st.gens.find? (·.1 == v.id)).map (·.2)).getD 0}")))
  let busy := ",".intercalate ((vmPool.filter (busy st.m)).map toString)
  let held := ",".intercalate ((vmPool.filter st.m.squat.contains).map toString)
  s!"cfg={cfg};run={run};busy={busy};held={held}" ++ (if st.quiet then ";closed" else "") ++
    (if st.once && !st.m.closed && st.k != .alive then ";nokeeper" else "")

def splitList (s : String) : List String := if s.isEmpty then [] else s.splitOn ","

def parseTriple (t : String) : Option (Nat × Nat × Nat) :=
  match t.splitOn ":" with
  | [n, v, p] =>
    match n.toNat?, v.toNat?, p.toNat? with
    | some n, some v, some p => some (n, v, p)
    | _, _, _ => none
  | _ => none

def parseRunName (t : String) : Option Nat :=
  match t.splitOn "." with
  | [n, _] => n.toNat?
  | _ => none

def parseRunGen (t : String) : Option (Nat × Nat) :=
  match t.splitOn "." with
  | [n, g] => do let n ← n.toNat?; let g ← g.toNat?; pure (n, g)
  | _ => none

/-- the implementation's state string: the observation, (name, generation) of every visitor object, the
    addresses the harness holds -/
def parseVObs' (s : String) : Option (C19.VObs × List (Nat × Nat) × List Nat) :=
  match s.splitOn ";" with
  | c :: r :: b :: h :: rest =>
    if !(c.startsWith "cfg=" && r.startsWith "run=" && b.startsWith "busy=" && h.startsWith "held=") then none
    else if rest != [] && rest != ["closed"] && rest != ["nokeeper"] then none else do
    let cfg ← parseAll parseTriple (splitList (c.drop 4).toString)
    let run ← parseAll parseRunName (splitList (r.drop 4).toString)
    let gens ← parseAll parseRunGen (splitList (r.drop 4).toString)
    let busy ← parseAll (fun t => t.toNat?) (splitList (b.drop 5).toString)
    let held ← parseAll (fun t => t.toNat?) (splitList (h.drop 5).toString)
    pure ({ cfg := cfg, run := run, busy := busy }, gens, held)
  | _ => none

def parseVObs (s : String) : Option C19.VObs := (parseVObs' s).map (·.1)

/-- (name, generation) of every visitor object of the model -/
def vmRunGens (st : VmState) : List (Nat × Nat) :=
  st.m.visitors.map (fun v => (v.cfg.name, ((st.gens.find? (·.1 == v.id)).map (·.2)).getD 0))

/-- the rest of the op: the passes of the keep-alive loop up to the observation -/
def vmSettle (m1 : Mgr) (obsRun : List Nat) : Mgr :=
  let first := (sortNat obsRun).filter (fun n => !hasVisitor m1.visitors n)
  let m2 := activePass m1 first
  if m1.closed then m2 else activePass m2 (sortNat (m1.cfgs.map (·.name)))

/-- finish an op whose deterministic part led to `m1`; `head` = the op's own answer (squat / free) -/
def vmFinish' (st : VmState) (m1 : Mgr) (loaded : List VisitorMgr.VCfg) (head : String) (impl : String)
    (quiet : Bool) (reloadFrom : Option (List VisitorMgr.VCfg) := none) : VmState × String × Verdict :=
  let implState := if head.isEmpty then impl else
    (match impl.splitOn ";" with
     | _ :: rest => ";".intercalate rest
     | [] => "")
  let obs := parseVObs' implState
  let m2 := vmSettle m1 ((obs.map (·.1.run)).getD [])
  let st' := vmAssignGens { st with m := m2, loaded := loaded, quiet := quiet }
  let model := (if head.isEmpty then "" else head ++ ";") ++ vmRender st'
  let before := vmRunGens st
  let prop := obs.map (fun (o, gens, held) =>
    C19.vHoldsOn loaded o && (m2.closed || C19.vSettledOn loaded o) &&
    -- a reload: unchanged entries keep their visitor object
    (match reloadFrom with
     | some prev => C19.vKeptOn prev loaded before gens
     | none => true) &&
    -- after Close() (and no reload since) the manager holds no address
    (!quiet || C19.vClosedQuietOn held o))
  (st', model, verdictOf model impl prop)

def vmFinish (st : VmState) (m1 : Mgr) (loaded : List VisitorMgr.VCfg) (head : String) (impl : String)
    (quiet : Bool) (reloadFrom : Option (List VisitorMgr.VCfg) := none) : VmState × Verdict :=
  let r := vmFinish' st m1 loaded head impl quiet reloadFrom
  (r.1, r.2.2)

def vmgrStep (st : VmState) (tok : List String) (impl : String) : VmState × Verdict :=
  match tok with
  | ["reset"] => ({}, verdictOf "-" impl)
  | "vupd" :: cs =>
    match parseAll parseVmCfg cs with
    | some cfgs =>
      -- the Once and the goroutine: VisitorKeeper.upd
      let ks := VisitorKeeper.upd { m := st.m, once := st.once, k := st.k } cfgs
      vmFinish { st with once := ks.once, k := ks.k } ks.m cfgs "" impl false (some st.loaded)
    | none => (st, .bad "vupd")
  | ["squat", k] =>
    match k.toNat? with
    | some k =>
      if k == 0 || k > 5 then (st, verdictOf "badport" impl) else
      vmFinish st (step st.m (.squat k)) st.loaded (if busy st.m k then "taken" else "ok") impl st.quiet
    | none => (st, .bad "squat")
  | ["free", k] =>
    match k.toNat? with
    | some k =>
      if k == 0 || k > 5 then (st, verdictOf "badport" impl) else
      vmFinish st (step st.m (.free k)) st.loaded (if st.m.squat.contains k then "ok" else "notheld") impl st.quiet
    | none => (st, .bad "free")
  | ["tick"] => vmFinish st st.m st.loaded "" impl st.quiet
  | ["close"] =>
    let ks := VisitorKeeper.step { m := st.m, once := st.once, k := st.k } .close
    vmFinish { st with k := ks.k } ks.m st.loaded "" impl true
  | ["closerace", k] =>
    -- Close() overtakes an iteration of the loop; address k is released in between (0: nothing is)
    match k.toNat? with
    | some k =>
      if k > 5 then (st, verdictOf "badport" impl) else
      let head := if k == 0 || st.m.squat.contains k then "ok" else "notheld"
      -- the harness queues Close() first and the iteration behind it; should the runtime have let the
      -- iteration go first (it asked for the lock before Close() did), the implementation's answer is that
      -- of "free; pass; Close" — accepted when it is exactly that
      let a := vmFinish' st (step (VisitorMgr.close st.m) (.free k)) st.loaded head impl true
      let b := vmFinish' st (VisitorMgr.close (activePass (step st.m (.free k)) (sortNat (st.m.cfgs.map (·.name))))) st.loaded head impl true
      let kx : VisitorKeeper.K := match st.k with | .alive => .exited | k => k
      if a.2.1 != impl && b.2.1 == impl then ({ b.1 with k := kx }, b.2.2) else ({ a.1 with k := kx }, a.2.2)
    | none => (st, .bad "closerace")
  | ["xfer", n] =>
    match n.toNat? with
    | some n =>
      let r := transfer st.m n
      let model := if r == 0 then "notfound" else if r == 1 then "ok" else "closed"
      -- a connection is taken by a visitor iff a configured visitor of that name runs
      (st, verdictOf model impl (some ((impl == "ok") == (r == 1))))
    | none => (st, .bad "xfer")
  | _ => (st, .bad "op")

def vmgr : Engine := { State := VmState, init := {}, step := vmgrStep }

end Engines
end Frp
