import Frp.Driver.Proto
import Frp.Model.Udp
import Frp.Props.C03
/-
  Driver engine "udp": replays the harness trace (harness/eng_udp.go) on the Base64 / Udp models
  and evaluates the C03 predicates on the implementation's own results.
-/
namespace Frp
namespace Engines
open Proto Udp

namespace UdpEng

def vhash (b : Str) : Nat := b.foldl (fun h x => (h * 1000003 + x + 1) % 4294967291) 7

def lcgBytes (seed n : Nat) : Str :=
  let rec go (x : Nat) : Nat → Str → Str
    | 0, acc => acc.reverse
    | k + 1, acc =>
      let x' := (x * 1103515245 + 12345) % 2147483648
      go x' k ((x' / 65536) % 256 :: acc)
  go (seed % 2147483648) n []

def tunnelPayload (u seq ln seed : Nat) : Str :=
  [81, u % 256, (seq / 256) % 256, seq % 256] ++ lcgBytes seed (ln - 4)

def tunnelReply : Str → Str
  | _ :: b :: c :: d :: rest => 65 :: b :: c :: d :: rest.map (fun x => (x + 1) % 256)
  | [_] => [65]
  | [_, b] => [65, b]
  | [_, b, c] => [65, b, c]
  | [] => []

abbrev Entry := Nat × Nat × Nat × Nat

def entryOf (p : Str) : Entry :=
  match p with
  | _ :: u :: a :: b :: _ => (u, a * 256 + b, p.length, vhash p)
  | _ => (1000, 0, p.length, vhash p)

def entryLe (a b : Entry) : Bool :=
  a.1 < b.1 || (a.1 == b.1 && (a.2.1 < b.2.1 || (a.2.1 == b.2.1 &&
    (a.2.2.1 < b.2.2.1 || (a.2.2.1 == b.2.2.1 && a.2.2.2 ≤ b.2.2.2)))))

def fmtEntry (e : Entry) : String := s!"{e.1}.{e.2.1}.{e.2.2.1}.{e.2.2.2}"

def fmtEntries (es : List Entry) : String :=
  ",".intercalate ((es.mergeSort entryLe).map fmtEntry)

def parseEntry (t : String) : Option Entry :=
  match (t.splitOn ".").map String.toNat? with
  | [some a, some b, some c, some d] => some (a, b, c, d)
  | _ => none

def parseEntries (t : String) : Option (List Entry) :=
  if t = "" then some [] else (t.splitOn ",").mapM parseEntry

def parseAddr (t : String) : Option (Option Addr) :=
  if t = "nil" then some none else
  match t.splitOn ":" with
  | ["a", ip, port, zone] =>
    match unhx ip, port.toNat?, unhx zone with
    | some ip, some port, some zone => some (some { ip := ip, port := port, zone := zone })
    | _, _, _ => none
  | _ => none

/-- characters json.Marshal writes unchanged -/
def plain (s : Str) : Bool := s.all (fun c => 32 ≤ c ∧ c < 127 ∧ c ≠ 34 ∧ c ≠ 92 ∧ c ≠ 60 ∧ c ≠ 62 ∧ c ≠ 38)

def addrPlain : Option Addr → Bool
  | none => true
  | some a => plain a.ip && plain a.zone

def kv (key : String) (t : String) : Option String :=
  if t.startsWith (key ++ "=") then some (t.drop (key.length + 1)).toString else none

def userAddr (u : Nat) : Addr := { ip := Str.ofString "127.0.0.1", port := 40000 + u, zone := [] }

/-- light-load schedule: every datagram is carried through before the next one is sent, and the
    backend answers each datagram it receives -/
def simulate (ps : Nat) (ds : List (Nat × Nat × Nat)) : St :=
  let rec go (s : St) (i : Nat) : List (Nat × Nat × Nat) → St
    | [] => s
    | (u, ln, seed) :: rest =>
      let n0 := s.backendLog.length
      let s := step (step (step s (.userSend (userAddr u) (tunnelPayload u i ln seed))) .s2c) (.cfwd true)
      let s :=
        if s.backendLog.length > n0 then
          match s.backendLog.getLast? with
          | some (k, (_, some buf)) => step (step (step s (.backendReply k (tunnelReply buf))) .c2s) .sback
          | _ => s
        else s
      go s (i + 1) rest
  go (init ps ps 1024) 0 ds

def parseDs (t : String) : Option (List (Nat × Nat × Nat)) :=
  if t = "" then some [] else
  (t.splitOn ",").mapM (fun e =>
    match (e.splitOn ".").map String.toNat? with
    | [some u, some l, some s] => some (u, l, s)
    | _ => none)

def countDrop (d : Drop) (l : List (Drop × View)) : Nat := (l.filter (fun e => e.1 = d)).length

def modelTunnel (ps k : Nat) (ds : List (Nat × Nat × Nat)) (withFerr : Bool := true) : String :=
  let s := simulate ps ds
  let bs := s.backendLog.filterMap (fun e => e.2.2.map entryOf)
  let us := (List.range k).map (fun i =>
    (s.userLog.filter (fun e => e.1 = userAddr i)).map (fun e => entryOf e.2))
  let mixed := s.backendLog.any (fun e => ownerOf s.socks e.1 ≠ some e.2.1)
  let ferr := countDrop .frameTooLong s.dropUp + countDrop .frameTooLong s.dropDown
  let ustr := String.join ((List.range k).zip us |>.map (fun p => s!";U{p.1}={fmtEntries p.2}"))
  let tail := if withFerr then s!";ferr={ferr}" else ""
  s!"B={fmtEntries bs}{ustr};socks={s.nextSock};mixed={if mixed then 1 else 0}{tail}"

/-- expected multisets, straight from the op (independent of the state machine) -/
def expectedB (ps : Nat) (ds : List (Nat × Nat × Nat)) : List Entry :=
  (ds.zipIdx).map (fun p => entryOf (rd ps (tunnelPayload p.1.1 p.2 p.1.2.1 p.1.2.2)))

def expectedU (ps k : Nat) (ds : List (Nat × Nat × Nat)) : List (List Entry) :=
  (List.range k).map (fun i =>
    (ds.zipIdx).filterMap (fun p =>
      if p.1.1 = i then some (entryOf (rd ps (tunnelReply (rd ps (tunnelPayload p.1.1 p.2 p.1.2.1 p.1.2.2)))))
      else none))

/-- parse `B=…;U0=…;…;socks=n;mixed=m;ferr=f` -/
def parseTunnelResult (k : Nat) (impl : String) : Option (List Entry × List (List Entry) × Bool) :=
  let parts := impl.splitOn ";"
  match parts with
  | b :: rest =>
    match kv "B" b with
    | none => none
    | some bt =>
      match parseEntries bt with
      | none => none
      | some B =>
        let us := (List.range k).zip (rest.take k)
        match us.mapM (fun p => (kv s!"U{p.1}" p.2).bind parseEntries) with
        | none => none
        | some Us =>
          if us.length ≠ k then none else
          match (rest.drop k) with
          | [_, m, _] => (kv "mixed" m).map (fun v => (B, Us, v ≠ "0"))
          | [_, m] => (kv "mixed" m).map (fun v => (B, Us, v ≠ "0"))
          | _ => none
  | [] => none

end UdpEng
open UdpEng

def udpStep (st : Unit) (tok : List String) (impl : String) : Unit × Verdict :=
  match tok with
  | ["reset"] => (st, verdictOf "-" impl)
  | ["b64", b] =>
    match unhx b with
    | some b =>
      let model := hx (Base64.encode b) ++ ":1"
      let prop := match impl.splitOn ":" with
        | [c, rt] => (unhx c).map (fun c => C03.holdsOnB64 b c (rt = "1"))
        | _ => some false
      (st, verdictOf model impl prop)
    | none => (st, .bad "b64")
  | ["dec", s] =>
    match unhx s with
    | some s =>
      let model := match Base64.decode s with | none => "err" | some b => hx b
      (st, verdictOf model impl)
    | none => (st, .bad "dec")
  | ["frame", pst, b, l, r] =>
    match kv "ps" pst |>.bind String.toNat?, unhx b, parseAddr l, parseAddr r with
    | some ps, some b, some l, some r =>
      if impl = "noncanon" then (st, .skip "non-canonical ip text") else
      if !(addrPlain l && addrPlain r) then (st, .skip "address text needs JSON escaping") else
      let p := packetOf b l r
      let ok := fits p
      let model := s!"len={(body p).length};h={vhash (frame p)};rd={if ok then "ok" else "toolong"};rt={if ok then 1 else 0}"
      -- the property speaks about tunnel-path messages only (LocalAddr is always nil there)
      let prop := if l.isSome then none else match impl.splitOn ";" with
        | [_, _, rdv, rtv] => some (C03.holdsOnFrame ps b.length (rdv = "rd=ok") (rtv = "rt=1"))
        | _ => some false
      (st, verdictOf model impl prop)
    | _, _, _, _ => (st, .bad "frame")
  | ["tunnel", pst, kt, dt] =>
    match kv "ps" pst |>.bind String.toNat?, kv "k" kt |>.bind String.toNat?, kv "d" dt |>.bind parseDs with
    | some ps, some k, some ds =>
      if ds.any (fun d => d.1 ≥ k ∨ d.2.1 < 4) then (st, .bad "tunnel datagram") else
      let model := modelTunnel ps k ds
      let prop := match parseTunnelResult k impl with
        | some (B, Us, mixed) => some (C03.holdsOnTunnel (expectedB ps ds) B (expectedU ps k ds) Us mixed)
        | none => some false
      (st, verdictOf model impl prop)
    | _, _, _ => (st, .bad "tunnel")
  | ["e2e", pst, _, _, kt, dt] =>
    -- same traffic through a real frps + frpc pair; encryption / compression are transparent
    match kv "ps" pst |>.bind String.toNat?, kv "k" kt |>.bind String.toNat?, kv "d" dt |>.bind parseDs with
    | some ps, some k, some ds =>
      if ds.any (fun d => d.1 ≥ k ∨ d.2.1 < 4) then (st, .bad "e2e datagram") else
      let model := modelTunnel ps k ds false
      let prop := match parseTunnelResult k impl with
        | some (B, Us, mixed) => some (C03.holdsOnTunnel (expectedB ps ds) B (expectedU ps k ds) Us mixed)
        | none => some false
      (st, verdictOf model impl prop)
    | _, _, _ => (st, .bad "e2e")
  | _ => (st, .bad "op")

def udp : Engine := { State := Unit, init := (), step := udpStep }

end Engines
end Frp
