import Frp.Driver.Proto
import Frp.Model.Udp
import Frp.Model.Sudp
import Frp.Model.UdpSrv
import Frp.Model.SudpPx
import Frp.Model.UdpBuf
import Frp.Model.UdpLayers
import Frp.Model.UdpWireGen
import Frp.Props.C03
/-
  Driver engine "udp": replays the harness trace (harness/eng_udp.go) on the Base64 / Udp models
  and evaluates the C03 predicates on the implementation's own results.
-/
namespace Frp
namespace Engines
open Proto Udp

namespace UdpEng

def vhash (b : Str) : Nat := b.foldl (fun h x => (h * 1000003 + x + 1) % 4294967291) 7

def lcgBytes (seed n : Nat) : Str :=
  let rec go (x : Nat) : Nat → Str → Str
    | 0, acc => acc.reverse
    | k + 1, acc =>
      let x' := (x * 1103515245 + 12345) % 2147483648
      go x' k ((x' / 65536) % 256 :: acc)
  go (seed % 2147483648) n []

def tunnelPayload (u seq ln seed : Nat) : Str :=
  [81, u % 256, (seq / 256) % 256, seq % 256] ++ lcgBytes seed (ln - 4)

def tunnelReply : Str → Str
  | _ :: b :: c :: d :: rest => 65 :: b :: c :: d :: rest.map (fun x => (x + 1) % 256)
  | [_] => [65]
  | [_, b] => [65, b]
  | [_, b, c] => [65, b, c]
  | [] => []

abbrev Entry := Nat × Nat × Nat × Nat

def entryOf (p : Str) : Entry :=
  match p with
  | _ :: u :: a :: b :: _ => (u, a * 256 + b, p.length, vhash p)
  | _ => (1000, 0, p.length, vhash p)

def entryLe (a b : Entry) : Bool :=
  a.1 < b.1 || (a.1 == b.1 && (a.2.1 < b.2.1 || (a.2.1 == b.2.1 &&
    (a.2.2.1 < b.2.2.1 || (a.2.2.1 == b.2.2.1 && a.2.2.2 ≤ b.2.2.2)))))

def fmtEntry (e : Entry) : String := s!"{e.1}.{e.2.1}.{e.2.2.1}.{e.2.2.2}"

def fmtEntries (es : List Entry) : String :=
  ",".intercalate ((es.mergeSort entryLe).map fmtEntry)

def parseEntry (t : String) : Option Entry :=
  match (t.splitOn ".").map String.toNat? with
  | [some a, some b, some c, some d] => some (a, b, c, d)
  | _ => none

def parseEntries (t : String) : Option (List Entry) :=
  if t = "" then some [] else (t.splitOn ",").mapM parseEntry

def parseAddr (t : String) : Option (Option Addr) :=
  if t = "nil" then some none else
  match t.splitOn ":" with
  | ["a", ip, port, zone] =>
    match unhx ip, port.toNat?, unhx zone with
    | some ip, some port, some zone => some (some { ip := ip, port := port, zone := zone })
    | _, _, _ => none
  | _ => none

/-- characters json.Marshal writes unchanged -/
def plain (s : Str) : Bool := s.all (fun c => 32 ≤ c ∧ c < 127 ∧ c ≠ 34 ∧ c ≠ 92 ∧ c ≠ 60 ∧ c ≠ 62 ∧ c ≠ 38)

def addrPlain : Option Addr → Bool
  | none => true
  | some a => plain a.ip && plain a.zone

def kv (key : String) (t : String) : Option String :=
  if t.startsWith (key ++ "=") then some (t.drop (key.length + 1)).toString else none

def userAddr (u : Nat) : Addr := { ip := Str.ofString "127.0.0.1", port := 40000 + u, zone := [] }

/-- light-load schedule: every datagram is carried through before the next one is sent, and the
    backend answers each datagram it receives -/
def simulate (ps : Nat) (ds : List (Nat × Nat × Nat)) : St :=
  let rec go (s : St) (i : Nat) : List (Nat × Nat × Nat) → St
    | [] => s
    | (u, ln, seed) :: rest =>
      let n0 := s.backendLog.length
      let s := step (step (step s (.userSend (userAddr u) (tunnelPayload u i ln seed))) .s2c) (.cfwd true)
      let s :=
        if s.backendLog.length > n0 then
          match s.backendLog.getLast? with
          | some (k, (_, some buf)) => step (step (step s (.backendReply k (tunnelReply buf))) .c2s) .sback
          | _ => s
        else s
      go s (i + 1) rest
  go (init ps ps 1024) 0 ds

def parseDs (t : String) : Option (List (Nat × Nat × Nat)) :=
  if t = "" then some [] else
  (t.splitOn ",").mapM (fun e =>
    match (e.splitOn ".").map String.toNat? with
    | [some u, some l, some s] => some (u, l, s)
    | _ => none)

def countDrop (d : Drop) (l : List (Drop × View)) : Nat := (l.filter (fun e => e.1 = d)).length

def modelTunnel (ps k : Nat) (ds : List (Nat × Nat × Nat)) (withFerr : Bool := true) : String :=
  let s := simulate ps ds
  let bs := s.backendLog.filterMap (fun e => e.2.2.map entryOf)
  let us := (List.range k).map (fun i =>
    (s.userLog.filter (fun e => e.1 = userAddr i)).map (fun e => entryOf e.2))
  let mixed := s.backendLog.any (fun e => ownerOf s.socks e.1 ≠ some e.2.1)
  let ferr := countDrop .frameTooLong s.dropUp + countDrop .frameTooLong s.dropDown
  let ustr := String.join ((List.range k).zip us |>.map (fun p => s!";U{p.1}={fmtEntries p.2}"))
  let tail := if withFerr then s!";ferr={ferr}" else ""
  s!"B={fmtEntries bs}{ustr};socks={s.nextSock};mixed={if mixed then 1 else 0}{tail}"

/-- expected multisets, straight from the op (independent of the state machine) -/
def expectedB (ps : Nat) (ds : List (Nat × Nat × Nat)) : List Entry :=
  (ds.zipIdx).map (fun p => entryOf (rd ps (tunnelPayload p.1.1 p.2 p.1.2.1 p.1.2.2)))

def expectedU (ps k : Nat) (ds : List (Nat × Nat × Nat)) : List (List Entry) :=
  (List.range k).map (fun i =>
    (ds.zipIdx).filterMap (fun p =>
      if p.1.1 = i then some (entryOf (rd ps (tunnelReply (rd ps (tunnelPayload p.1.1 p.2 p.1.2.1 p.1.2.2)))))
      else none))

/-- groups of `g` consecutive elements -/
def groupsOf {α} (g : Nat) (l : List α) : List (List α) :=
  let rec go (fuel : Nat) (l : List α) (acc : List (List α)) : List (List α) :=
    match fuel, l with
    | 0, _ => acc.reverse
    | _, [] => acc.reverse
    | fuel + 1, l => go fuel (l.drop (max g 1)) (l.take (max g 1) :: acc)
  go l.length l []

/-- burst op: what the sender of the work connection serialises when the datagrams arrive in bursts of `g` (all of a
    burst are read into the ONE read buffer before the first is serialised) — computed on the explicit-buffer machine
    `UdpBuf` in the mode of the code as it is (`Props/C03.buf_burst_delivers`) -/
def burstWire (byRef : Bool) (ps g : Nat) (ds : List (Nat × Nat × Nat)) : List Entry :=
  let tagged := (ds.zipIdx).map (fun p => (userAddr p.1.1, tunnelPayload p.1.1 p.2 p.1.2.1 p.1.2.2))
  let s := UdpBuf.run byRef (UdpBuf.init ps 1024) ((groupsOf g tagged).flatMap UdpBuf.burst)
  s.wire.filterMap (fun m => (contentOf m).map entryOf)

/-- parse `B=…;U0=…;…;socks=n;mixed=m;ferr=f` -/
def parseTunnelResult (k : Nat) (impl : String) : Option (List Entry × List (List Entry) × Bool) :=
  let parts := impl.splitOn ";"
  match parts with
  | b :: rest =>
    match kv "B" b with
    | none => none
    | some bt =>
      match parseEntries bt with
      | none => none
      | some B =>
        let us := (List.range k).zip (rest.take k)
        match us.mapM (fun p => (kv s!"U{p.1}" p.2).bind parseEntries) with
        | none => none
        | some Us =>
          if us.length ≠ k then none else
          match (rest.drop k) with
          | [_, m, _] => (kv "mixed" m).map (fun v => (B, Us, v ≠ "0"))
          | [_, m] => (kv "mixed" m).map (fun v => (B, Us, v ≠ "0"))
          | _ => none
  | [] => none

/-! ### sudp visitor scripts (harness/eng_udp_sudp.go) -/

inductive STok
  | dgram (u ln seed : Nat)    -- d / D
  | reply (u ln seed : Nat)    -- r
  | ping                       -- p
  | kill                       -- x / y / z
  | fail                       -- fd / fr / fc

def parseSTok (t : String) : Option STok :=
  if t = "p" then some .ping
  else if t = "x" ∨ t = "y" ∨ t = "z" then some .kill
  else if t = "fd" ∨ t = "fr" ∨ t = "fc" then some .fail
  else match t.toList with
    | c :: rest =>
      match ((String.ofList rest).splitOn ".").map String.toNat? with
      | [some u, some l, some sd] =>
        if c = 'd' ∨ c = 'D' then some (.dgram u l sd)
        else if c = 'r' ∨ c = 'R' then some (.reply u l sd) else none
      | _ => none
    | [] => none

def parseScript (t : String) : Option (List STok) :=
  if t = "" then some [] else (t.splitOn ",").mapM parseSTok

structure SSim where
  s : Sudp.St
  arm : Nat := 0                      -- connection attempts that will be made to fail
  seen : List Nat := []               -- users whose address the far side has learned
  must : List Entry := []             -- datagrams that have to arrive
  may : List Entry := []              -- datagrams that triggered a failing attempt or re-opened the tunnel
  rs : List (Nat × Entry) := []       -- replies sent by the far side (user, payload)

/-- light-load schedule of one script token: the goroutines run to quiescence before the next token -/
def simTok (ps : Nat) (st : SSim) (i : Nat) : STok → SSim
  | .dgram u ln seed =>
    let p := tunnelPayload u i ln seed
    let e := entryOf (rd ps p)
    let s1 := Sudp.step st.s (.userSend (userAddr u) p)
    if s1.phase = .work then
      { st with s := Sudp.step s1 (.sendNext true), must := st.must ++ [e], seen := u :: st.seen }
    else
      let s2 := Sudp.step s1 .dispTake
      if st.arm > 0 then
        { st with s := Sudp.step s2 (.connect false), arm := st.arm - 1, may := st.may ++ [e] }
      else
        -- the datagram that re-opens the tunnel after a loss / a failed attempt travels "while the
        -- connection is being re-established": the property lets it go (the code as it is delivers
        -- it; a difference shows as a behavioural disagreement).  The opener of a fresh tunnel must arrive.
        let reopen := decide (st.s.gen > 0) || st.s.dropUp.any (fun d => d.1 = Sudp.VDrop.connFail)
        let s3 := Sudp.step (Sudp.step s2 (.connect true)) (.sendFirst true)
        if reopen then { st with s := s3, may := st.may ++ [e], seen := u :: st.seen }
        else { st with s := s3, must := st.must ++ [e], seen := u :: st.seen }
  | .reply u ln seed =>
    if st.s.phase = .work ∧ u ∈ st.seen then
      let q := tunnelReply (tunnelPayload u i ln seed)
      { st with s := Sudp.step (Sudp.step st.s (.connRecv (packetOf q none (some (userAddr u))))) .sback,
                rs := st.rs ++ [(u, entryOf q)] }
    else st
  | .ping => { st with s := Sudp.step st.s .connPing }
  | .kill =>
    if st.s.phase = .work then
      { st with s := Sudp.step (Sudp.step (Sudp.step st.s .readerDie) .senderExit) .workerEnd }
    else st
  | .fail => { st with arm := st.arm + 1 }

def simScript (ps : Nat) (toks : List STok) : SSim :=
  (toks.zipIdx).foldl (fun st p => simTok ps st p.2 p.1) { s := Sudp.init ps 1024 }

abbrev WEntry := Nat × Entry

def wLe (a b : WEntry) : Bool := a.1 < b.1 || (a.1 == b.1 && entryLe a.2 b.2)

def fmtW (ws : List WEntry) : String :=
  ",".intercalate ((ws.mergeSort wLe).map (fun w => s!"{w.1}/{fmtEntry w.2}"))

def parseW (t : String) : Option (List WEntry) :=
  if t = "" then some [] else
  (t.splitOn ",").mapM (fun e =>
    match e.splitOn "/" with
    | [g, r] => match g.toNat?, parseEntry r with
      | some g, some r => some (g, r)
      | _, _ => none
    | _ => none)

def modelSudp (k : Nat) (st : SSim) : String :=
  let s := st.s
  let ws := s.wire.filterMap (fun e => e.2.2.map (fun b => (e.1, entryOf b)))
  let ustr := String.join ((List.range k).map (fun i =>
    s!";U{i}={fmtEntries ((s.userLog.filter (fun e => e.1 = userAddr i)).map (fun e => entryOf e.2))}"))
  s!"W={fmtW ws}{ustr};conns={s.gen};bad=0"

/-- parse `W=…;U0=…;…;conns=n;bad=b` -/
def parseSudpResult (k : Nat) (impl : String) : Option (List Entry × List (List Entry) × Bool) :=
  match impl.splitOn ";" with
  | w :: rest =>
    match (kv "W" w).bind parseW with
    | none => none
    | some W =>
      let us := (List.range k).zip (rest.take k)
      match us.mapM (fun p => (kv s!"U{p.1}" p.2).bind parseEntries) with
      | none => none
      | some Us =>
        if us.length ≠ k then none else
        match rest.drop k with
        | [_, b] => (kv "bad" b).map (fun v => (W.map Prod.snd, Us, v ≠ "0"))
        | _ => none
  | [] => none

/-! ### server side of a udp proxy with replacement of the work connection (harness/eng_udp_srv.go) -/

inductive VTok
  | dgram (u ln seed : Nat) (wait : Bool)   -- d / D
  | reply (u ln seed : Nat)                 -- r
  | noaddr (u ln seed : Nat)                -- n
  | badc (u ln seed : Nat)                  -- b
  | ping                                    -- p
  | kill (idle : Bool)                      -- x y z / X Y

def parseVTok (t : String) : Option VTok :=
  if t = "p" then some .ping
  else if t = "x" ∨ t = "y" ∨ t = "z" then some (.kill true)
  else if t = "X" ∨ t = "Y" then some (.kill false)
  else match t.toList with
    | c :: rest =>
      match ((String.ofList rest).splitOn ".").map String.toNat? with
      | [some u, some l, some sd] =>
        if c = 'd' then some (.dgram u l sd true)
        else if c = 'D' then some (.dgram u l sd false)
        else if c = 'r' ∨ c = 'R' then some (.reply u l sd)
        else if c = 'n' then some (.noaddr u l sd)
        else if c = 'b' then some (.badc u l sd) else none
      | _ => none
    | [] => none

def parseVScript (t : String) : Option (List VTok) :=
  if t = "" then some [] else (t.splitOn ",").mapM parseVTok

structure VSim where
  s : UdpSrv.St
  must : List Entry := []             -- datagrams that have to arrive
  may : List Entry := []              -- datagrams that were in flight when the work connection was taken away
  flex : List (Entry × Nat) := []     -- … with the number of the connection that was current then
  inflight : List Entry := []         -- datagrams sent without waiting since the last synchronisation
  rs : List (Nat × Entry) := []       -- replies sent by the far side (user, payload)

/-- light-load schedule of one script token: the goroutines run to quiescence before the next token
    (cancelled senders leave, the current sender takes the datagram, ForwardUserConn forwards the reply) -/
def simVTok (ps : Nat) (st : VSim) (i : Nat) : VTok → VSim
  | .dgram u ln seed wait =>
    let p := tunnelPayload u i ln seed
    let e := entryOf (rd ps p)
    let s0 := UdpSrv.quiesce st.s
    let s1 := UdpSrv.step (UdpSrv.step s0 (.userSend (userAddr u) p)) (.senderTake s0.gen true)
    { st with s := s1, must := st.must ++ [e], inflight := if wait then [] else st.inflight ++ [e] }
  | .reply u ln seed =>
    let q := tunnelReply (tunnelPayload u i ln seed)
    { st with s := UdpSrv.step (UdpSrv.step st.s (.connRecv st.s.gen (packetOf q none (some (userAddr u))))) .sback,
              rs := st.rs ++ [(u, entryOf q)], inflight := [] }
  | .noaddr u ln seed =>
    let q := tunnelReply (tunnelPayload u i ln seed)
    { st with s := UdpSrv.step (UdpSrv.step st.s (.connRecv st.s.gen (packetOf q none none))) .sback, inflight := [] }
  | .badc u _ _ =>
    { st with s := UdpSrv.step (UdpSrv.step st.s (.connRecv st.s.gen
                { content := [33, 42], laddr := none, raddr := some (userAddr u) })) .sback, inflight := [] }
  | .ping => { st with s := UdpSrv.step st.s (.connPing st.s.gen), inflight := [] }
  | .kill idle =>
    let s' := UdpSrv.run st.s (UdpSrv.replaceIdle st.s.gen)
    if idle then { st with s := s', inflight := [] }
    else
      { st with s := s', inflight := [],
                must := st.must.filter (fun e => !st.inflight.contains e),
                may := st.may ++ st.inflight,
                flex := st.flex ++ st.inflight.map (fun e => (e, st.s.gen)) }

def simVScript (ps : Nat) (toks : List VTok) : VSim :=
  (toks.zipIdx).foldl (fun st p => simVTok ps st p.2 p.1)
    { s := UdpSrv.step (UdpSrv.init ps 1024) (.loopGet true) }

/-- the model's result; the placement of a datagram that was in flight at a loss (old connection, new
    connection, nowhere) is the implementation's choice: it is taken over when it is an allowed one -/
def modelSpx (k : Nat) (st : VSim) (implW : List WEntry) : String :=
  let s := st.s
  let isFlex (e : Entry) : Bool := st.flex.any (fun f => f.1 == e)
  let fixed := (s.wire.filterMap (fun e => e.2.2.map (fun b => (e.1, entryOf b)))).filter (fun w => !isFlex w.2)
  let chosen := implW.filter (fun w => st.flex.any (fun f => f.1 == w.2 && (w.1 == f.2 || w.1 == f.2 + 1)))
  let ustr := String.join ((List.range k).map (fun i =>
    s!";U{i}={fmtEntries ((s.userLog.filter (fun e => e.1 = userAddr i)).map (fun e => entryOf e.2))}"))
  s!"W={fmtW (fixed ++ chosen)}{ustr};conns={s.gen};bad=0"

/-- parse `W=…;U0=…;…;conns=n;bad=b` keeping the connection numbers -/
def parseSrvResult (k : Nat) (impl : String) : Option (List WEntry × List (List Entry) × Bool) :=
  match impl.splitOn ";" with
  | w :: rest =>
    match (kv "W" w).bind parseW with
    | none => none
    | some W =>
      let us := (List.range k).zip (rest.take k)
      match us.mapM (fun p => (kv s!"U{p.1}" p.2).bind parseEntries) with
      | none => none
      | some Us =>
        if us.length ≠ k then none else
        match rest.drop k with
        | [_, b] => (kv "bad" b).map (fun v => (W, Us, v ≠ "0"))
        | _ => none
  | [] => none

/-! ### client side of a sudp proxy with several work connections (harness/eng_udp_px.go) -/

/-- payload of a request whose answer the backend holds back: first byte 'H' -/
def holdPayload (u seq ln seed : Nat) : Str :=
  match tunnelPayload u seq ln seed with
  | _ :: rest => 72 :: rest
  | [] => []

inductive PTok
  | opn                                        -- o
  | dgram (c u ln seed : Nat) (hold : Bool)    -- d / D / q
  | badc (c u : Nat)                           -- b
  | release                                    -- a
  | kill (c : Nat)                             -- x / y / z
  | closeAll                                   -- C

def nat4 (t : String) : Option (List Nat) := ((t.splitOn ".").mapM String.toNat?)

/-- `withConn = false`: tokens of `e2ev` (user instead of connection.user; connection 0 is a placeholder) -/
def parsePTok (withConn : Bool) (t : String) : Option PTok :=
  if t = "o" then some .opn
  else if t = "a" then some .release
  else if t = "C" then some .closeAll
  else match t.toList with
    | c :: rest =>
      let body := String.ofList rest
      if c = 'x' ∨ c = 'y' ∨ c = 'z' then body.toNat?.map .kill
      else match nat4 body, withConn with
        | some [cn, u, l, sd], true =>
          if c = 'd' ∨ c = 'D' then some (.dgram cn u l sd false)
          else if c = 'q' then some (.dgram cn u l sd true)
          else if c = 'b' then some (.badc cn u) else none
        | some [u, l, sd], false =>
          if c = 'd' ∨ c = 'D' then some (.dgram 0 u l sd false)
          else if c = 'q' then some (.dgram 0 u l sd true) else none
        | _, _ => none
    | [] => none

def parsePScript (withConn : Bool) (t : String) : Option (List PTok) :=
  if t = "" then some [] else (t.splitOn ",").mapM (parsePTok withConn)

structure PSim where
  s : SudpPx.St
  dead : List Nat := []                      -- connections the script has taken away
  held : List (Nat × Nat × Str) := []        -- answers the backend holds: (connection, socket, payload)
  E : List Entry := []                       -- datagrams the backend must get
  rs : List (Nat × Entry) := []              -- answers that must be read back: (connection, payload)
  vconn : List (Nat × Nat) := []             -- e2ev: visitor ↦ its work connection

def pxAlive (st : PSim) (c : Nat) : Bool := decide (c < st.s.conns.length) && !st.dead.contains c

/-- light load: the goroutines of the connection run to quiescence; the request goes to the backend -/
def pxRequest (st : PSim) (c : Nat) (u : Nat) (p : Str) (hold : Bool) (cut : Nat) : PSim :=
  let m := packetOf p none (some (userAddr u))
  let s1 := SudpPx.step (SudpPx.step st.s (.at c (.recv m))) (.at c (.fwd true))
  let k := match (s1.conn c).bind (fun cn => cn.backendLog.getLast?) with
    | some e => e.1
    | none => 0
  let reply := tunnelReply p
  let st := { st with s := s1, E := st.E ++ [entryOf p] }
  if hold then { st with held := st.held ++ [(c, k, reply)] }
  else
    { st with s := SudpPx.step (SudpPx.step s1 (.at c (.backendReply k reply))) (.at c (.send true)),
              rs := st.rs ++ [(c, entryOf (rd cut reply))] }

def pxRelease (st : PSim) (cut : Nat) : PSim :=
  st.held.foldl (fun st h =>
    let c := h.1
    let s' := SudpPx.step (SudpPx.step st.s (.at c (.backendReply h.2.1 h.2.2))) (.at c (.send true))
    if pxAlive st c then { st with s := s', rs := st.rs ++ [(c, entryOf (rd cut h.2.2))] }
    else { st with s := s' }) { st with held := [] }

def simPTok (ps : Nat) (st : PSim) (i : Nat) : PTok → PSim
  | .opn =>
    let n := st.s.conns.length
    let s1 := SudpPx.step st.s .open_
    if st.s.pclosed then
      { st with s := SudpPx.step (SudpPx.step s1 (.at n .hbClose)) (.at n .readerDie), dead := n :: st.dead }
    else { st with s := s1 }
  | .dgram c u ln seed hold =>
    if !pxAlive st c then st else
    pxRequest st c u (if hold then holdPayload u i ln seed else tunnelPayload u i ln seed) hold ps
  | .badc c u =>
    if !pxAlive st c then st else
    let m : Packet := ⟨[33, 42], none, some (userAddr u)⟩
    { st with s := SudpPx.step (SudpPx.step st.s (.at c (.recv m))) (.at c (.fwd true)) }
  | .release => pxRelease st ps
  | .kill c =>
    if !pxAlive st c then st else
    { st with s := SudpPx.step (SudpPx.step st.s (.at c .readerDie)) (.at c .senderEnd), dead := c :: st.dead }
  | .closeAll =>
    let s1 := SudpPx.step st.s .proxyClose
    let live := (List.range s1.conns.length).filter (pxAlive st)
    let s2 := live.foldl (fun s c => SudpPx.step (SudpPx.step (SudpPx.step s (.at c .hbClose)) (.at c .readerDie))
      (.at c .senderEnd)) s1
    { st with s := s2, dead := live ++ st.dead }

def simPScript (ps : Nat) (toks : List PTok) : PSim :=
  (toks.zipIdx).foldl (fun st p => simPTok ps st p.2 p.1) { s := SudpPx.init ps 1024 }

def connB (c : SudpPx.Conn) : List Entry := c.backendLog.filterMap (fun e => e.2.2.map entryOf)
def connR (c : SudpPx.Conn) : List Entry := c.wire.filterMap (fun e => e.2.map entryOf)

def modelCpx (st : PSim) : String :=
  let cs := st.s.conns
  let b := fmtEntries (cs.flatMap connB)
  let r := String.join ((List.range cs.length).zip cs |>.map (fun p => s!";R{p.1}={fmtEntries (connR p.2)}"))
  let al := String.join (cs.map (fun c => if c.isClose then "0" else "1"))
  s!"B={b}{r};alive={al};socks={(cs.map (·.nextSock)).sum};mixed=0;bad=0"

/-- parse `B=…;R0=…;…;alive=bits;socks=n;mixed=m;bad=b` for `n` connections -/
def parseCpxResult (n : Nat) (impl : String) : Option (List Entry × List (List Entry) × List Bool × Bool × Bool) :=
  match impl.splitOn ";" with
  | b :: rest =>
    match (kv "B" b).bind parseEntries with
    | none => none
    | some B =>
      let rsT := (List.range n).zip (rest.take n)
      match rsT.mapM (fun p => (kv s!"R{p.1}" p.2).bind parseEntries) with
      | none => none
      | some Rs =>
        if rsT.length ≠ n then none else
        match rest.drop n with
        | [al, _, m, bd] =>
          match kv "alive" al, kv "mixed" m, kv "bad" bd with
          | some al, some m, some bd => some (B, Rs, al.toList.map (· == '1'), m ≠ "0", bd ≠ "0")
          | _, _, _ => none
        | _ => none
  | [] => none

/-- e2ev: user `u` talks to visitor `u mod nv`; the first datagram of a visitor opens its work connection -/
def simVisTok (ps nv : Nat) (st : PSim) (i : Nat) : PTok → PSim
  | .dgram _ u ln seed hold =>
    let v := u % nv
    let (st, c) := match st.vconn.find? (fun e => e.1 = v) with
      | some e => (st, e.2)
      | none =>
        let n := st.s.conns.length
        ({ st with s := SudpPx.step st.s .open_, vconn := (v, n) :: st.vconn }, n)
    -- the visitor's ForwardUserConn cuts the datagram to the packet size
    pxRequest st c u (rd ps (if hold then holdPayload u i ln seed else tunnelPayload u i ln seed)) hold ps
  | .release => pxRelease st ps
  | _ => st

def simVisScript (ps nv : Nat) (toks : List PTok) : PSim :=
  (toks.zipIdx).foldl (fun st p => simVisTok ps nv st p.2 p.1) { s := SudpPx.init ps 1024 }

def modelE2ev (k : Nat) (st : PSim) : String :=
  let cs := st.s.conns
  let all := cs.flatMap (·.wire)
  let ustr := String.join ((List.range k).map (fun u =>
    s!";U{u}={fmtEntries ((all.filter (fun e => e.1 = some (userAddr u))).filterMap (fun e => e.2.map entryOf))}"))
  s!"B={fmtEntries (cs.flatMap connB)}{ustr};socks={(cs.map (·.nextSock)).sum};mixed=0"

/-! ### client side of a udp proxy fed a typed stream (harness/eng_udp_upx.go) -/

inductive UTok
  | dgram (u ln seed : Nat)     -- d / D
  | ctl (ty : String)           -- c<Type>
  | bare                        -- n: a UDPPacket frame without content and address

def parseUTok (t : String) : Option UTok :=
  if t = "n" then some .bare else
  match t.toList with
  | 'c' :: rest => some (.ctl (String.ofList rest))
  | c :: rest =>
    if c = 'd' ∨ c = 'D' then
      match ((String.ofList rest).splitOn ".").map String.toNat? with
      | [some u, some l, some sd] => some (.dgram u l sd)
      | _ => none
    else none
  | [] => none

def parseUScript (t : String) : Option (List UTok) :=
  if t = "" then some [] else (t.splitOn ",").mapM parseUTok

/-- the protocol's name of the type a `c` token stands for (`PingEmpty` is a Ping without fields) -/
def ctlType (ty : String) : String := if ty = "PingEmpty" then "Ping" else ty

structure USim where
  E : List Entry := []          -- datagrams the backend must get
  Rs : List Entry := []         -- answers the far end must read back
  extra : Nat := 0              -- datagrams the backend gets that are shorter than any payload of the script
  allowed : Nat := 0            -- … of these: caused by a message the real server end never writes (outside the domain)
  keys : List (Option Addr) := []   -- udpConnMap keys that were dialled

/-- one token through the client end AS THE SOURCE HAS IT (`UdpWire.genCfg.cli`, regenerated): its reader, then the
    Forwarder (`Udp.stepCfwd`: GetContent, socket per RemoteAddr.String(), Write) -/
def simUTok (ps : Nat) (st : USim) (i : Nat) (t : UTok) : USim :=
  let cfg := UdpWire.genCfg
  let (m, inDomain) : UdpWire.WMsg × Bool := match t with
    | .dgram u ln seed => (.udp (packetOf (tunnelPayload u i ln seed) none (some (userAddr u))), true)
    | .ctl ty => (.ctl (ctlType ty), cfg.srv.writes.contains (ctlType ty))
    | .bare => (.udp UdpWire.emptyPacket, false)   -- ForwardUserConn tags every packet with the sender's address
  match UdpWire.reads cfg.cli m with
  | none => st
  | some p =>
    match contentOf p with
    | none => st
    | some b =>
      let st := if st.keys.contains p.raddr then st else { st with keys := p.raddr :: st.keys }
      if b.length ≥ 4 then { st with E := st.E ++ [entryOf b], Rs := st.Rs ++ [entryOf (rd ps (tunnelReply b))] }
      else { st with extra := st.extra + 1, allowed := if inDomain then st.allowed else st.allowed + 1 }

def simUScript (ps : Nat) (toks : List UTok) : USim :=
  (toks.zipIdx).foldl (fun st p => simUTok ps st p.2 p.1) {}

/-- parse `B=…;X=n;R=…;socks=n;bad=b` -/
def parseUpxResult (impl : String) : Option (List Entry × Nat × List Entry × Bool) :=
  match impl.splitOn ";" with
  | [b, x, r, _, bd] =>
    match (kv "B" b).bind parseEntries, (kv "X" x).bind String.toNat?, (kv "R" r).bind parseEntries, kv "bad" bd with
    | some B, some X, some R, some bd => some (B, X, R, bd ≠ "0")
    | _, _, _, _ => none
  | _ => none

/-! ### batches of decoded payloads that are all kept -/

def parseItems (t : String) : Option (List (Nat × Nat)) :=
  if t = "" then some [] else
  (t.splitOn ",").mapM (fun e =>
    match (e.splitOn ".").map String.toNat? with
    | [some l, some s] => some (l, s)
    | _ => none)

/-- what must be retained for item (len, seed) of worker j: length and hash of the payload, computed through
    the model's encoder and decoder -/
def batchItem (j : Nat) (it : Nat × Nat) : List Nat :=
  match contentOf (packetOf (lcgBytes (it.2 + 7919 * j) it.1) none none) with
  | some r => [r.length, vhash r]
  | none => []

def fmtBatchItem (e : List Nat) : String :=
  match e with
  | [l, h] => s!"{l}.{h}"
  | _ => "err"

def parseBatchItem (t : String) : Option (List Nat) :=
  if t = "err" then some [] else
  match (t.splitOn ".").map String.toNat? with
  | [some l, some h] => some [l, h]
  | _ => none

def parseBatchResult (w : Nat) (impl : String) : Option (List (List (List Nat))) :=
  let parts := impl.splitOn ";"
  if parts.length ≠ w then none else
  ((List.range w).zip parts).mapM (fun p =>
    (kv s!"W{p.1}" p.2).bind (fun t => if t = "" then some [] else (t.splitOn ",").mapM parseBatchItem))

end UdpEng
open UdpEng

/-- which pair of wrapper stacks the two ends of an op's UDPPacket connection build (Model/UdpLayers) -/
inductive Leg | udpWork | sudpWork | sudpVisitor

/-- do the two ends of the connection understand each other under the op's `enc=` / `comp=` setting?  Read off the
    MODEL of the wrapper order (Props/C03 §10 proves it is `true` for every setting); where it were `false` the model
    predicts that nothing arrives. -/
def legOK (leg : Leg) (et ct : String) : Bool :=
  let o : Layers.Opts := { enc := et == "enc=1", comp := ct == "comp=1", limSrv := false, limCli := false }
  match leg with
  | .udpWork => UdpLayers.compatible (UdpLayers.srvUdpWrap o) (UdpLayers.cliUdpWrap o)
  | .sudpWork => UdpLayers.compatible (Layers.serverStack o) (UdpLayers.cliSudpWrap o)
  | .sudpVisitor => UdpLayers.compatible (UdpLayers.visSudpWrap o.enc o.comp) (Layers.visitorServerStack o.enc o.comp)

/-- the model's result of a tunnel-shaped op when nothing gets through -/
def nothingTunnel (k : Nat) : String :=
  s!"B={String.join ((List.range k).map (fun i => s!";U{i}="))};socks=0;mixed=0"

/-- `tunnel` / `e2e` / `e2es` in bursts of `g` (withFerr: the restated pump reports frame errors) -/
def burstStep (withFerr : Bool) (ok : Bool) (pst kt dt gt impl : String) : Verdict :=
  match kv "ps" pst |>.bind String.toNat?, kv "k" kt |>.bind String.toNat?, kv "d" dt |>.bind parseDs,
        kv "g" gt |>.bind String.toNat? with
  | some ps, some k, some ds, some g =>
    if ds.any (fun d => d.1 ≥ k ∨ d.2.1 < 4) ∨ g = 0 ∨ g > 1024 then .bad "burst datagram" else
    -- the datagrams of a burst are all read before the first of them is serialised: the explicit-buffer machine
    let E := burstWire false ps g ds
    if !(C03.msEq E (expectedB ps ds)) then .bad "burst model" else
    let model := if ok then modelTunnel ps k ds withFerr else nothingTunnel k
    let prop := match parseTunnelResult k impl with
      | some (B, Us, mixed) =>
        some (C03.holdsOnBurst E B && C03.holdsOnTunnel (expectedB ps ds) B (expectedU ps k ds) Us mixed)
      | none => some false
    verdictOf model impl prop
  | _, _, _, _ => .bad "burst"

def udpStep (st : Unit) (tok : List String) (impl : String) : Unit × Verdict :=
  match tok with
  | ["reset"] => (st, verdictOf "-" impl)
  | ["b64", b] =>
    match unhx b with
    | some b =>
      let model := hx (Base64.encode b) ++ ":1"
      let prop := match impl.splitOn ":" with
        | [c, rt] => (unhx c).map (fun c => C03.holdsOnB64 b c (rt = "1"))
        | _ => some false
      (st, verdictOf model impl prop)
    | none => (st, .bad "b64")
  | ["dec", s] =>
    match unhx s with
    | some s =>
      let model := match Base64.decode s with | none => "err" | some b => hx b
      (st, verdictOf model impl)
    | none => (st, .bad "dec")
  | ["frame", pst, b, l, r] =>
    match kv "ps" pst |>.bind String.toNat?, unhx b, parseAddr l, parseAddr r with
    | some ps, some b, some l, some r =>
      if impl = "noncanon" then (st, .skip "non-canonical ip text") else
      if !(addrPlain l && addrPlain r) then (st, .skip "address text needs JSON escaping") else
      let p := packetOf b l r
      let ok := fits p
      let model := s!"len={(body p).length};h={vhash (frame p)};rd={if ok then "ok" else "toolong"};rt={if ok then 1 else 0}"
      -- the property speaks about tunnel-path messages only (LocalAddr is always nil there)
      let prop := if l.isSome then none else match impl.splitOn ";" with
        | [_, _, rdv, rtv] => some (C03.holdsOnFrame ps b.length (rdv = "rd=ok") (rtv = "rt=1"))
        | _ => some false
      (st, verdictOf model impl prop)
    | _, _, _, _ => (st, .bad "frame")
  | ["tunnel", pst, kt, dt] =>
    match kv "ps" pst |>.bind String.toNat?, kv "k" kt |>.bind String.toNat?, kv "d" dt |>.bind parseDs with
    | some ps, some k, some ds =>
      if ds.any (fun d => d.1 ≥ k ∨ d.2.1 < 4) then (st, .bad "tunnel datagram") else
      let model := modelTunnel ps k ds
      let prop := match parseTunnelResult k impl with
        | some (B, Us, mixed) => some (C03.holdsOnTunnel (expectedB ps ds) B (expectedU ps k ds) Us mixed)
        | none => some false
      (st, verdictOf model impl prop)
    | _, _, _ => (st, .bad "tunnel")
  | ["tunnel", pst, kt, dt, gt] => (st, burstStep true true pst kt dt gt impl)
  | ["e2e", pst, et, ct, kt, dt, gt] => (st, burstStep false (legOK .udpWork et ct) pst kt dt gt impl)
  | ["e2es", pst, et, ct, kt, dt, gt] =>
    (st, burstStep false (legOK .sudpWork et ct && legOK .sudpVisitor et ct) pst kt dt gt impl)
  | ["e2e", pst, et, ct, kt, dt] =>
    -- same traffic through a real frps + frpc pair; encryption / compression are transparent
    match kv "ps" pst |>.bind String.toNat?, kv "k" kt |>.bind String.toNat?, kv "d" dt |>.bind parseDs with
    | some ps, some k, some ds =>
      if ds.any (fun d => d.1 ≥ k ∨ d.2.1 < 4) then (st, .bad "e2e datagram") else
      let model := if legOK .udpWork et ct then modelTunnel ps k ds false else nothingTunnel k
      let prop := match parseTunnelResult k impl with
        | some (B, Us, mixed) => some (C03.holdsOnTunnel (expectedB ps ds) B (expectedU ps k ds) Us mixed)
        | none => some false
      (st, verdictOf model impl prop)
    | _, _, _ => (st, .bad "e2e")
  | ["e2es", pst, et, ct, kt, dt] =>
    -- same traffic through a real sudp tunnel (visitor + frps + sudp proxy) on one visitor connection:
    -- the visitor adds no cut beyond ForwardUserConn's (same packet size), one Forwarder generation
    match kv "ps" pst |>.bind String.toNat?, kv "k" kt |>.bind String.toNat?, kv "d" dt |>.bind parseDs with
    | some ps, some k, some ds =>
      if ds.any (fun d => d.1 ≥ k ∨ d.2.1 < 4) then (st, .bad "e2es datagram") else
      let model := if legOK .sudpWork et ct && legOK .sudpVisitor et ct then modelTunnel ps k ds false else nothingTunnel k
      let prop := match parseTunnelResult k impl with
        | some (B, Us, mixed) => some (C03.holdsOnTunnel (expectedB ps ds) B (expectedU ps k ds) Us mixed)
        | none => some false
      (st, verdictOf model impl prop)
    | _, _, _ => (st, .bad "e2es")
  | ["sudp", pst, et, ct, kt, sc] =>
    if !legOK .sudpVisitor et ct then (st, .bad "model: the two ends of the visitor connection build different stacks") else
    -- the real SUDPVisitor against a scripted far side; encryption / compression are transparent
    match kv "ps" pst |>.bind String.toNat?, kv "k" kt |>.bind String.toNat?, kv "s" sc |>.bind parseScript with
    | some ps, some k, some toks =>
      if toks.any (fun t => match t with
          | .dgram u ln _ => u ≥ k ∨ ln < 4
          | .reply u ln _ => u ≥ k ∨ ln < 4
          | _ => false) then (st, .bad "sudp token") else
      let sim := simScript ps toks
      let model := modelSudp k sim
      let Rs := (List.range k).map (fun i => (sim.rs.filter (fun r => r.1 = i)).map Prod.snd)
      let prop := match parseSudpResult k impl with
        | some (W, Us, bad) => some (C03.holdsOnSudp sim.must sim.may W Rs Us bad)
        | none => some false
      (st, verdictOf model impl prop)
    | _, _, _ => (st, .bad "sudp")
  | ["spx", pst, et, ct, kt, sc] =>
    if !legOK .udpWork et ct then (st, .bad "model: the two ends of the udp work connection build different stacks") else
    -- the real frps udp proxy, the harness playing frpc; encryption / compression are transparent
    match kv "ps" pst |>.bind String.toNat?, kv "k" kt |>.bind String.toNat?, kv "s" sc |>.bind parseVScript with
    | some ps, some k, some toks =>
      if toks.any (fun t => match t with
          | .dgram u ln _ _ => u ≥ k ∨ ln < 4
          | .reply u ln _ => u ≥ k ∨ ln < 4
          | .noaddr u ln _ => u ≥ k ∨ ln < 4
          | .badc u ln _ => u ≥ k ∨ ln < 4
          | _ => false) then (st, .bad "spx token") else
      let sim := simVScript ps toks
      let Rs := (List.range k).map (fun i => (sim.rs.filter (fun r => r.1 = i)).map Prod.snd)
      match parseSrvResult k impl with
      | some (W, Us, bad) =>
        (st, verdictOf (modelSpx k sim W) impl (some (C03.holdsOnSrv sim.must sim.may (W.map Prod.snd) Rs Us bad)))
      | none => (st, verdictOf (modelSpx k sim []) impl (some false))
    | _, _, _ => (st, .bad "spx")
  | ["cpx", pst, et, ct, sc] =>
    if !legOK .sudpWork et ct then (st, .bad "model: the two ends of the sudp work connection build different stacks") else
    -- the real client-side sudp proxy with several scripted work connections; encryption / compression are transparent
    match kv "ps" pst |>.bind String.toNat?, kv "s" sc |>.bind (parsePScript true) with
    | some ps, some toks =>
      if toks.any (fun t => match t with
          | .dgram _ u ln _ _ => u ≥ 256 ∨ ln < 4
          | _ => false) then (st, .bad "cpx token") else
      let sim := simPScript ps toks
      let n := sim.s.conns.length
      let Rs := (List.range n).map (fun c => (sim.rs.filter (fun r => r.1 = c)).map Prod.snd)
      let aliveExp := (List.range n).map (fun c => !sim.dead.contains c)
      let prop := match parseCpxResult n impl with
        | some (B, Us, alive, mixed, bad) => some (C03.holdsOnPx sim.E B Rs Us aliveExp alive mixed bad)
        | none => some false
      (st, verdictOf (modelCpx sim) impl prop)
    | _, _ => (st, .bad "cpx")
  | ["e2ev", pst, et, ct, vt, kt, sc] =>
    if !(legOK .sudpWork et ct && legOK .sudpVisitor et ct) then (st, .bad "model: sudp stacks differ") else
    -- several real visitors -> real frps -> one real sudp proxy: one work connection per visitor
    match kv "ps" pst |>.bind String.toNat?, kv "v" vt |>.bind String.toNat?, kv "k" kt |>.bind String.toNat?,
          kv "s" sc |>.bind (parsePScript false) with
    | some ps, some nv, some k, some toks =>
      if nv = 0 ∨ toks.any (fun t => match t with
          | .dgram _ u ln _ _ => u ≥ k ∨ ln < 4
          | _ => false) then (st, .bad "e2ev token") else
      let sim := simVisScript ps nv toks
      let all := sim.rs.map Prod.snd
      let Rs := (List.range k).map (fun u => all.filter (fun e => e.1 = u))
      let prop := match parseTunnelResult k impl with
        | some (B, Us, mixed) => some (C03.holdsOnTunnel sim.E B Rs Us mixed)
        | none => some false
      (st, verdictOf (modelE2ev k sim) impl prop)
    | _, _, _, _ => (st, .bad "e2ev")
  | ["upx", pst, et, ct, sc] =>
    -- the real client-side udp proxy fed a typed stream; the client end is the regenerated configuration
    if !legOK .udpWork et ct then (st, .bad "model: the two ends of the udp work connection build different stacks") else
    match kv "ps" pst |>.bind String.toNat?, kv "s" sc |>.bind parseUScript with
    | some ps, some toks =>
      if toks.any (fun t => match t with
          | .dgram u ln _ => u ≥ 256 ∨ ln < 4
          | _ => false) then (st, .bad "upx token") else
      let sim := simUScript ps toks
      let model := s!"B={fmtEntries sim.E};X={sim.extra};R={fmtEntries sim.Rs};socks={sim.keys.length};bad=0"
      let prop := match parseUpxResult impl with
        | some (B, X, R, bad) => some (C03.holdsOnUpx sim.E B sim.Rs R X sim.allowed && !bad)
        | none => some false
      (st, verdictOf model impl prop)
    | _, _ => (st, .bad "upx")
  | ["batch", wt, pt] =>
    match kv "w" wt |>.bind String.toNat?, kv "p" pt |>.bind parseItems with
    | some w, some items =>
      let expected := (List.range w).map (fun j => items.map (batchItem j))
      let model := ";".intercalate ((List.range w).zip expected |>.map (fun p =>
        s!"W{p.1}={",".intercalate (p.2.map fmtBatchItem)}"))
      let prop := match parseBatchResult w impl with
        | some got => some (C03.holdsOnBatch expected got)
        | none => some false
      (st, verdictOf model impl prop)
    | _, _ => (st, .bad "batch")
  | _ => (st, .bad "op")

def udp : Engine := { State := Unit, init := (), step := udpStep }

end Engines
end Frp
