import Frp.Driver.Proto
import Frp.Props.C20
import Frp.Props.C20Client
/-
  Driver engine "nat": replays the harness trace (harness/eng_nat.go) on the NatHole model and
  evaluates the C20 predicates on the implementation's own responses.
-/
namespace Frp
namespace Engines
open Proto NatBeh NatHole

namespace Nat'

/-! ### tokens -/

def unlist (t : String) : Option (List Str) :=
  if t = "-" then some [] else (t.splitOn ",").mapM unhx

def mklist (l : List Str) : String :=
  if l.isEmpty then "-" else ",".intercalate (l.map hx)

def b01 (b : Bool) : String := if b then "1" else "0"

def featOf (t : String) : Option Feature :=
  match t.toList with
  | [a, r, p] =>
    if (a = 'e' ∨ a = 'h') ∧ (r = '0' ∨ r = '1') ∧ (p = '0' ∨ p = '1') then
      some { natType := if a = 'h' then .hard else .easy,
             behavior := if a = 'h' then .portChanged else .noChange,
             regular := r = '1', pub := p = '1' }
    else none
  | _ => none

def roleStr : Role → String
  | .sender => "S" | .receiver => "R" | .none => "N"

def roleOf (s : String) : Option Role :=
  if s = "S" then some .sender else if s = "R" then some .receiver else if s = "N" then some .none else none

def behStr (b : Beh) : String :=
  s!"{roleStr b.role},{b.ttl},{b.sendDelayMs},{b.portsRangeNumber},{b.portsRandomNumber},{b.listenRandomPorts}"

def scoresStr (l : List Score) : String :=
  if l.isEmpty then "-" else ",".intercalate (l.map (fun s => s!"{s.mode}.{s.index}.{s.score}"))

def errStr : ErrKind → String
  | .none => "none" | .noExist => "noexist" | .authFailed => "auth" | .notAllowed => "notallowed"
  | .classifyClient => "cc" | .classifyVisitor => "cv" | .notifyTimeout => "notifytimeout"

def errOf (s : String) : Option ErrKind :=
  if s = "none" then some .none else if s = "noexist" then some .noExist else if s = "auth" then some .authFailed
  else if s = "notallowed" then some .notAllowed else if s = "cc" then some .classifyClient
  else if s = "cv" then some .classifyVisitor else if s = "notifytimeout" then some .notifyTimeout else none

/-- harness `natMutSig`: the supplied SignKey derived from the right one.  x as it is, p<k> first k characters,
    t<k> without the first k, s<hex> followed by bytes, l<hex> a literal instead, u upper case, d<k> without
    character k, f<k> character k replaced by another hex digit, g<k> first k characters then 'z's -/
def mutSig (mu : String) : Option (Str → Str) :=
  match mu.toList with
  | [] => some id
  | c :: arg =>
    let a := String.ofList arg
    let k := fun (sig : Str) => min (a.toNat?.getD 0) sig.length
    let unh : Str := (unhexAux arg).getD []
    if c = 'x' then some id
    else if c = 'p' then some (fun sig => sig.take (k sig))
    else if c = 't' then some (fun sig => sig.drop (k sig))
    else if c = 's' then some (fun sig => sig ++ unh)
    else if c = 'l' then some (fun _ => unh)
    else if c = 'u' then some (fun sig => sig.map (fun b => if 97 ≤ b ∧ b ≤ 122 then b - 32 else b))
    else if c = 'd' then some (fun sig => sig.take (k sig) ++ sig.drop (k sig + 1))
    else if c = 'f' then some (fun sig =>
      match sig[k sig]? with
      | some b => sig.take (k sig) ++ [if b = 48 then 49 else 48] ++ sig.drop (k sig + 1)
      | none => sig)
    else if c = 'g' then some (fun sig => sig.take (k sig) ++ List.replicate (sig.length - k sig) 122)
    else none

def portsStr (l : List (Int × Int)) : String :=
  if l.isEmpty then "-" else "+".intercalate (l.map (fun r => s!"{r.1}:{r.2}"))

def portsOf (s : String) : Option (List (Int × Int)) :=
  if s = "-" then some [] else
  (s.splitOn "+").mapM (fun r =>
    match r.splitOn ":" with
    | [a, b] => do let x ← a.toInt?; let y ← b.toInt?; pure (x, y)
    | _ => none)

def sidStr (s : Str) : String := if s.isEmpty then "-" else Str.toString s

def respStr (r : Resp) : String :=
  ";".intercalate [hx r.tid, sidStr r.sid, hx r.protocol, mklist r.candidateAddrs, mklist r.assistedAddrs,
    roleStr r.role, toString r.mode, toString r.ttl, toString r.sendDelayMs, toString r.readTimeoutMs,
    portsStr r.candidatePorts, toString r.sendRandomPorts, toString r.listenRandomPorts, errStr r.error]

def respOf (s : String) : Option Resp :=
  match s.splitOn ";" with
  | [tid, sid, proto, cand, asst, role, mode, ttl, delay, rto, ports, srand, lrand, err] => do
    let tid ← unhx tid
    let proto ← unhx proto
    let cand ← unlist cand
    let asst ← unlist asst
    let role ← roleOf role
    let mode ← mode.toNat?
    let ttl ← ttl.toNat?
    let delay ← delay.toNat?
    let rto ← rto.toNat?
    let ports ← portsOf ports
    let srand ← srand.toNat?
    let lrand ← lrand.toNat?
    let err ← errOf err
    pure { tid := tid, sid := if sid = "-" then [] else Str.ofString sid, protocol := proto, candidateAddrs := cand,
           assistedAddrs := asst, role := role, mode := mode, ttl := ttl, sendDelayMs := delay, readTimeoutMs := rto,
           candidatePorts := ports, sendRandomPorts := srand, listenRandomPorts := lrand, error := err }
  | _ => none

def respsStr (l : List Resp) : String :=
  if l.isEmpty then "-" else "|".intercalate (l.map respStr)

def respsOf (s : String) : Option (List Resp) :=
  if s = "-" then some [] else (s.splitOn "|").mapM respOf

/-- "V=…#C0=…#C1=…" -/
def tripleOf (s : String) : Option (List Resp × List Resp × List Resp) :=
  match s.splitOn "#" with
  | [v, c0, c1] =>
    if v.startsWith "V=" ∧ c0.startsWith "C0=" ∧ c1.startsWith "C1=" then do
      let v ← respsOf (v.drop 2).toString
      let c0 ← respsOf (c0.drop 3).toString
      let c1 ← respsOf (c1.drop 3).toString
      pure (v, c0, c1)
    else none
  | _ => none

def idsStr (l : List Nat) : String :=
  if l.isEmpty then "-" else ",".intercalate (l.map toString)

def idsOf (s : String) : Option (List Nat) :=
  if s = "-" then some [] else (s.splitOn ",").mapM (·.toNat?)

/-! ### state -/

structure Info where
  id : Nat
  vm : VMsg
  cm : Option CMsg := none
  created : Bool := false
  cmSeen : Option (List Str) := none   -- mapped addresses of the first `cli` op for this id (tag check only)

structure St where
  A : Analyzer := {}
  C : State := {}
  outbox : List (Nat × Resp) := []
  infos : List Info := []

def sidOf (id : Nat) : Str := Str.ofString s!"s{id}"
def tvOf (id : Nat) : Nat := 3 * id
def tcOf (id k : Nat) : Nat := 3 * id + 1 + k

def St.info (st : St) (id : Nat) : Option Info := st.infos.find? (·.id = id)

def St.setInfo (st : St) (i : Info) : St :=
  { st with infos := i :: st.infos.filter (·.id ≠ i.id) }

/-- apply a label that the model must have enabled; `none` = the model refuses -/
def St.app (st : St) (l : Label) : Option St :=
  match step st.C l with
  | some (C', o) => some { st with C := C', outbox := st.outbox ++ o }
  | none => none

def St.tryApp (st : St) (l : Label) : St := (st.app l).getD st

def sentTo (st : St) (t : Nat) : List Resp := (st.outbox.filter (·.1 = t)).map (·.2)

def insertSorted (x : Nat) : List Nat → List Nat
  | [] => [x]
  | y :: r => if x ≤ y then x :: y :: r else y :: insertSorted x r

def sortNat (l : List Nat) : List Nat := l.foldr insertSorted []

def insertSortedStr (x : String) : List String → List String
  | [] => [x]
  | y :: r => if x < y then x :: y :: r else y :: insertSortedStr x r

/-- Go `sort.Strings` (byte order; the strings are ASCII) -/
def sortStr (l : List String) : List String := l.foldr insertSortedStr []

/-- ids whose session is still stored, split into (handler may legitimately still hold it, stuck) -/
def liveIds (st : St) : List Nat × List Nat :=
  let ids := sortNat (st.infos.map (·.id))
  let live := ids.filter (fun id => (aget st.C.sessions (sidOf id)).isSome)
  let stuck := live.filter (fun id =>
    match aget st.C.sessions (sidOf id) with
    | some s => (match s.phase with | .notifying ch => !chanAlive st.C.cfgs ch | _ => false)
    | none => false)
  (live.filter (fun id => !stuck.contains id), stuck)

/-- let every timeout and every delayed send happen -/
def settleOne (st : St) (id : Nat) : St :=
  let sid := sidOf id
  match aget st.C.sessions sid with
  | none => st
  | some s =>
    match s.phase with
    | .waiting => st.tryApp (.timeout sid)
    | .notifying _ => st.tryApp (.notifyTimeout sid)   -- 8d80cd3: the send is bounded by NatHoleTimeout
    | .responding _ _ _ _ => (st.tryApp (.sendV sid)).tryApp (.sendC sid)
    | _ => st

def anyOutOfRange (l : List Str) : Bool :=
  l.any (fun a => match splitHostPort a with
    | some (_, p) => (match atoi p with | some n => decide (n < 1 ∨ n > 65535) | none => false)
    | none => false)

/-- the last address carries a port near the int64 limits: Go's arithmetic in getRangePorts wraps -/
def hugePort (l : List Str) : Bool :=
  match l.getLast? with
  | some a => (match splitHostPort a with
      | some (_, p) => (match atoi p with | some n => decide (n < -(2 ^ 40) ∨ n > 2 ^ 40) | none => false)
      | none => false)
  | none => false

def lastOutOfRange (l : List Str) : Bool :=
  match l.getLast? with
  | some a => anyOutOfRange [a]
  | none => false

/-- `resp` / `rangechk`: the responses received, judged by predicate `P` -/
def judge (st : St) (id : Nat) (impl : String) (P : Str → VMsg → CMsg → Resp → Resp → Bool) : Option Bool :=
  match st.info id, tripleOf impl with
  | some i, some (v, c0, c1) =>
    let c := c0 ++ c1
    if !i.created then
      -- refused at lookup: exactly one error response to the visitor, nothing else
      some (match v, c with
        | [r], [] => r.error != .none && r.sid == [] && r.role == .none && r.candidatePorts == []
        | _, _ => false)
    else
      -- a delayed send is still pending (no `settle` yet): nothing to judge
      let pending := match aget st.C.sessions (sidOf id) with
        | some s => (match s.phase with | .responding _ _ _ _ => true | _ => false)
        | none => false
      if pending then none else
      match v, c, i.cm with
      | [], [], _ => some true                     -- timed out / never answered: nobody is told anything
      | [rv], [], none =>                          -- 8d80cd3: the notify send timed out, the visitor is told
        some (rv.error == .notifyTimeout && rv.sid == [] && rv.role == .none && rv.candidatePorts == [])
      | [rv], [rc], some cm => some (P (sidOf id) i.vm cm rv rc)
      | _, _, _ => some false                      -- not exactly one response per party
  | _, _ => none

/-- the handler's select takes the token: analysis, then the party that is not the sender is
    answered at once (HandleVisitor sleeps 1 s before answering a sender) -/
def wakeAndAnswer (st : St) (id : Nat) (cm : CMsg) : Option St :=
  let sid := sidOf id
  match st.app (.wake sid) with
  | none => none
  | some st2 =>
    let st2 := match st2.info id with
      | some i => st2.setInfo { i with cm := some cm }
      | none => st2
    match aget st2.C.sessions sid with
    | some s2 =>
      match s2.phase with
      | .responding vr cr _ _ =>
        let st3 := if vr.role ≠ .sender then st2.tryApp (.sendV sid) else st2
        let st4 := if cr.role ≠ .sender then st3.tryApp (.sendC sid) else st3
        some st4
      | _ => none
    | none => none

/-! ### the step function -/

def stepCore (st : St) (tok : List String) (impl : String) : St × Verdict :=
  match tok with
  | ["reset"] => ({}, verdictOf "-" impl)
  | ["classify", a, l] =>
    match unlist a, unlist l with
    | some a, some l =>
      let m := match classify a l with
        | none => "err"
        | some f =>
          let ty := match f.natType with | .easy => "easy" | .hard => "hard"
          let bh := match f.behavior with
            | .noChange => "none" | .ipChanged => "ip" | .portChanged => "port" | .bothChanged => "both"
          s!"{ty},{bh},{f.portsDifference},{b01 f.regular},{b01 f.pub}"
      -- property on the implementation's own answer (C20.classify_some_iff / classify_malformed_error): accepted
      -- exactly when there are at least two entries and EVERY entry splits and has a decimal port in 1..65535
      (st, verdictOf m impl (some ((impl != "err") == (decide (2 ≤ a.length) && C20.addrsValid a))))
    | _, _ => (st, .bad "classify")
  | ["range", tag, a, d, n] =>
    match unlist a, d.toInt?, n.toNat? with
    | some a, some d, some n =>
      if (tag = "oor") ≠ lastOutOfRange a then (st, .bad "range tag") else
      if hugePort a then (st, .skip "int64 wrap-around (unreachable since FIX-PORT; model uses unbounded Int)") else
      let m := getRangePorts a d n
      let ms := if m.isEmpty then "nil" else portsStr m
      -- out-of-range ports never reach getRangePorts any more (f51e354: classification rejects them):
      -- for those the predicate does not speak, the result is only compared with the model
      let prop := if tag = "oor" then none
        else if impl = "nil" then some true else (portsOf impl).map (fun l => l.all C20.rangeOk)
      (st, verdictOf ms impl prop)
    | _, _, _ => (st, .bad "range")
  | ["rec", k, cf, vf] =>
    match unhx k, featOf cf, featOf vf with
    | some k, some c, some v =>
      let (A', r) := getRecommand st.A k c v
      let sc := (aget A'.records k).getD []
      let ms := s!"{r.mode},{r.index}#{behStr r.cBeh}#{behStr r.vBeh}#{scoresStr sc}"
      -- property on the implementation's answer: complementary roles + the role rules of its mode
      let prop := match impl.splitOn "#" with
        | [mi, cb, vb, _] =>
          (match (mi.splitOn ",").head?, (cb.splitOn ",").head?, (vb.splitOn ",").head? with
           | some m, some a, some b =>
             (do let m ← m.toNat?; let x ← roleOf a; let y ← roleOf b
                 pure (C20.roleCompl x y && C20.roleRulesOk m c v x y))
           | _, _, _ => none)
        | _ => none
      ({ st with A := A' }, verdictOf ms impl prop)
    | _, _, _ => (st, .bad "rec")
  | ["succ", k, m, i] =>
    match unhx k, m.toNat?, i.toNat? with
    | some k, some m, some i =>
      let A' := analyzerReport st.A k m i
      let ms := match aget A'.records k with | none => "nokey" | some sc => scoresStr sc
      ({ st with A := A' }, verdictOf ms impl)
    | _, _, _ => (st, .bad "succ")
  | ["listen", n, sk, al] =>
    match unhx n, unhx sk, unlist al with
    | some n, some sk, some al =>
      let ms := if (aget st.C.cfgs n).isSome then "repeated" else "ok"
      (st.tryApp (.listen n sk al), verdictOf ms impl)
    | _, _, _ => (st, .bad "listen")
  | ["close", n] =>
    match unhx n with
    | some n => (st.tryApp (.close n), verdictOf "-" impl)
    | none => (st, .bad "close")
  | ["precheck", n, u] =>
    match unhx n, unhx u with
    | some n, some u =>
      match NatHole.step st.C (.precheck { proxyName := n } 0 u) with
      | some (_, [(_, r)]) => (st, verdictOf (if r.error = .none then "ok" else errStr r.error) impl)
      | _ => (st, .bad "precheck model")
    | _, _ => (st, .bad "precheck")
  | "visit" :: id :: n :: sk :: tsu :: tsm :: u :: pr :: ma :: aa :: mus =>
    match id.toNat?, unhx n, unhx sk, tsu.toInt?, tsm.toInt?, unhx u, unhx pr, unlist ma, unlist aa,
          mutSig (mus.headD "x") with
    | some id, some n, some sk, some tsu, some tsm, some u, some pr, some ma, some aa, some mutate =>
      -- the SignKey string the harness supplied: the signature for (sk, tsu) — a real MD5 — put through the
      -- op's mutation; the model compares it, as HandleVisitor does, with the signature for the PROXY's secret
      -- and the message's timestamp (NatSign.visitorLookupW = NatHole.step on the abstracted message:
      -- C20.visitorLookupW_refines)
      let wm : NatSign.WVMsg := { tid := Str.ofString s!"tv{id}", proxyName := n, protocol := pr,
                                  signKey := mutate (NatSign.authKey sk tsu), timestamp := tsm, mapped := ma, assisted := aa }
      let vm : VMsg := wm.abs st.C.cfgs
      match NatSign.visitorLookupW st.C (sidOf id) wm (tvOf id) u with
      | some (C', o) =>
        let created := o.isEmpty
        let ms := match o with
          | [] => "created"
          | (_, r) :: _ => "err:" ++ errStr r.error
        -- property (C20.session_created_only_exact_signature, evaluated on the implementation's own answer): a
        -- session may be created only for a registered proxy, an allowed user and a SignKey that equals
        -- hex(md5(secret ++ timestamp)) byte for byte
        let exact := match aget st.C.cfgs n with
          | some cfg => wm.signKey == NatSign.authKey cfg.sk tsm && userAllowed cfg.allow u
          | none => false
        let prop := if impl = "created" then some (created && exact) else some true
        (({ st with C := C', outbox := st.outbox ++ o }).setInfo { id := id, vm := vm, created := created },
         verdictOf ms impl prop)
      | none => (st, .bad "visit: sid reused")
    | _, _, _, _, _, _, _, _, _, _ => (st, .bad "visit")
  | ["notify", n] =>
    match unhx n with
    | some n =>
      let cands : List Nat := match aget st.C.cfgs n with
        | none => []
        | some cfg => (sortNat (st.infos.map (·.id))).filter (fun id =>
            match aget st.C.sessions (sidOf id) with
            | some s => s.phase = .notifying cfg.chan
            | none => false)
      -- relational: any blocked sender of that channel may be the one received
      let implId : Option Nat := if impl.startsWith "n" then (impl.drop 1).toString.toNat? else none
      match implId with
      | some id =>
        if cands.contains id then
          match st.app (.notify (sidOf id)) with
          | some st' =>
            -- a NatHoleClient that arrived before the notify left a token in notifyCh
            match aget st'.C.sessions (sidOf id) with
            | some s =>
              (match s.notified, s.cmsg with
               | true, some cm => ((wakeAndAnswer st' id cm).getD st', verdictOf impl impl)
               | _, _ => (st', verdictOf impl impl))
            | none => (st', verdictOf impl impl)
          | none => (st, verdictOf "none" impl)
        else (st, verdictOf (match cands with | [] => "none" | c :: _ => s!"n{c}") impl)
      | none =>
        match cands with
        | [] => (st, verdictOf "none" impl)
        | c :: _ => (st.tryApp (.notify (sidOf c)), verdictOf s!"n{c}" impl)
    | none => (st, .bad "notify")
  | ["cli", id, k, ma, aa] =>
    match id.toNat?, k.toNat?, unlist ma, unlist aa with
    | some id, some k, some ma, some aa =>
      let sid := sidOf id
      let cm : CMsg := { tid := Str.ofString s!"tc{id}", sid := sid, mapped := ma, assisted := aa }
      let st := match st.info id with
        | some i => if i.cmSeen.isNone then st.setInfo { i with cmSeen := some ma } else st
        | none => st
      match aget st.C.sessions sid with
      | none => (st, verdictOf "unknown" impl)
      | some s =>
        let st1 := st.tryApp (.clientMsg cm (tcOf id k))
        if s.phase = .waiting then
          match wakeAndAnswer st1 id cm with
          | some st4 => (st4, verdictOf "ok" impl)
          | none => (st1, .bad "cli: wake refused")
        else (st1, verdictOf "late" impl)
    | _, _, _, _ => (st, .bad "cli")
  | ["report", id, ok] =>
    match id.toNat? with
    | some id =>
      let sid := sidOf id
      -- property on the implementation's own answer (C20.reportOk): nothing but the reported session's own
      -- score list changed, and a session that is unknown or not analysed has no score list
      let prop : Option Bool := match impl.splitOn "#" with
        | [stt, _, sc, fr] => some (C20.reportOk (stt = "1") (sc ≠ "-") (fr = "same"))
        | _ => none
      match aget st.C.sessions sid with
      | none => (st.tryApp (.report sid (ok = "1")), verdictOf "u#0,0#-#same" impl prop)
      | some s =>
        let st' := st.tryApp (.report sid (ok = "1"))
        let rec? := aget st'.C.analyzer.records s.key
        let stt := if s.key.isEmpty then "0" else "1"
        let ms := s!"{stt}#{s.mode},{s.index}#{scoresStr (rec?.getD [])}#same"
        (st', verdictOf ms impl prop)
    | none => (st, .bad "report")
  | ["adump"] =>
    let ls := sortStr (st.C.analyzer.records.map (fun p => scoresStr p.2))
    (st, verdictOf s!"{st.C.analyzer.records.length}:{"/".intercalate ls}" impl)
  | ["settle"] =>
    let ids := sortNat (st.infos.map (·.id))
    let st' := ids.foldl settleOne st
    let (live, _) := liveIds st'
    let ms := "live=" ++ idsStr live
    -- property: a session still stored must be one whose handler is legitimately not finished:
    -- completed and inside its report window, or waiting for an owner loop that is receiving
    let prop : Option Bool :=
      if impl.startsWith "live=" then
        (idsOf (impl.drop 5).toString).map (fun l => l.all (fun id =>
          match aget st'.C.sessions (sidOf id) with
          | some s => (match s.phase with
              | .sleeping => true              -- completed, inside its report window
              | _ => false)                    -- every other phase is bounded by NatHoleTimeout / the 1 s send delay
          | none => false))
      else none
    (st', verdictOf ms impl prop)
  | ["stuck"] =>
    let (_, stuck) := liveIds st
    -- property: no session is held by a handler that can never proceed
    (st, verdictOf (idsStr stuck) impl (some (impl = "-")))
  | ["resp", id, tag] =>
    match id.toNat? with
    | some id =>
      match st.info id with
      | none => (st, verdictOf "unknown" impl)
      | some i =>
        let oor := anyOutOfRange i.vm.mapped || anyOutOfRange (i.cmSeen.getD [])
        if (tag = "oor") ≠ oor then (st, .bad "resp tag") else
        let ms := s!"V={respsStr (sentTo st (tvOf id))}#C0={respsStr (sentTo st (tcOf id 0))}#C1={respsStr (sentTo st (tcOf id 1))}"
        (st, verdictOf ms impl (judge st id impl C20.pairOk))
    | none => (st, .bad "resp")
  | ["rangechk", id, tag] =>
    match id.toNat? with
    | some id =>
      match st.info id with
      | none => (st, verdictOf "unknown" impl)
      | some i =>
        let oor := anyOutOfRange i.vm.mapped || anyOutOfRange (i.cmSeen.getD [])
        if (tag = "oor") ≠ oor then (st, .bad "rangechk tag") else
        let ms := s!"V={respsStr (sentTo st (tvOf id))}#C0={respsStr (sentTo st (tcOf id 0))}#C1={respsStr (sentTo st (tcOf id 1))}"
        (st, verdictOf ms impl (judge st id impl C20.fullOk))
    | none => (st, .bad "rangechk")
  | _ => (st, .bad "op")

/-- "never a bogus instruction or a crash": a panic of the real code in ANY op (HandleReport,
    HandleClient, the HandleVisitor goroutine, the analyzer, the classifier) fails the property;
    the model still advances so that the trace stays aligned -/
def step (st : St) (tok : List String) (impl : String) : St × Verdict :=
  let (st', v) := stepCore st tok impl
  if impl.startsWith "PANIC:" then
    (st', match v with
      | .diff m _ => .diff m (some false)
      | .bad w => .bad w
      | _ => .diff "no-panic" (some false))
  else (st', v)

end Nat'

def nat : Engine := { State := Nat'.St, init := {}, step := Nat'.step }

end Engines
end Frp
