import Frp.Driver.Proto
import Frp.Model.Md5
import Frp.Props.C08
import Frp.Engines.Stack
/-
  Driver engine "xtcp" (C08 + the xtcp clauses of C01): oracle for harness/eng_xtcp.go — a real frps, a real
  frpc owning xtcp / stcp proxies and one real frpc per visitor scenario, in one process on loopback.

  The server side is the `Visitor` model (logins, RegisterProxy, HandleVisitor, NewConn); every visitor
  scenario is a state of the `XtcpVisitor` transition system, driven by the labels that correspond to what
  the harness did (a user connection arrives; the hole is made — its outcome is the model's `holeRes` on the
  server model's answers, STUN answering or not being the scenario's input, the traversal itself assumed to
  succeed on loopback —; openTunnel's ticker; the fallback timeout; Close).  Where the real outcome depends on
  a race the model does not decide (a fallback timeout shorter than the time a hole takes), both outcomes
  the transition system allows are accepted and the model follows the observed one.

  The C08 / C01 predicate (`C08.xtHoldsOn`) is evaluated on the implementation's own result: who served the
  connection, that exactly one backend connection was made over ALL backends, that the bytes are intact,
  that the server model admits that visitor to that proxy.
-/
namespace Frp
namespace Engines
open Proto Visitor XtcpVisitor

namespace Xt

def H : Str → Str := Md5.hexDigest
def ts0 : Int := 1700000000
def ownerUser : Str := Str.ofString "ua"

structure XV where
  cfg : Cfg
  user : Str
  stunOk : Bool
  fb : Option (Str × Str)      -- the stcp proxy the fallback visitor names, the key that visitor holds
  st : XtcpVisitor.St
  nconn : Nat := 0

structure XSt where
  srv : Visitor.State
  flags : List (Str × Bool × Bool) := []     -- proxy ↦ useEncryption, useCompression
  up : Bool := false
  vis : List (String × XV) := []

def users : List String := ["ua", "ub", "uc", ""]   -- "" = a frpc that configured no user

/-- the three frpc users are logged in; run ids are symbolic (= the user name) -/
def srv0 : Visitor.State :=
  users.foldl (fun s u => (Visitor.step natFixed H s (.login (Str.ofString u) (Str.ofString u))).1) {}

def init : XSt := { srv := srv0 }

def skOf (s : Visitor.State) (name : Str) : Option Str :=
  match NatHole.aget s.natCfgs name with
  | some c => some c.sk
  | none => (NatHole.aget s.listeners name).map (·.sk)

/-- harness `xtKeyFor` -/
def keyFor (s : Visitor.State) (name : Str) (ok : Bool) : Str :=
  let sk := (skOf s name).getD (Str.ofString "nokey-" ++ name)
  if ok then sk else Str.ofString "wrong-" ++ sk

def envOf (st : XSt) (v : XV) : Env := { H := H, fixed := natFixed, cfgs := st.srv.natCfgs, user := v.user }

def lookupV (l : List (String × XV)) (id : String) : Option XV := (l.find? (fun p => p.1 == id)).map (·.2)
def setV (l : List (String × XV)) (id : String) (v : XV) : List (String × XV) :=
  if l.any (fun p => p.1 == id) then l.map (fun p => if p.1 == id then (id, v) else p) else l ++ [(id, v)]

def phaseAt (s : XtcpVisitor.St) (c : Nat) : Option Phase := (getC s c).map (·.phase)

def isTunnel : Option Phase → Bool
  | some (.tunnel _) => true
  | _ => false

def punching (s : XtcpVisitor.St) : Bool :=
  match s.starter with
  | .punching _ => true
  | _ => false

def routeOf (s : String) : C08.XRoute :=
  if s = "tunnel" then .tunnel else if s = "fallback" then .fallback else if s = "pending" then .pending
  else if s = "closed" then .closed else .other

/-- would the server hand a connection of this scenario's fallback visitor to the stcp proxy's owner -/
def fbAdmitted (st : XSt) (v : XV) : Bool :=
  match v.fb with
  | none => false
  | some (name, fsk) =>
    match (Visitor.step natFixed H st.srv (.visitorConn name ts0 (authKey H fsk ts0) v.user 0)).2 with
    | .conn (.queued _) => true
    | _ => false

def fbAdmB (st : XSt) (v : XV) : Bool :=
  match v.fb with
  | none => false
  | some (name, fsk) => C08.admissibleB H st.srv.listeners name ts0 (authKey H fsk ts0) v.user

def served (route : String) (tm : String) : String := s!"route={route};hits=1;tag=1;up=1;down=1;tm={tm}"
def unserved (route : String) : String := s!"route={route};hits=0;tag=0;up=0;down=0;tm=na"

/-- the hole attempt in flight comes to its end -/
def holeEv (v : XV) : Ev := .hole ts0 v.stunOk true true

/-- the labels after `arrive c` for a connection that found no tunnel, given what is to happen to it -/
def viaTunnel (v : XV) (c : Nat) : List Ev := [.advance 1500, holeEv v, .tick c true]
def viaFallback (v : XV) (c : Nat) : List Ev := [.advance v.cfg.fallbackMs, .ctxDone c true]

/-- the visitor's declarations equal the proxy's (else the tunnel stream is not transparent: C08.xt_mirror_iff) -/
def flagsAgree (st : XSt) (v : XV) : Bool :=
  match (st.flags.find? (fun p => p.1 == v.cfg.server)).map (·.2) with
  | some (e, c) => e == v.cfg.enc && c == v.cfg.comp
  | none => true

/-- one user connection: returns the new visitor state and the predicted result; `implRoute` is consulted only
    where the transition system allows two outcomes -/
def connModel (st : XSt) (v : XV) (implRoute : String) : XV × String :=
  let env := envOf st v
  let c := v.nconn
  let s1 := xstep env v.cfg v.st (.arrive c true)
  let v1 := { v with nconn := c + 1 }
  if isTunnel (phaseAt s1 c) then ({ v1 with st := s1 }, served "tunnel" "na")
  else
    let holeOk := holeRes env v.cfg ts0 v.stunOk true true == .ok
    let fbRes := if fbAdmitted st v then served "fallback" "ok" else unserved "closed"
    if punching s1 && holeOk then
      let safe := !v.cfg.fallback || v.cfg.fallbackMs ≥ 4000
      if safe || implRoute != "fallback" then ({ v1 with st := xrun env v.cfg s1 (viaTunnel v c) }, served "tunnel" "na")
      else ({ v1 with st := xrun env v.cfg s1 (viaFallback v c) }, fbRes)
    else
      let s2 := if punching s1 then xstep env v.cfg s1 (holeEv v) else s1
      if v.cfg.fallback then ({ v1 with st := xrun env v.cfg s2 (viaFallback v c) }, fbRes)
      else ({ v1 with st := s2 }, unserved "pending")

def obsOf (impl : String) : C08.XObs :=
  { route := routeOf ((stkRes impl "route").getD "?"), hits := (stkResNat impl "hits").getD 99,
    up := stkRes impl "up" == some "1", down := stkRes impl "down" == some "1" }

def connOp (st : XSt) (rest : List String) (impl : String) : XSt × Verdict :=
  match stkKV rest "id" with
  | none => (st, .bad "conn")
  | some id =>
    match lookupV st.vis id with
    | none => (st, verdictOf "novisitor" impl)
    | some v =>
      let (v', m) := connModel st v ((stkRes impl "route").getD "?")
      let st' := { st with vis := setV st.vis id v' }
      -- `silent`: the backend's greeting before the user wrote anything — over a QUIC tunnel there is none
      let m := if (stkKV rest "q").isSome then
          let quiet := if m.startsWith "route=tunnel" then (if announcedOnOpen (visitorSessKind v.cfg) then "tag" else "none")
            else if m.startsWith "route=fallback" then "tag" else if m.startsWith "route=closed" then "eof" else "none"
          s!"quiet={quiet};{m}"
        else m
      if m.contains "route=tunnel" && !flagsAgree st v then (st', .skip "visitor and proxy declare different enc/comp")
      else
        let prop := C08.xtHoldsOn (C08.xtAdmB (envOf st v) v.cfg ts0) v.cfg.fallback (fbAdmB st v) (obsOf impl)
        (st', verdictOf m impl (some prop))

/-- k simultaneous connections -/
def burstOp (st : XSt) (rest : List String) (impl : String) : XSt × Verdict :=
  match stkKV rest "id", stkNat rest "k" with
  | some id, some k =>
    match lookupV st.vis id with
    | none => (st, verdictOf "novisitor" impl)
    | some v =>
      let env := envOf st v
      let ids := (List.range k).map (· + v.nconn)
      let s1 := xrun env v.cfg v.st (ids.map (fun c => Ev.arrive c true))
      let v1 := { v with nconn := v.nconn + k }
      let nT := (ids.filter (fun c => isTunnel (phaseAt s1 c))).length
      let holeOk := holeRes env v.cfg ts0 v.stunOk true true == .ok
      let admF := fbAdmitted st v
      let iT := (stkResNat impl "tunnel").getD 0
      let iF := (stkResNat impl "fallback").getD 0
      let res (t f : Nat) : String := s!"tunnel={t};fallback={f};other=0;bad={k - t - f};hits={t + f}"
      let (s2, m) : XtcpVisitor.St × String :=
        if nT == k then (s1, res k 0)
        else if punching s1 && holeOk then
          let safe := !v.cfg.fallback || v.cfg.fallbackMs ≥ 4000
          if safe || !(admF && iT + iF == k) then
            (xrun env v.cfg s1 ([.advance 1500, holeEv v] ++ ids.map (fun c => Ev.tick c true)), res k 0)
          else if iT == 0 then
            -- none was in time: the hole is still being made
            (xrun env v.cfg s1 ([.advance v.cfg.fallbackMs] ++ ids.map (fun c => Ev.ctxDone c true)), res 0 k)
          else
            -- the hole comes up just before the fallback timeout: the first iT connections still get their tick
            (xrun env v.cfg s1 ([.advance (v.cfg.fallbackMs - 1), holeEv v] ++ (ids.take iT).map (fun c => Ev.tick c true) ++
               [.advance 1] ++ (ids.drop iT).map (fun c => Ev.ctxDone c true)), res iT iF)
        else
          let s2 := if punching s1 then xstep env v.cfg s1 (holeEv v) else s1
          if v.cfg.fallback then
            (xrun env v.cfg s2 ([.advance v.cfg.fallbackMs] ++ ids.map (fun c => Ev.ctxDone c true)), if admF then res 0 k else res 0 0)
          else (s2, res 0 0)
      let st' := { st with vis := setV st.vis id { v1 with st := s2 } }
      if !m.startsWith "tunnel=0;" && !flagsAgree st v then (st', .skip "visitor and proxy declare different enc/comp")
      else
        let admX := C08.xtAdmB env v.cfg ts0
        let hits := (stkResNat impl "hits").getD 99
        let bad := (stkResNat impl "bad").getD 99
        let prop := stkResNat impl "other" == some 0 && hits == iT + iF && (iT == 0 || admX) &&
          (iF == 0 || (v.cfg.fallback && fbAdmB st v)) && (!(v.cfg.fallback && fbAdmB st v) || bad == 0)
        (st', verdictOf m impl (some prop))
  | _, _ => (st, .bad "burst")

def vstopOp (st : XSt) (rest : List String) (impl : String) : XSt × Verdict :=
  match stkKV rest "id" with
  | none => (st, .bad "vstop")
  | some id =>
    match lookupV st.vis id with
    | none => (st, verdictOf "novisitor" impl)
    | some v =>
      let env := envOf st v
      let waiting := (v.st.conns.filter (fun x => x.phase == .opening)).map (·.id)
      let s1 := xrun env v.cfg v.st (.close :: waiting.map (fun c => Ev.vctxDone c true))
      let closed := (waiting.filter (fun c => match phaseAt s1 c with | some (.closed _) => true | _ => false)).length
      let st' := { st with vis := st.vis.filter (fun p => p.1 != id) }
      -- whoever is served while the visitor goes down must be entitled to it
      let hits := (stkResNat impl "hits").getD 99
      let prop := hits == 0 || (v.cfg.fallback && fbAdmB st v)
      (st', verdictOf s!"closed={closed};hits=0" impl (some prop))

/-- nobody connects for `ms`: keepTunnelOpenWorker checks every MinRetryInterval s; a check over a live session
    opens and closes a stream (the proxy's frpc dials the backend for it), a failed one takes a retry token.
    How many checks fall into the window, and when the hole is ready, is scheduling: every count up to
    ms / interval + 1 is accepted when the session can exist, none otherwise. -/
def idleOp (st : XSt) (rest : List String) (impl : String) : XSt × Verdict :=
  match stkKV rest "id", stkNat rest "ms" with
  | some id, some ms =>
    match lookupV st.vis id with
    | none => (st, verdictOf "novisitor" impl)
    | some v =>
      let env := envOf st v
      let holeOk := holeRes env v.cfg ts0 v.stunOk true true == .ok
      let s1 := if punching v.st then xrun env v.cfg v.st [.advance 1500, holeEv v] else v.st
      let ticks := if v.cfg.keep && v.cfg.minRetry > 0 then ms / (v.cfg.minRetry * 1000) + 1 else 0
      let s2 := xrun env v.cfg s1 ((List.range ticks).flatMap (fun _ => [Ev.advance (v.cfg.minRetry * 1000), Ev.keepTick]))
      let live := s2.sess.isSome && holeOk
      let hits := (stkResNat impl "hits").getD 999
      let m := if live && hits ≤ ticks then s!"hits={hits}" else "hits=0"
      let prop := hits == 0 || C08.xtAdmB env v.cfg ts0
      ({ st with vis := setV st.vis id { v with st := s2 } }, verdictOf m impl (some prop))
  | _, _ => (st, .bad "idle")

def kindOf (t : String) : Option Kind :=
  if t = "stcp" then some .stcp else if t = "xtcp" then some .xtcp else none

def step (st : XSt) (tok : List String) (impl : String) : XSt × Verdict :=
  match tok with
  | ["reset"] => ({ st with vis := [] }, verdictOf "-" impl)
  | "own" :: rest =>
    match stkKV rest "name", (stkKV rest "kind").bind kindOf, (stkKV rest "sk").bind unhx, stkKV rest "allow",
          stkBool rest "enc", stkBool rest "comp" with
    | some name, some kind, some sk, some allow, some e, some c =>
      if st.up then (st, verdictOf "late" impl)
      else
        let name := Str.ofString name
        let allow := if allow = "-" then [] else (allow.splitOn ",").map Str.ofString
        match Visitor.step natFixed H st.srv (.register ownerUser kind name sk allow) with
        | (s', .ok) => ({ st with srv := s', flags := st.flags ++ [(name, e, c)] }, verdictOf "ok" impl)
        | (_, _) => (st, verdictOf "exists" impl)
    | _, _, _, _, _, _ => (st, .bad "own")
  | ["up"] =>
    ({ st with up := true }, verdictOf s!"up={st.srv.listeners.length + st.srv.natCfgs.length}" impl)
  | "vstart" :: rest =>
    match stkKV rest "id", stkKV rest "user", stkKV rest "px", stkBool rest "key", stkBool rest "enc", stkBool rest "comp",
          stkKV rest "proto", stkKV rest "stun", stkKV rest "fb", stkBool rest "fbkey", stkNat rest "fbms", stkBool rest "keep" with
    | some id, some user, some px, some key, some e, some c, some proto, some stun, some fb, some fbkey, some fbms, some keep =>
      let mr := match stkNat rest "mr" with
        | some 0 => 90
        | some k => k
        | none => 90
      if (lookupV st.vis id).isSome then ({ st with up := true }, verdictOf "exists" impl)
      else
        let px := Str.ofString px
        let cfg : Cfg := { server := px, sk := keyFor st.srv px key, enc := e, comp := c, protocol := Str.ofString proto,
                           keep := keep, maxRetries := 8, minRetry := mr, fallback := fb != "-", fallbackMs := fbms }
        let v : XV := { cfg := cfg, user := Str.ofString user, stunOk := stun == "ok",
                        fb := if fb = "-" then none else some (Str.ofString fb, keyFor st.srv (Str.ofString fb) fbkey),
                        st := xinit cfg }
        ({ st with up := true, vis := setV st.vis id v }, verdictOf "up" impl)
    | _, _, _, _, _, _, _, _, _, _, _, _ => (st, .bad "vstart")
  | "uconn" :: rest => connOp st rest impl
  | "silent" :: rest => connOp st rest impl
  | "burst" :: rest => burstOp st rest impl
  | "idle" :: rest => idleOp st rest impl
  | "vstop" :: rest => vstopOp st rest impl
  | _ => (st, .bad "unknown op")

end Xt

def xtcp : Engine := { State := Xt.XSt, init := Xt.init, step := Xt.step }

end Engines
end Frp
