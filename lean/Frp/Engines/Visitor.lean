import Frp.Driver.Proto
import Frp.Model.Md5
import Frp.Props.C08
/-
  Driver engine "visitor": replays the harness trace (harness/eng_visitor.go) on the Visitor model
  and evaluates the C08 predicate on the implementation's own answers.

  Two model states: `A` for the directly driven visitor.Manager / nathole.Controller, `B` for the
  real server.Service driven by scripted peers.  `H := Md5.hexDigest` (so `authKey` is the real
  util.GetAuthKey, compared on every `key` op).
-/
namespace Frp
namespace Engines
open Proto Visitor

namespace Vis

def H : Str → Str := Md5.hexDigest

def unlist (t : String) : Option (List Str) :=
  if t = "-" then some [] else (t.splitOn ",").mapM unhx

def errStr : Err → String
  | .noRun => "norun" | .noListener => "noexist" | .authFailed => "auth" | .notAllowed => "notallowed"
  | .lclosed => "closed"

def flag (t : String) (pfx : String) : Option Bool :=
  if t = pfx ++ "1" then some true else if t = pfx ++ "0" then some false else none

def kindOf (t : String) : Option Kind :=
  if t = "stcp" then some .stcp else if t = "sudp" then some .sudp else if t = "xtcp" then some .xtcp else none

structure St where
  A : Visitor.State := {}
  B : Visitor.State := {}
  zombies : List (Nat × List Nat) := []     -- listeners removed from the manager while holding connections
  nsid : Nat := 0

def sidOf (n : Nat) : Str := 115 :: (Nat.toDigits 10 n).map (·.toNat)

def connsStr (l : List Nat) : String := ",".intercalate (l.map toString)

/-- insertion into a list sorted by the first component -/
def ins (x : Nat × List Nat) : List (Nat × List Nat) → List (Nat × List Nat)
  | [] => [x]
  | y :: r => if x.1 ≤ y.1 then x :: y :: r else y :: ins x r

def drainStr (s : St) : String :=
  let live := s.A.listeners.filterMap (fun p => if p.2.queue.isEmpty then none else some (p.2.lid, p.2.queue.map (·.conn)))
  let all := (live ++ s.zombies).foldr ins []
  if all.isEmpty then "-" else "|".intercalate (all.map (fun p => s!"{p.1}={connsStr p.2}"))

def zombieOf (s : Visitor.State) (name : Str) : List (Nat × List Nat) :=
  match NatHole.aget s.listeners name with
  | some l => if l.queue.isEmpty then [] else [(l.lid, l.queue.map (·.conn))]
  | none => []

/-- the generator's annotation `ua=` must agree with the model's table (else the line is malformed) -/
def uaOk (cfgs : List (Str × NatCfg)) (name user : Str) (ua : Bool) : Bool :=
  match NatHole.aget cfgs name with
  | none => ua == false
  | some c => ua == allowedB c.allow user

def connOutStr : ConnOut → String
  | .queued _ => "queued" | .dropped _ => "dropped" | .err e => "err:" ++ errStr e

def grantedImpl (impl : String) : Bool := !(impl.startsWith "err:") && impl != "preok"

def step (st : St) (tok : List String) (impl : String) : St × Verdict :=
  match tok with
  | ["reset"] => ({}, verdictOf "-" impl)
  | ["key", sk, ts] =>
    match unhx sk, ts.toInt? with
    | some sk, some ts => (st, verdictOf (hx (authKey H sk ts)) impl)
    | _, _ => (st, .bad "key")
  -- ---------------------------------------------------------------- layer A
  | ["listen", name, sk, allow] =>
    match unhx name, unhx sk, unlist allow with
    | some name, some sk, some allow =>
      let id := st.A.nextId
      let (a, o) := Visitor.step natFixed H st.A (.listen name sk allow)
      ({ st with A := a }, verdictOf (if o = .ok then s!"ok:{id}" else "repeated") impl)
    | _, _, _ => (st, .bad "listen")
  | ["nlisten", name, sk, allow] =>
    match unhx name, unhx sk, unlist allow with
    | some name, some sk, some allow =>
      let id := st.A.nextId
      let (a, o) := Visitor.step natFixed H st.A (.natListen name sk allow)
      ({ st with A := a }, verdictOf (if o = .ok then s!"ok:{id}" else "repeated") impl)
    | _, _, _ => (st, .bad "nlisten")
  | ["close", name] =>
    match unhx name with
    | some name =>
      let z := zombieOf st.A name
      ({ st with A := (Visitor.step natFixed H st.A (.closeListener name)).1, zombies := st.zombies ++ z }, verdictOf "-" impl)
    | none => (st, .bad "close")
  | ["nclose", name] =>
    match unhx name with
    | some name => ({ st with A := (Visitor.step natFixed H st.A (.natClose name)).1 }, verdictOf "-" impl)
    | none => (st, .bad "nclose")
  | ["lclose", name] =>
    match unhx name with
    | some name => ({ st with A := (Visitor.step natFixed H st.A (.lclose name)).1 }, verdictOf "-" impl)
    | none => (st, .bad "lclose")
  | ["accept", name] =>
    match unhx name with
    | some name =>
      let (a, o) := Visitor.step natFixed H st.A (.accept name)
      let ms := match o with | .accepted (some c) => s!"c{c}" | _ => "none"
      ({ st with A := a }, verdictOf ms impl)
    | none => (st, .bad "accept")
  | ["conn", name, ts, sign, user, conn, _ec] =>
    match unhx name, ts.toInt?, unhx sign, unhx user, conn.toNat? with
    | some name, some ts, some sign, some user, some conn =>
      let valid := C08.admissibleB H st.A.listeners name ts sign user
      let (a, o) := Visitor.step natFixed H st.A (.newConn name ts sign user conn)
      let ms := match o with | .conn c => connOutStr c | _ => "?"
      ({ st with A := a }, verdictOf ms impl (some (C08.holdsOn valid (grantedImpl impl))))
    | _, _, _, _, _ => (st, .bad "conn")
  | ["drain"] => (st, verdictOf (drainStr st) impl)
  | ["natv", name, ts, sign, user, pc, ua] =>
    match unhx name, ts.toInt?, unhx sign, unhx user, flag pc "pc=", flag ua "ua=" with
    | some name, some ts, some sign, some user, some pc, some ua =>
      if !uaOk st.A.natCfgs name user ua then (st, .bad "ua annotation") else
      let valid := C08.natAdmB H st.A.natCfgs name ts sign user
      let sid := sidOf st.nsid
      let (a, o) := Visitor.step natFixed H st.A (.natVisit sid name ts sign user pc)
      let a' := (Visitor.step natFixed H a (.natDone sid)).1
      let ms := match o with
        | .nat .preOk => "preok"
        | .nat (.granted ch) => s!"sid:{ch}"
        | .nat (.err e) => "err:" ++ errStr e
        | _ => "?"
      ({ st with A := a', nsid := st.nsid + 1 }, verdictOf (ms ++ " left=0") impl
        (some (C08.holdsOn valid (impl.startsWith "sid:"))))
    | _, _, _, _, _, _ => (st, .bad "natv")
  -- ---------------------------------------------------------------- layer B
  | ["slogin", rid, user] =>
    match unhx rid, unhx user with
    | some rid, some user =>
      if rid = [] ∨ (NatHole.aget st.B.ctls rid).isSome then (st, .bad "slogin: run id must be fresh and non-empty") else
      ({ st with B := (Visitor.step natFixed H st.B (.login rid user)).1 }, verdictOf "ok" impl)
    | _, _ => (st, .bad "slogin")
  | ["slogout", rid] =>
    match unhx rid with
    | some rid => ({ st with B := (Visitor.step natFixed H st.B (.logout rid)).1 }, verdictOf "-" impl)
    | none => (st, .bad "slogout")
  | ["sreg", rid, kind, name, sk, allow, _ec] =>
    match unhx rid, kindOf kind, unhx name, unhx sk, unlist allow with
    | some rid, some kind, some name, some sk, some allow =>
      if (NatHole.aget st.B.ctls rid).isNone then (st, .bad "sreg: unknown session") else
      let (b, o) := Visitor.step natFixed H st.B (.register rid kind name sk allow)
      let ms := match o with | .ok => "ok" | .nameExists => "exists" | .repeated => "repeated" | _ => "?"
      ({ st with B := b }, verdictOf ms impl)
    | _, _, _, _, _ => (st, .bad "sreg")
  | ["sclose", rid, name] =>
    match unhx rid, unhx name with
    | some rid, some name => ({ st with B := (Visitor.step natFixed H st.B (.closeProxy rid name)).1 }, verdictOf "-" impl)
    | _, _ => (st, .bad "sclose")
  | ["svis", rid, name, ts, sign, _ec, conn] =>
    match unhx rid, unhx name, ts.toInt?, unhx sign, conn.toNat? with
    | some rid, some name, some ts, some sign, some conn =>
      let valid := match resolveUser st.B.ctls rid with
        | .ok user => C08.admissibleB H st.B.listeners name ts sign user
        | .error _ => false
      let owner := (NatHole.aget st.B.listeners name).map (·.owner)
      let (b, o) := Visitor.step natFixed H st.B (.visitorConn name ts sign rid conn)
      -- the proxy's accept loop takes the connection at once
      let b' := match o with | .conn (.queued _) => (Visitor.step natFixed H b (.accept name)).1 | _ => b
      let ms := match o, owner with
        | .conn (.queued _), some ow => s!"ok:{hx ow}:echo"
        | .conn (.err e), _ => "err:" ++ errStr e ++ " req=-"
        | _, _ => "?"
      ({ st with B := b' }, verdictOf ms impl (some (C08.holdsOn valid (!(impl.startsWith "err:") || !(impl.endsWith "req=-")))))
    | _, _, _, _, _ => (st, .bad "svis")
  | ["snat", rid, name, ts, sign, pc, ua] =>
    match unhx rid, unhx name, ts.toInt?, unhx sign, flag pc "pc=", flag ua "ua=" with
    | some rid, some name, some ts, some sign, some pc, some ua =>
      match NatHole.aget st.B.ctls rid with
      | none => (st, .bad "snat: unknown session")
      | some user =>
        if !uaOk st.B.natCfgs name user ua then (st, .bad "ua annotation") else
        let valid := C08.natAdmB H st.B.natCfgs name ts sign user
        let owner := (NatHole.aget st.B.natCfgs name).map (·.owner)
        let sid := sidOf st.nsid
        let (b, o) := Visitor.step natFixed H st.B (.natVisitBy sid name ts sign rid pc)
        let b' := (Visitor.step natFixed H b (.natDone sid)).1
        let ms := match o, owner with
          | .nat .preOk, _ => "preok req=-"
          | .nat (.granted _), some ow => s!"sid:{hx ow}"
          | .nat (.err e), _ => "err:" ++ errStr e ++ " req=-"
          | _, _ => "?"
        ({ st with B := b', nsid := st.nsid + 1 }, verdictOf ms impl
          (some (C08.holdsOn valid (impl.startsWith "sid:" || !(impl.endsWith "req=-")))))
    | _, _, _, _, _, _ => (st, .bad "snat")
  | _ => (st, .bad "op")

end Vis

def visitor : Engine := { State := Vis.St, init := {}, step := Vis.step }

end Engines
end Frp
