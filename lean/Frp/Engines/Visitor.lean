import Frp.Driver.Proto
import Frp.Model.Md5
import Frp.Props.C08
import Frp.Model.CtlMgr
/-
  Driver engine "visitor": replays the harness trace (harness/eng_visitor.go) on the Visitor model
  and evaluates the C08 predicate on the implementation's own answers.

  Two model states: `A` for the directly driven visitor.Manager / nathole.Controller, `B` for the
  real server.Service driven by scripted peers.  `H := Md5.hexDigest` (so `authKey` is the real
  util.GetAuthKey, compared on every `key` op).
-/
namespace Frp
namespace Engines
open Proto Visitor

namespace Vis

def H : Str → Str := Md5.hexDigest

def unlist (t : String) : Option (List Str) :=
  if t = "-" then some [] else (t.splitOn ",").mapM unhx

def errStr : Err → String
  | .noRun => "norun" | .noListener => "noexist" | .authFailed => "auth" | .notAllowed => "notallowed"
  | .lclosed => "closed" | .encFailed => "encfail"

def flag (t : String) (pfx : String) : Option Bool :=
  if t = pfx ++ "1" then some true else if t = pfx ++ "0" then some false else none

def kindOf (t : String) : Option Kind :=
  if t = "stcp" then some .stcp else if t = "sudp" then some .sudp else if t = "xtcp" then some .xtcp else none

structure St where
  A : Visitor.CState := {}                  -- layer A: the manager with its lock (Frp/Model/VisitorLock.lean)
  B : Visitor.State := {}
  zombies : List (Nat × List Nat) := []     -- listeners removed from the manager while holding connections
  nsid : Nat := 0
  opened : List Nat := []                   -- accepted streams
  -- what the implementation itself has said so far (independent of the model's state): the listeners it
  -- reported as made (lid ↦ key, list, from `listen … => ok:<lid>`) and the requests sent (conn id ↦ ts, sign, user)
  implLs : List (Nat × Str × List Str) := []
  reqs : List (Nat × Int × Str × Str) := []
  -- layer B: the ControlManager with control identities (Frp/Model/CtlMgr.lean; `B.ctls` is its projection,
  -- C08.ctls_track_manager), and the controls logged in so far (n ↦ login user)
  cm : CtlMgr.Tbl := []
  loginUsers : List (Nat × Str) := []
  -- what the implementation's own session tables held after the last NAT-hole request (layer A / layer B)
  leftA : Nat := 0
  leftB : Nat := 0

def sidOf (n : Nat) : Str := 115 :: (Nat.toDigits 10 n).map (·.toNat)

def connsStr (l : List Nat) : String := ",".intercalate (l.map toString)

/-- insertion into a list sorted by the first component -/
def ins (x : Nat × List Nat) : List (Nat × List Nat) → List (Nat × List Nat)
  | [] => [x]
  | y :: r => if x.1 ≤ y.1 then x :: y :: r else y :: ins x r

def drainStr (s : St) : String :=
  let live := s.A.s.listeners.filterMap (fun p => if p.2.queue.isEmpty then none else some (p.2.lid, p.2.queue.map (·.conn)))
  let all := (live ++ s.zombies).foldr ins []
  if all.isEmpty then "-" else "|".intercalate (all.map (fun p => s!"{p.1}={connsStr p.2}"))

/-- listeners of `before` that are no longer in `after` while connections wait in them (`extra` = the
    connection handed over between the two, if any: (lid, conn)) -/
def goneOf (before after : Visitor.State) (extra : Option (Nat × Nat)) : List (Nat × List Nat) :=
  before.listeners.filterMap (fun p =>
    if after.listeners.any (fun q => q.2.lid == p.2.lid) then none else
    let cs := p.2.queue.map (·.conn) ++ (match extra with | some (lid, c) => if lid = p.2.lid then [c] else [] | none => [])
    if cs.isEmpty then none else some (p.2.lid, cs))

def lookupNat {α : Type} (l : List (Nat × α)) (k : Nat) : Option α := (l.find? (fun p => p.1 == k)).map (·.2)

/-- C08 on one observed delivery, from the implementation's own answers: connection `conn` came out of
    listener `lid` ⇒ its request carries that listener's key and an allowed user (`C08.deliveredOkB`).
    `none` when the implementation names a listener or connection it never reported before. -/
def deliveredOk (st : St) (lid conn : Nat) : Option Bool :=
  match lookupNat st.implLs lid, lookupNat st.reqs conn with
  | some (sk, allow), some (ts, sign, user) => some (C08.deliveredOkB H sk allow ts sign user)
  | _, _ => none

def andOpt : Option Bool → Option Bool → Option Bool
  | some a, some b => some (a && b)
  | some a, none => some a
  | none, b => b

/-- "c7@3[:bytes-bad]" ↦ (7, 3, bytes ok) -/
def parseAccepted (impl : String) : Option (Nat × Nat × Bool) :=
  if !impl.startsWith "c" then none else
  let body := (impl.drop 1).toString
  let (core, okb) := if body.endsWith ":bytes-bad" then ((body.dropEnd 10).toString, false) else (body, true)
  match core.splitOn "@" with
  | [c, l] => match c.toNat?, l.toNat? with
    | some c, some l => some (c, l, okb)
    | _, _ => none
  | _ => none

/-- "3=7,8|5=9" ↦ [(3,7),(3,8),(5,9)] -/
def parseDrain (impl : String) : List (Nat × Nat) :=
  if impl = "-" then [] else
  (impl.splitOn "|").flatMap (fun part =>
    match part.splitOn "=" with
    | [l, ids] => match l.toNat? with
      | some l => (ids.splitOn ",").filterMap (fun i => i.toNat?.map (fun c => (l, c)))
      | none => []
    | _ => [])

/-- the ok:<lid> answers inside "… w=[-,ok:5,repeated]", paired with the writers that were waiting -/
def implListens (pending : List WOp) (impl : String) : List (Nat × Str × List Str) :=
  match impl.splitOn " w=[" with
  | [_, rest] =>
    let items := ((rest.dropEnd 1).toString.splitOn ",")
    (pending.zip items).filterMap (fun (w, r) =>
      match w with
      | .listen _ sk allow => if r.startsWith "ok:" then (r.drop 3).toString.toNat?.map (fun lid => (lid, sk, allow)) else none
      | .close _ => none)
  | _ => []

def outStr : Visitor.Out → String
  | .ok => "ok" | .repeated => "repeated" | _ => "?"

/-- results of the writers that ran after a `finish`, in the harness's notation -/
def flushStr : Nat → List WOp → List Visitor.Out → List String
  | id, (.listen ..) :: ws, .ok :: os => s!"ok:{id}" :: flushStr (id + 1) ws os
  | id, (.listen ..) :: ws, _ :: os => "repeated" :: flushStr id ws os
  | id, (.close _) :: ws, _ :: os => "-" :: flushStr id ws os
  | _, _, _ => []

/-- the generator's annotation `ua=` must agree with the model's table (else the line is malformed) -/
def uaOk (cfgs : List (Str × NatCfg)) (name user : Str) (ua : Bool) : Bool :=
  match NatHole.aget cfgs name with
  | none => ua == false
  | some c => ua == allowedB c.allow user

def connOutStr : ConnOut → String
  | .queued _ => "queued" | .dropped _ => "dropped" | .err e => "err:" ++ errStr e

def grantedImpl (impl : String) : Bool := !(impl.startsWith "err:") && impl != "preok"

/-- "<answer> left=<n>" ↦ (answer, n);  "<answer> cm=<x>" ↦ (answer, x) -/
def splitSuffix (impl key : String) : Option (String × String) :=
  match impl.splitOn (" " ++ key ++ "=") with
  | [a, b] => some (a, b)
  | _ => none

def leftOf (impl : String) : Option (String × Nat) :=
  match splitSuffix impl "left" with
  | some (a, b) => b.toNat?.map (fun n => (a, n))
  | none => none

/-- C08 "… and leaves no session state behind" on the implementation's own table: `C08.leavesNothingB` -/
def leftProp (granted : Bool) (before : Nat) (impl : String) : Option Bool :=
  (leftOf impl).map (fun (_, n) => C08.leavesNothingB granted before n)

def leftAfter (before : Nat) (impl : String) : Nat := match leftOf impl with | some (_, n) => n | none => before

/-- `conn` / `vbegin`: one NewConn call -/
def beginOp (st : St) (op name ts sign user conn ec impl : String) : St × Verdict :=
    match unhx name, ts.toInt?, unhx sign, unhx user, conn.toNat? with
    | some name, some ts, some sign, some user, some conn =>
      -- `conn`: the IV gate is not armed, NewConn runs to its end whatever it declares
      let enc := op == "vbegin" && ec.startsWith "1"
      let valid := C08.admissibleB H st.A.s.listeners name ts sign user
      let (a, o) := Visitor.cstep natFixed H st.A
        (.begin { name := name, ts := ts, sign := sign, user := user, conn := conn, enc := enc })
      let ms := match o with | .conn c => connOutStr c | .paused => "paused" | .wouldBlock => "wouldblock" | _ => "?"
      let prop := if impl = "paused" || impl = "wouldblock" then none else some (C08.holdsOn valid (grantedImpl impl))
      ({ st with A := a, reqs := (conn, ts, sign, user) :: st.reqs }, verdictOf ms impl prop)
    | _, _, _, _, _ => (st, .bad op)

def step (st : St) (tok : List String) (impl : String) : St × Verdict :=
  match tok with
  | ["reset"] => ({ leftB := st.leftB }, verdictOf "-" impl)   -- layer A gets a new controller, the service of layer B lives on
  | ["key", sk, ts] =>
    match unhx sk, ts.toInt? with
    | some sk, some ts => (st, verdictOf (hx (authKey H sk ts)) impl)
    | _, _ => (st, .bad "key")
  -- ---------------------------------------------------------------- layer A
  | ["listen", name, sk, allow] =>
    match unhx name, unhx sk, unlist allow with
    | some name, some sk, some allow =>
      let id := st.A.s.nextId
      let (a, o) := Visitor.cstep natFixed H st.A (.write (.listen name sk allow))
      let ms := match o with | .wrote .ok => s!"ok:{id}" | .wrote _ => "repeated" | .blocked => "blocked" | _ => "?"
      let il := if impl.startsWith "ok:" then
          (match (impl.drop 3).toString.toNat? with | some lid => [(lid, sk, allow)] | none => []) else []
      ({ st with A := a, implLs := il ++ st.implLs }, verdictOf ms impl)
    | _, _, _ => (st, .bad "listen")
  | ["nlisten", name, sk, allow] =>
    match unhx name, unhx sk, unlist allow with
    | some name, some sk, some allow =>
      let id := st.A.s.nextId
      let (a, o) := Visitor.step natFixed H st.A.s (.natListen name sk allow)
      ({ st with A := { st.A with s := a } }, verdictOf (if o = .ok then s!"ok:{id}" else "repeated") impl)
    | _, _, _ => (st, .bad "nlisten")
  | ["close", name] =>
    match unhx name with
    | some name =>
      let (a, o) := Visitor.cstep natFixed H st.A (.write (.close name))
      let ms := match o with | .wrote _ => "-" | .blocked => "blocked" | _ => "?"
      ({ st with A := a, zombies := st.zombies ++ goneOf st.A.s a.s none }, verdictOf ms impl)
    | none => (st, .bad "close")
  | ["nclose", name] =>
    match unhx name with
    | some name => ({ st with A := { st.A with s := (Visitor.step natFixed H st.A.s (.natClose name)).1 } }, verdictOf "-" impl)
    | none => (st, .bad "nclose")
  | ["lclose", name] =>
    match unhx name with
    | some name => ({ st with A := (Visitor.cstep natFixed H st.A (.lclose name)).1 }, verdictOf "-" impl)
    | none => (st, .bad "lclose")
  | ["accept", name] =>
    match unhx name with
    | some name =>
      let lid := (NatHole.aget st.A.s.listeners name).map (·.lid)
      let (a, o) := Visitor.cstep natFixed H st.A (.accept name)
      let (ms, op) := match o, lid with
        | .other (.accepted (some c)), some lid => (s!"c{c}@{lid}", [c])
        | _, _ => ("none", [])
      -- the property on what the implementation handed to the owner: the connection's request carries the
      -- key and an allowed user of the listener it came out of, and the stream is transparent (C08.transparent)
      let prop := match parseAccepted impl with
        | some (c, l, bytesOk) => andOpt (deliveredOk st l c) (some bytesOk)
        | none => none
      ({ st with A := a, opened := op ++ st.opened }, verdictOf ms impl prop)
    | none => (st, .bad "accept")
  | ["echo", conn] =>
    match conn.toNat? with
    | some conn =>
      (st, verdictOf (if st.opened.contains conn then "ok" else "none") impl (some (impl != "bad")))
    | none => (st, .bad "echo")
  | ["conn", name, ts, sign, user, conn, ec] => beginOp st "conn" name ts sign user conn ec impl
  | ["vbegin", name, ts, sign, user, conn, ec] => beginOp st "vbegin" name ts sign user conn ec impl
  | ["vend", conn, iv] =>
    match conn.toNat?, (if iv = "ok" then some true else if iv = "fail" then some false else none) with
    | some conn, some ivOk =>
      let fl := st.A.flights.find? (fun f => f.req.conn = conn)
      let valid := match fl with
        | some f => C08.admissibleB H st.A.s.listeners f.req.name f.req.ts f.req.sign f.req.user
        | none => false
      let (a, o) := Visitor.cstep natFixed H st.A (.finish conn ivOk)
      let (ms, extra) := match o with
        | .finished c ws =>
          (connOutStr c ++ " w=[" ++ ",".intercalate (flushStr st.A.s.nextId st.A.pending ws) ++ "]",
           match c with | .queued lid => some (lid, conn) | _ => none)
        | _ => ("noflight", none)
      let granted := grantedImpl impl && impl != "noflight"
      ({ st with A := a, zombies := st.zombies ++ goneOf st.A.s a.s extra,
                 implLs := implListens st.A.pending impl ++ st.implLs },
       verdictOf ms impl (some (C08.holdsOn valid granted)))
    | _, _ => (st, .bad "vend")
  | ["drain"] =>
    -- everything that waits in any listener the implementation ever made: each must be there rightfully
    let prop := (parseDrain impl).foldl (fun acc (l, c) => andOpt acc (deliveredOk st l c)) none
    (st, verdictOf (drainStr st) impl prop)
  | ["natv", name, ts, sign, user, pc, ua] =>
    match unhx name, ts.toInt?, unhx sign, unhx user, flag pc "pc=", flag ua "ua=" with
    | some name, some ts, some sign, some user, some pc, some ua =>
      if !uaOk st.A.s.natCfgs name user ua then (st, .bad "ua annotation") else
      let valid := C08.natAdmB H st.A.s.natCfgs name ts sign user
      let sid := sidOf st.nsid
      let (a, o) := Visitor.step natFixed H st.A.s (.natVisit sid name ts sign user pc)
      let a' := (Visitor.step natFixed H a (.natDone sid)).1
      let ms := match o with
        | .nat .preOk => "preok"
        | .nat (.granted ch) => s!"sid:{ch}"
        | .nat (.err e) => "err:" ++ errStr e
        | _ => "?"
      let granted := impl.startsWith "sid:"
      ({ st with A := { st.A with s := a' }, nsid := st.nsid + 1, leftA := leftAfter st.leftA impl },
        verdictOf (ms ++ " left=0") impl (andOpt (some (C08.holdsOn valid granted)) (leftProp granted st.leftA impl)))
    | _, _, _, _, _, _ => (st, .bad "natv")
  | ["natflood", name, ts, sign, user, pc, ua, k] =>
    match unhx name, ts.toInt?, unhx sign, unhx user, flag pc "pc=", flag ua "ua=", k.toNat? with
    | some name, some ts, some sign, some user, some pc, some ua, some k =>
      if !uaOk st.A.s.natCfgs name user ua then (st, .bad "ua annotation") else
      -- k identical requests: each is decided on the client table alone (C08.natVisit_out_indep); a refused one stores
      -- nothing, a granted one stores its session until its handler ends (C08.flood_refused_leaves_nothing)
      let valid := C08.natAdmB H st.A.s.natCfgs name ts sign user
      let sid := sidOf st.nsid
      let o := (Visitor.step natFixed H st.A.s (.natVisit sid name ts sign user pc)).2
      let ms := match o with
        | .nat .preOk => "preok"
        | .nat (.granted ch) => s!"sid:{ch}"
        | .nat (.err e) => "err:" ++ errStr e
        | _ => "?"
      let granted := (impl.splitOn "sid:").length > 1
      ({ st with nsid := st.nsid + k, leftA := leftAfter st.leftA impl },
        verdictOf (ms ++ s!"*{k} left=0") impl (andOpt (some (C08.holdsOn valid granted)) (leftProp granted st.leftA impl)))
    | _, _, _, _, _, _, _ => (st, .bad "natflood")
  -- ---------------------------------------------------------------- layer B
  | ["slogin", rid, user, n] =>
    match unhx rid, unhx user, n.toNat? with
    | some rid, some user, some n =>
      -- (an empty run id makes frps invent one: not driven)  A live run id is a re-login: the control registered under
      -- it is replaced (ControlManager.Add), its proxies are closed before the login is answered
      if rid = [] then (st, .bad "slogin: run id must be non-empty") else
      if (lookupNat st.loginUsers n).isSome then (st, .bad "slogin: control number used before") else
      ({ st with B := (Visitor.step natFixed H st.B (.login rid user)).1,
                 cm := (CtlMgr.add st.cm rid { id := n, user := user }).1,
                 loginUsers := (n, user) :: st.loginUsers }, verdictOf "ok" impl)
    | _, _, _ => (st, .bad "slogin")
  | ["slogout", rid] =>
    match unhx rid with
    | some rid =>
      -- the control registered under the run id ends; its goroutine's Del removes it (it is the registered one)
      ({ st with B := (Visitor.step natFixed H st.B (.logout rid)).1, cm := CtlMgr.cmStep st.cm 0 (.logout rid) },
       verdictOf "-" impl)
    | none => (st, .bad "slogout")
  | ["sreg", rid, kind, name, sk, allow, _ec] =>
    match unhx rid, kindOf kind, unhx name, unhx sk, unlist allow with
    | some rid, some kind, some name, some sk, some allow =>
      if (NatHole.aget st.B.ctls rid).isNone then (st, .bad "sreg: unknown session") else
      let (b, o) := Visitor.step natFixed H st.B (.register rid kind name sk allow)
      let ms := match o with | .ok => "ok" | .nameExists => "exists" | .repeated => "repeated" | _ => "?"
      ({ st with B := b }, verdictOf ms impl)
    | _, _, _, _, _ => (st, .bad "sreg")
  | ["sclose", rid, name] =>
    match unhx rid, unhx name with
    | some rid, some name => ({ st with B := (Visitor.step natFixed H st.B (.closeProxy rid name)).1 }, verdictOf "-" impl)
    | _, _ => (st, .bad "sclose")
  | ["svis", rid, name, ts, sign, _ec, conn] =>
    match unhx rid, unhx name, ts.toInt?, unhx sign, conn.toNat? with
    | some rid, some name, some ts, some sign, some conn =>
      -- the user the request must be judged for: the login user of the control that currently owns the claimed run id
      -- (C08.cm_designates / visitor_user_is_current_owner: latest acknowledged login under it whose control has not
      -- ended), "" for the empty run id, nobody (⇒ must be refused) if no control owns it.  The implementation's own
      -- ControlManager is asked which control IT holds under the run id (`cm=<n>`, Service.VerifSessDump) and the answer
      -- is compared with the model's table, so that the two designate the same control on every line that is judged.
      let (body, cmImpl) := match splitSuffix impl "cm" with | some (a, b) => (a, b) | none => (impl, "?")
      let valid := match CtlMgr.visitorUser st.cm rid with
        | .ok user => C08.admissibleB H st.B.listeners name ts sign user
        | .error _ => false
      let cmModel := if rid = [] then "-" else match CtlMgr.getByID st.cm rid with | some c => toString c.id | none => "-"
      let impl := body
      let owner := (NatHole.aget st.B.listeners name).map (·.owner)
      let (b, o) := Visitor.step natFixed H st.B (.visitorConn name ts sign rid conn)
      -- the proxy's accept loop takes the connection at once
      let b' := match o with | .conn (.queued _) => (Visitor.step natFixed H b (.accept name)).1 | _ => b
      let ms := match o, owner with
        | .conn (.queued _), some ow => s!"ok:{hx ow}:echo"
        | .conn (.err e), _ => "err:" ++ errStr e ++ " req=-"
        | _, _ => "?"
      -- an admitted stream must be transparent both ways (C08.transparent): no "noecho"
      let echoOk := !(impl.endsWith ":noecho1" || impl.endsWith ":noecho2")
      let granted := !(impl.startsWith "err:") || !(impl.endsWith "req=-")
      ({ st with B := b' }, verdictOf (ms ++ " cm=" ++ cmModel) (impl ++ " cm=" ++ cmImpl)
        (some (C08.holdsOn valid granted && echoOk)))
    | _, _, _, _, _ => (st, .bad "svis")
  | ["snat", rid, name, ts, sign, pc, ua] =>
    match unhx rid, unhx name, ts.toInt?, unhx sign, flag pc "pc=", flag ua "ua=" with
    | some rid, some name, some ts, some sign, some pc, some ua =>
      match NatHole.aget st.B.ctls rid with
      | none => (st, .bad "snat: unknown session")
      | some user =>
        if !uaOk st.B.natCfgs name user ua then (st, .bad "ua annotation") else
        let valid := C08.natAdmB H st.B.natCfgs name ts sign user
        let owner := (NatHole.aget st.B.natCfgs name).map (·.owner)
        let sid := sidOf st.nsid
        let (b, o) := Visitor.step natFixed H st.B (.natVisitBy sid name ts sign rid pc)
        let b' := (Visitor.step natFixed H b (.natDone sid)).1
        let ms := match o, owner with
          | .nat .preOk, _ => "preok req=-"
          | .nat (.granted _), some ow => s!"sid:{hx ow}"
          | .nat (.err e), _ => "err:" ++ errStr e ++ " req=-"
          | _, _ => "?"
        let body := match leftOf impl with | some (a, _) => a | none => impl
        let granted := body.startsWith "sid:" || !(body.endsWith "req=-")
        ({ st with B := b', nsid := st.nsid + 1, leftB := leftAfter st.leftB impl }, verdictOf (ms ++ " left=0") impl
          (andOpt (some (C08.holdsOn valid granted)) (leftProp granted st.leftB impl)))
    | _, _, _, _, _, _ => (st, .bad "snat")
  | _ => (st, .bad "op")

end Vis

def visitor : Engine := { State := Vis.St, init := {}, step := Vis.step }

end Engines
end Frp
