import Frp.Driver.Proto
import Frp.Model.Host
import Frp.Props.C06
import Frp.Props.C06Conn
/-
  Driver engine "vreg" (C06): replays the harness trace of real `proxy.NewProxy(...).Run()` /
  `Close()` for http, https and tcpmux proxies interleaved with real routed requests on
  Frp/Model/VhostReg.lean, and evaluates the C06 predicate on the implementation's own answers with
  respect to the routes the LIVE proxies stand for (`VhostReg.liveRoutes`, cf.
  `C06.reg_lookup_most_specific`, `C06.reg_table_eq_live`).  Requests do not touch the model state
  (`C06.traffic_leaves_no_trace`): the oracle for a request repeated after any number of registration changes is
  the table at that moment (`C06.lookup_depends_only_on_table`, `C06.traffic_most_specific`).  `areq` / the long
  form of `run` add the credentials of http routes (`VhostReg.checkAuth`; a group's route carries its first
  member's — `C06.httpGroup_creds_witness`, switch `VhostReg.groupChecksCreds`).
-/
namespace Frp
namespace Engines
open Proto Router Str VhostReg

structure VRegState where
  sh    : Str := []
  http  : St := St.empty
  https : St := St.empty
  mux   : St := St.empty
  /-- httpUser / httpPassword of the http proxies started so far (newest first) -/
  pc    : List (Nat × Creds) := []
  /-- the credentials in the route config of a group object = its first member's (`tmp := routeConfig`) -/
  gc    : List (Nat × Creds) := []
  /-- client connections (hopen / hnext / hshut): the model's connection table and how each was opened -/
  cs    : HttpConn.Conns := []
  forms : List (Nat × String) := []

def vregCreds (l : List (Nat × Creds)) (k : Nat) : Creds := (l.lookup k).getD ([], [])

def vregList (t : String) : Option (List Str) :=
  if t = "-" then some [] else (t.splitOn ",").mapM unhx

def vregPort (t : String) : Option (Option Str) :=
  if t = "-" then some none else (unhx t).map some

def vregBar : Nat := 124   -- '|'

def vregInsert (x : Str) : List Str → List Str
  | [] => [x]
  | y :: ys => if x < y ∨ x = y then x :: y :: ys else y :: vregInsert x ys

def vregSort (l : List Str) : List Str := l.foldr vregInsert []

def vregKey (r : Route) : Str := r.domain ++ vregBar :: r.location ++ vregBar :: r.user

/-- every route stored in a table (distinct keys of the association list, then their buckets) -/
def vregStored (R : Routers) : List Route :=
  ((R.tbl.map (·.1)).eraseDups).flatMap (fun k => R k.1 k.2)

def vregRenderKeys (ks : List Str) : String := ",".intercalate ((vregSort ks.eraseDups).map hx)

def vregRender (st : VRegState) (f : St → List Route) : String :=
  s!"http[{vregRenderKeys ((f st.http).map vregKey)}]" ++
  s!"https[{vregRenderKeys ((f st.https).map vregKey)}]" ++
  s!"tcpmux[{vregRenderKeys ((f st.mux).map vregKey)}]"

def vregErr : Err → String
  | .conflict => "conflict" | .params => "params" | .auth => "auth" | .repeated => "repeated"

def vregRes : Res → String
  | .ok => "ok" | .busy => "busy" | .err e => vregErr e

def vregLive (st : VRegState) (id : Nat) : Bool :=
  (st.http.hs ++ st.https.hs ++ st.mux.hs).any (fun h => h.id = id)

def vregAnswer (s : String) : Option (Option Nat) :=
  if s = "none" then some none else (s.toNat?).map some

/-- compare a "which proxy got the request" answer: the model names the proxies serving the chosen
    route (one for a plain route, the members for a group route — which member is the group's
    round-robin choice, property C13); any of them agrees -/
def vregLookup (T : Tab) (live : List Route) (canon specHost path user : Str) (plain : Bool)
    (impl : String) : Verdict :=
  let m := (getVhost T.R canon path user).map (fun r => servers T r.payload)
  let ans := vregAnswer impl
  let ms := match m with
    | none => "none"
    | some ids =>
      match ans with
      | some (some i) => if ids.contains i then ToString.toString i else "one-of:" ++ ToString.toString ids
      | _ => "one-of:" ++ ToString.toString ids
  let prop := if plain then ans.map (fun r => C06.holdsOn live specHost path user r) else none
  verdictOf ms impl prop

/-- `run` of an http proxy configured with the credentials `cr` -/
def vregRunHttp (st : VRegState) (id : Nat) (c : Cfg) (cr : Creds) (impl : String) : VRegState × Verdict :=
  -- the repaired `HTTPGroup.Register` (switch `groupChecksCreds`) refuses, at the proxy's first registration,
  -- to join a group whose route carries other credentials: ErrGroupParamsInvalid, nothing registered
  let refused :=
    groupChecksCreds && decide (c.group ≠ []) && decide (triples st.sh c ≠ []) &&
      (match st.http.tab.G.get c.group with
       | some g => decide (g.members ≠ []) && decide (vregCreds st.gc g.gid ≠ cr)
       | none => false)
  if refused then (st, verdictOf "params" impl) else
  let (S', r) := VhostReg.run st.sh st.http id c
  let st' := { st with http := S' }
  let st' := if r = .ok then
      let st1 := { st' with pc := (id, cr) :: st'.pc }
      match S'.tab.G.get c.group with
      | some g => if c.group ≠ [] ∧ g.members.map (·.2) = [id] then { st1 with gc := (g.gid, cr) :: st1.gc } else st1
      | none => st1
    else st'
  (st', verdictOf (vregRes r) impl)

/-- a request carrying the basic-auth pair (u, pw): `authorize` = `CheckAuth` against the credentials of the
    route it resolves to (401), then forwarded as every request is.  Property predicates on the implementation's
    answer `<id>:<kind>:<c>`: C06 `HoldsOn` w.r.t. the live proxies, and — the clause of C07 / C13 — the pair
    satisfies the credentials proxy `id` ITSELF is configured with (`C06.credsOk`). -/
def vregAuthLookup (st : VRegState) (canon specHost path u pw : Str) (plain : Bool) (impl : String) : Verdict :=
  let T := st.http.tab
  let live := liveRoutes st.http.hs
  let parts := impl.splitOn ":"
  let implId : Option Nat := match parts with
    | [i, _, _] => i.toNat?
    | _ => none
  let ms := match getVhost T.R canon path u with
    | none => "none"
    | some r =>
      let rc := if r.payload % 2 = 0 then vregCreds st.pc (r.payload / 2) else vregCreds st.gc (r.payload / 2)
      if !checkAuth rc u pw then "401" else
      let ids := servers T r.payload
      match implId with
      | some i =>
        if ids.contains i then
          s!"{i}:{if r.payload % 2 = 0 then "p" else "g"}:{if checkAuth (vregCreds st.pc i) u pw then "c1" else "c0"}"
        else "one-of:" ++ ToString.toString ids
      | none => "one-of:" ++ ToString.toString ids
  let prop : Option Bool :=
    if impl = "none" then (if plain then some (C06.holdsOn live specHost path u none) else none)
    else match implId with
      | some i => some ((!plain || C06.holdsOn live specHost path u (some i)) && C06.credsOk (vregCreds st.pc i) u pw)
      | none => none
  verdictOf ms impl prop

/-- the credentials stored with the route a request resolves to refuse the pair (u, ""): 401, nobody is asked -/
def vregRefused (st : VRegState) (canon path u : Str) : Bool :=
  match getVhost st.http.tab.R canon path u with
  | some r => !checkAuth (if r.payload % 2 = 0 then vregCreds st.pc (r.payload / 2)
                          else vregCreds st.gc (r.payload / 2)) u []
  | none => false

def vregSrv (st : VRegState) : HttpConn.Srv := { R := st.http.tab.R, next := 0, pool := [] }

/-- one request on client connection `c` (HTTP/1.1, possibly asking for the h2c upgrade, or the next stream of an
    HTTP/2 connection) through `HttpConn.step never`: the route is the request's own in the table as it is
    (`C06.wrapped_own_route`, `C06.conn_history_eq_ref`), whatever the connection carried before; a request refused
    with 401 is answered by `authorize` and changes nothing.  The C06 predicate w.r.t. the live proxies is evaluated
    on the proxy instance the implementation asked. -/
def vregConnReq (st : VRegState) (c : Nat) (upgrade : Bool) (n : Str) (d : String) (p : Option Str) (path u : Str)
    (impl : String) : VRegState × Verdict :=
  let host := C06.spell n (d = "1") p
  let canon := (Host.canonicalHost host).getD []
  let plain := decide (C06.PlainName n ∧ C06.PortPlain p)
  let h2now := match st.cs.lookup c with | some (some _) => true | _ => false
  if vregRefused st canon path u then
    let cs' := if h2now then st.cs else HttpConn.setConn st.cs c none
    ({ st with cs := cs' }, verdictOf ((if h2now then "h2:" else "h1:") ++ "none") impl)
  else
  let q : HttpConn.Req := { host := host, path := path, user := u, peer := c }
  let r := HttpConn.step HttpConn.never (vregSrv st) st.cs (.req c upgrade q false)
  let proto := match r.2.1.lookup c with | some (some _) => "h2:" | _ => "h1:"
  let body := if impl.startsWith "h1:" ∨ impl.startsWith "h2:" then String.ofList (impl.toList.drop 3) else impl
  let T := st.http.tab
  let ans := vregAnswer body
  let ms := match r.2.2 with
    | some (some pl) =>
      let ids := servers T pl
      (match ans with
       | some (some i) => if ids.contains i then ToString.toString i else "one-of:" ++ ToString.toString ids
       | _ => "one-of:" ++ ToString.toString ids)
    | _ => "none"
  let prop := if plain then ans.map (fun a => C06.holdsOn (liveRoutes st.http.hs) (toLower n) path u a) else none
  ({ st with cs := r.2.1 }, verdictOf (proto ++ ms) impl prop)

def vregStep (st : VRegState) (tok : List String) (impl : String) : VRegState × Verdict :=
  match tok with
  | ["reset", sh] =>
    match unhx sh with
    | some sh => ({ sh := sh }, verdictOf "-" impl)   -- a new server: every table, every proxy gone
    | none => (st, .bad "reset")
  | ["run", id, typ, name, ds, sub, ls, u, g, gk] =>
    match id.toNat?, unhx name, vregList ds, unhx sub, vregList ls, unhx u, unhx g, unhx gk with
    | some id, some name, some ds, some sub, some ls, some u, some g, some gk =>
      if vregLive st id then (st, verdictOf "busy" impl) else
      match typ with
      | "http" =>
        vregRunHttp st id { name := name, domains := ds, sub := sub, locations := ls, user := u,
                            group := g, groupKey := gk } ([], []) impl
      | "https" =>
        -- HTTPSProxy.Run: one Muxer.Listen per domain, Location = "", RouteByHTTPUser = ""
        let c : Cfg := { name := name, domains := ds, sub := sub, locations := [], user := [],
                         group := [], groupKey := [] }
        let (S', r) := VhostReg.run st.sh st.https id c
        ({ st with https := S' }, verdictOf (vregRes r) impl)
      | "tcpmux" =>
        if g ≠ [] then (st, .skip "tcpmux group not modelled") else
        let c : Cfg := { name := name, domains := ds, sub := sub, locations := [], user := u,
                         group := [], groupKey := [] }
        let (S', r) := VhostReg.run st.sh st.mux id c
        ({ st with mux := S' }, verdictOf (vregRes r) impl)
      | _ => (st, .bad "run type")
    | _, _, _, _, _, _, _, _ => (st, .bad "run")
  | ["run", id, "http", name, ds, sub, ls, u, g, gk, hu, hp] =>
    match id.toNat?, unhx name, vregList ds, unhx sub, vregList ls, unhx u, unhx g, unhx gk, unhx hu, unhx hp with
    | some id, some name, some ds, some sub, some ls, some u, some g, some gk, some hu, some hp =>
      if vregLive st id then (st, verdictOf "busy" impl) else
      vregRunHttp st id { name := name, domains := ds, sub := sub, locations := ls, user := u,
                          group := g, groupKey := gk } (hu, hp) impl
    | _, _, _, _, _, _, _, _, _, _ => (st, .bad "run")
  | "run" :: id :: typ :: name :: ds :: sub :: ls :: u :: g :: gk :: _ :: _ :: [] =>
    -- https / tcpmux written in the long form: the credentials are not part of what is modelled here
    vregStep st ["run", id, typ, name, ds, sub, ls, u, g, gk] impl
  | ["close", id] =>
    match id.toNat? with
    | some id =>
      ({ st with http := VhostReg.close st.http id, https := VhostReg.close st.https id,
                 mux := VhostReg.close st.mux id }, verdictOf "-" impl)
    | none => (st, .bad "close")
  | ["hreq", n, d, p, path, u] =>
    match unhx n, vregPort p, unhx path, unhx u with
    | some n, some p, some path, some u =>
      let canon := (Host.canonicalHost (C06.spell n (d = "1") p)).getD []
      let plain := decide (C06.PlainName n ∧ C06.PortPlain p)
      -- the request carries the pair (u, ""): a route protected by other credentials answers 401 and hands the
      -- request to nobody — which route that was cannot be seen from outside
      let refused := match getVhost st.http.tab.R canon path u with
        | some r => !checkAuth (if r.payload % 2 = 0 then vregCreds st.pc (r.payload / 2)
                                else vregCreds st.gc (r.payload / 2)) u []
        | none => false
      if refused then (st, verdictOf "none" impl) else
      (st, vregLookup st.http.tab (liveRoutes st.http.hs) canon (toLower n) path u plain impl)
    | _, _, _, _ => (st, .bad "hreq")
  | ["areq", n, d, p, path, u, pw] =>
    match unhx n, vregPort p, unhx path, unhx u, unhx pw with
    | some n, some p, some path, some u, some pw =>
      let canon := (Host.canonicalHost (C06.spell n (d = "1") p)).getD []
      let plain := decide (C06.PlainName n ∧ C06.PortPlain p)
      (st, vregAuthLookup st canon (toLower n) path u pw plain impl)
    | _, _, _, _, _ => (st, .bad "areq")
  | ["creq", n, d, p, u] =>
    match unhx n, vregPort p, unhx u with
    | some n, some p, some u =>
      -- readHTTPConnectRequest: CanonicalHost(req.Host); Muxer.handle lower-cases again, path ""
      let canon := toLower ((Host.canonicalHost (C06.spell n (d = "1") p)).getD [])
      let plain := decide (C06.PlainName n ∧ C06.PortPlain p)
      (st, vregLookup st.mux.tab (liveRoutes st.mux.hs) canon (toLower n) [] u plain impl)
    | _, _, _ => (st, .bad "creq")
  | ["sreq", n] =>
    match unhx n with
    | some n =>
      -- GetHTTPSHostname: the SNI name as sent; Muxer.handle lower-cases it
      (st, vregLookup st.https.tab (liveRoutes st.https.hs) (toLower n) (toLower n) [] [] true impl)
    | none => (st, .bad "sreq")
  | ["hopen", c, form, n, d, p, path, u] =>
    match c.toNat?, unhx n, vregPort p, unhx path, unhx u with
    | some c, some n, some p, some path, some u =>
      let st := { st with cs := st.cs.filter (fun e => e.1 ≠ c), forms := st.forms.filter (fun e => e.1 ≠ c) }
      if form = "p" then
        -- `PRI * HTTP/2.0`: no Host, path "*", no credentials
        if vregRefused st [] [star] [] then (st, verdictOf "dead" impl) else
        let r := HttpConn.step HttpConn.never (vregSrv st) st.cs (.pri c)
        match r.2.1.lookup c with
        | some (some _) => ({ st with cs := r.2.1, forms := (c, form) :: st.forms }, verdictOf "pri" impl)
        | _ => ({ st with cs := r.2.1 }, verdictOf "dead" impl)
      else if path.head? ≠ some 47 then (st, verdictOf "badpath" impl)
      else vregConnReq { st with forms := (c, form) :: st.forms } c (form = "u") n d p path u impl
    | _, _, _, _, _ => (st, .bad "hopen")
  | ["hnext", c, n, d, p, path, u] =>
    match c.toNat?, unhx n, vregPort p, unhx path, unhx u with
    | some c, some n, some p, some path, some u =>
      match st.forms.lookup c with
      | none => (st, verdictOf "gone" impl)
      | some form =>
        if path.head? ≠ some 47 then (st, verdictOf "badpath" impl)
        else vregConnReq st c (form = "u") n d p path u impl
    | _, _, _, _, _ => (st, .bad "hnext")
  | ["hshut", c] =>
    match c.toNat? with
    | some c => ({ st with cs := st.cs.filter (fun e => e.1 ≠ c), forms := st.forms.filter (fun e => e.1 ≠ c) },
                 verdictOf "-" impl)
    | none => (st, .bad "hshut")
  | ["view"] =>
    -- the property clause "the route tables are exactly the union of the live proxies' triples",
    -- evaluated on the implementation's own tables
    let spec := vregRender st (fun S => liveRoutes S.hs)
    (st, verdictOf (vregRender st (fun S => vregStored S.tab.R)) impl
      (if impl.startsWith "http[" then some (impl = spec) else none))
  | _ => (st, .bad "op")

def vreg : Engine := { State := VRegState, init := {}, step := vregStep }

end Engines
end Frp
