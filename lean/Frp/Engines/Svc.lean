import Frp.Driver.Proto
import Frp.Props.C19Reload
import Frp.Engines.Client
/-
  Driver engine "svc" (C19, reload through the admin API + re-login): replays the trace of
  harness/eng_svc.go (the real client.Service behind its admin API, in front of an in-process
  scripted server) on C14's service model `Rereg` over `Reconcile.updateAll`, and evaluates the C19
  predicates on what the scripted server has received.

  op → events of the model:
    start cfgs   : store := cfgs; loopStart; loginRun; loginSwap          (session 1)
    reload cfgs  : reload cfgs                                            (reaches the server iff the session is alive)
    cut up       : sessionEnd; loopStart; loginRun; loginSwap             (next session)
    cut hang|refuse : sessionEnd; loopStart                               (a refused attempt is no event: same loop)
    up           : loginRun; loginSwap                                    (next session)
    stop         : Close of the live control
  The scripted server answers every NewProxy with success: on a live session every wrapper that has
  registered is `running` when the op is over.
-/
namespace Frp
namespace Engines
open Proto Wrapper Reconcile

structure SvcState where
  s : Rereg.St := {}
  sess : Nat := 0
  started : Bool := false
  vstore : List (Nat × Nat) := []   -- the loaded visitors: (name, key of the bind address)
  vdirty : Bool := false            -- a visitor was added or changed while no session was alive (outside the domain)

/-- a token `v<name>:<key>` is a visitor, `<name>:<variant>` a proxy -/
def isVisitorTok (t : String) : Bool := t.startsWith "v"

def parseSvcVisitor (t : String) : Option (Nat × Nat) :=
  match (t.drop 1).toString.splitOn ":" with
  | [n, k] =>
    match n.toNat?, k.toNat? with
    | some n, some k => some (n, k)
    | _, _ => none
  | _ => none

/-- the visitor bind addresses that are taken: those of the loaded visitors while a control is live
    (Control.Run / UpdateAllConfigurer start them, the end of the session closes them) -/
def svcVp (alive : Bool) (vstore : List (Nat × Nat)) : String :=
  if alive then ",".intercalate ((sortNat (vstore.map (·.2))).eraseDups.map toString) else ""

def parseSvcCfg (t : String) : Option Cfg :=
  match t.splitOn ":" with
  | [n, v] =>
    match n.toNat?, v.toNat? with
    | some n, some v => some { name := n, variant := v, health := false, runFails := false }
    | _, _ => none
  | _ => none

/-- the server's replies: every wrapper of a live control that waits for its answer gets `ok` -/
def svcAnswer (c : Rereg.Ctl) : Rereg.Ctl :=
  if c.alive then
    { c with pm := { c.pm with proxies := c.pm.proxies.map (fun w =>
        if w.phase == .waitStart then (step w (.startResp 0 false)).1 else w) } }
  else c

def svcAnswerSt (s : Rereg.St) : Rereg.St := { s with ctl := s.ctl.map svcAnswer }

def svcEvStr (pm : Mgr) : Nat × Msg → String
  | (n, .newProxy) =>
    match Reconcile.find pm n with
    | some w => s!"N{n}@{w.cfg.variant}"
    | none => s!"N{n}@?"
  | (n, .closeProxy) => s!"C{n}"

def svcRenderEv (sess : Nat) (pm : Mgr) (ev : List (Nat × Msg)) : String :=
  if ev.isEmpty then "-" else s!"{sess}:" ++ ",".intercalate (sortStrings (ev.map (svcEvStr pm)))

def svcStatus (s : Rereg.St) : String :=
  match s.ctl with
  | none => "-"
  | some c => joinOrDash (sortStrings (c.pm.proxies.map (fun w => s!"{w.cfg.name}:{phaseTok w.phase}")))

/-- parse `ev=<sess>:<e>,<e>|…` into (session, events) -/
def parseSvcEv (s : String) : Option (List (Nat × List String)) :=
  if s == "-" then some [] else
  parseAll (fun part =>
    match part.splitOn ":" with
    | [k, es] => k.toNat?.map (fun k => (k, es.splitOn ","))
    | _ => none) (s.splitOn "|")

def parseRegEv (e : String) : Option (Nat × Nat) :=
  if !e.startsWith "N" then none else
  match (e.drop 1).toString.splitOn "@" with
  | [n, v] =>
    match n.toNat?, v.toNat? with
    | some n, some v => some (n, v)
    | _, _ => none
  | _ => none

def stripVariant (e : String) : String := (e.splitOn "@").headD e

/-- the `ev=` field of an implementation answer (with or without a head) -/
def svcImplEv (impl : String) : Option (List (Nat × List String)) :=
  match (impl.splitOn ";").find? (·.startsWith "ev=") with
  | some f => parseSvcEv (f.drop 3).toString
  | none => none

/-- a new session `k` must have received exactly the registrations of the stored configuration and
    nothing may have arrived anywhere else -/
def svcLoginHolds (store : List Cfg) (k : Nat) (impl : String) : Option Bool :=
  (svcImplEv impl).map (fun evs =>
    evs.all (fun x => x.1 == k) &&
    (match parseAll parseRegEv ((evs.map (·.2)).flatten) with
     | some regs => C19.sessionRegOK store regs
     | none => false))

/-- a reload on a live session `k`: per name the CloseProxy / NewProxy counts of C19.updHoldsOn, every
    NewProxy carrying the configured entry of its name; on a dead session: silence -/
def svcReloadHolds (old : List W) (cfgs : List Cfg) (alive : Bool) (k : Nat) (impl : String) : Option Bool :=
  (svcImplEv impl).map (fun evs =>
    if !alive then evs.isEmpty else
    let all := (evs.map (·.2)).flatten
    evs.all (fun x => x.1 == k) &&
    C19.updHoldsOn old cfgs (all.map stripVariant) &&
    (all.filter (·.startsWith "N")).all (fun e =>
      match parseRegEv e with
      | some (n, v) => (lookupLast cfgs n).map (·.variant) == some v
      | none => false))

def svcHead (head : String) (ev st : String) (vp : String := "") : String :=
  (if head.isEmpty then "" else head ++ ";") ++ s!"ev={ev};st={st};vp={vp}"

def svcImplVp (impl : String) : Option String :=
  ((impl.splitOn ";").find? (·.startsWith "vp=")).map (fun f => (f.drop 3).toString)

/-- conjunction with "the taken visitor addresses are exactly those of the loaded visitors" -/
def withVp (p : Option Bool) (impl : String) (vp : String) : Option Bool :=
  p.map (fun b => b && svcImplVp impl == some vp)

def svcLogin (st : SvcState) : SvcState × String :=
  let r1 := Rereg.step st.s 0 .loginRun
  let s2 := svcAnswerSt (Rereg.step r1.1 0 .loginSwap).1
  let k := st.sess + 1
  let pm := (s2.ctl.map (·.pm)).getD Reconcile.init
  ({ st with s := s2, sess := k }, svcRenderEv k pm r1.2)

def svcAlive (s : Rereg.St) : Bool := (s.ctl.map (·.alive)).getD false

/-- the service-level picture of visitors is "bound iff loaded and a session is alive"; a visitor
    that a reload adds (or moves) while the session is dead is started by the dead control and keeps
    its address until the swap (see harness/eng_svc.go): such lives are outside this engine's domain
    from that reload on (the generator never produces them, shrinking may) -/
def svcVisitorsGrow (old new : List (Nat × Nat)) : Bool := new.any (fun v => !old.contains v)

def svcStepCore (st : SvcState) (tok : List String) (impl : String) : SvcState × Verdict :=
  match tok with
  | ["reset"] => ({}, verdictOf "-" impl)
  | "start" :: cs =>
    match parseAll parseSvcCfg (cs.filter (!isVisitorTok ·)), parseAll parseSvcVisitor (cs.filter isVisitorTok) with
    | some cfgs, some vs =>
      let s0 : Rereg.St := (Rereg.step { store := cfgs } 0 .loopStart).1
      let (st1, ev) := svcLogin { s := s0, sess := 0, started := true, vstore := vs }
      let vp := svcVp true vs
      (st1, verdictOf (svcHead "ok" ev (svcStatus st1.s) vp) impl (withVp (svcLoginHolds cfgs 1 impl) impl vp))
    | _, _ => (st, .bad "start")
  | "reload" :: cs =>
    if !st.started then (st, verdictOf "nosvc" impl) else
    match parseAll parseSvcCfg (cs.filter (!isVisitorTok ·)), parseAll parseSvcVisitor (cs.filter isVisitorTok) with
    | some cfgs, some vs =>
      let alive := svcAlive st.s
      let old := ((st.s.ctl.map (·.pm.proxies)).getD [])
      let r := Rereg.step st.s 0 (.reload cfgs)
      let s1 := svcAnswerSt r.1
      let pm := (s1.ctl.map (·.pm)).getD Reconcile.init
      let vp := svcVp alive vs
      ({ st with s := s1, vstore := vs }, verdictOf (svcHead "200" (svcRenderEv st.sess pm r.2) (svcStatus s1) vp) impl
        (withVp (svcReloadHolds old cfgs alive st.sess impl) impl vp))
    | _, _ => (st, .bad "reload")
  | ["badreload"] =>
    -- a file that does not parse is refused and changes nothing
    if !st.started then (st, verdictOf "nosvc" impl) else
    let vp := svcVp (svcAlive st.s) st.vstore
    (st, verdictOf (svcHead "400" "-" (svcStatus st.s) vp) impl
      (withVp ((svcImplEv impl).map (·.isEmpty)) impl vp))
  | ["getcfg"] => if !st.started then (st, verdictOf "nosvc" impl) else (st, verdictOf "same" impl)
  | ["cut", how] =>
    if !st.started then (st, verdictOf "nosvc" impl) else
    if !svcAlive st.s then (st, verdictOf "nosession" impl) else
    let s1 := (Rereg.step (Rereg.step st.s 0 .sessionEnd).1 0 .loopStart).1
    if how == "up" then
      let (st2, ev) := svcLogin { st with s := s1 }
      let vp := svcVp true st.vstore
      (st2, verdictOf (svcHead "" ev (svcStatus st2.s) vp) impl
        (withVp (svcLoginHolds st2.s.store st2.sess impl) impl vp))
    else
      ({ st with s := s1 }, verdictOf (svcHead "" "-" (svcStatus s1)) impl
        (withVp ((svcImplEv impl).map (·.isEmpty)) impl ""))
  | ["up"] =>
    if !st.started then (st, verdictOf "nosvc" impl) else
    if svcAlive st.s then (st, verdictOf (svcHead "" "-" (svcStatus st.s) (svcVp true st.vstore)) impl) else
    let (st2, ev) := svcLogin st
    let vp := svcVp true st.vstore
    (st2, verdictOf (svcHead "" ev (svcStatus st2.s) vp) impl
      (withVp (svcLoginHolds st2.s.store st2.sess impl) impl vp))
  | ["refuse"] =>
    if !st.started then (st, verdictOf "nosvc" impl) else
    (st, verdictOf (svcHead "" "-" (svcStatus st.s) (svcVp (svcAlive st.s) st.vstore)) impl
      (withVp ((svcImplEv impl).map (·.isEmpty)) impl (svcVp (svcAlive st.s) st.vstore)))
  | ["stop"] =>
    if !st.started then (st, verdictOf "nosvc" impl) else
    match st.s.ctl with
    | none => ({}, verdictOf (svcHead "200" "-" "-") impl)
    | some c =>
      let r := closeAll c.pm
      let ev := if c.alive then svcRenderEv st.sess c.pm r.2.2 else "-"
      -- a stopped client withdraws every proxy it has registered, once
      let prop := (svcImplEv impl).map (fun evs =>
        let all := (evs.map (·.2)).flatten
        !c.alive || c.pm.proxies.all (fun w => all.count s!"C{w.cfg.name}" == 1))
      ({}, verdictOf (svcHead "200" ev "-") impl prop)
  | _ => (st, .bad "op")

def svcStep (st : SvcState) (tok : List String) (impl : String) : SvcState × Verdict :=
  match tok with
  | "reset" :: _ => svcStepCore st tok impl
  | "start" :: _ => svcStepCore st tok impl
  | "reload" :: cs =>
    let grows := match parseAll parseSvcVisitor (cs.filter isVisitorTok) with
      | some vs => st.started && !svcAlive st.s && svcVisitorsGrow st.vstore vs
      | none => false
    if st.vdirty || grows then ({ st with vdirty := true }, .skip "visitor added or changed during an outage")
    else svcStepCore st tok impl
  | _ => if st.vdirty then (st, .skip "visitor added or changed during an outage") else svcStepCore st tok impl

def svc : Engine := { State := SvcState, init := {}, step := svcStep }

end Engines
end Frp
