import Frp.Driver.Proto
import Frp.Props.C12Res
import Frp.Props.C12Disp
/-
  Driver engine "sess" (C12): replays the gated schedule of harness/eng_sess.go label by label on the
  small-step model `Frp.Sess`, compares the result of every label and the implementation's dumped
  tables (ctlsByRunID, pxys) with the model's, and evaluates `C12.holdsOn` on the implementation's
  own tables and its own acknowledgements (LoginResp received by the scripted client).

  Run ids: the id the real Service generated for a login without run id arrives in the result
  (`fresh:<id>`); the freshness assumption of the model (`C12.freshOK`) is evaluated on it against every
  id handed out before.  `freshburst` (concurrent fresh logins on the real Service) and `randconc`
  (many goroutines calling the real util.RandID) deliver their ids; `C12.burstOK` / `C12.idsOK` decide.

  The dispatcher (Model/SessDisp.lean, Props/C12Disp.lean): `wpoke n p` makes frps WRITE to session n's control
  connection (a visitor / user of n's proxy p asks for a work connection).  With the connection closed and the read
  loop inside a parked handler the model does `send n; write n`: the write fails and nothing else moves
  (`write_failure_changes_nothing`) — the result must be `wfail:n`, every teardown step attempted afterwards must be
  disabled.  If the implementation's worker HAS passed `<-Done()` with the handler in flight (`wfail:n;done`,
  `dispdone n => ok`: a DIFF), the model follows the implementation (`SessDisp.passDone`), so that what the property
  forbids — a name / listener entering the tables under a session that has closed its done channel, the client's own
  re-login refused — is judged by `C12.holdsOn` on the implementation's own tables in the ops that follow.

  A bounded wait of the harness that expired (`timeout`, `blocked`, a dump that did not return) is a
  behavioural DIFF without property verdict; the rest of that world is skipped (`wedged`).
-/
namespace Frp
namespace Engines
namespace SessEng
open Proto Sess

structure SessState where
  S : St := {}
  early : List Nat := []                 -- waiters released before their old session was done
  prevRun : List (Nat × Nat) := []       -- the implementation's tables after the previous label
  prevNames : List (Nat × Nat) := []
  desync : Bool := false
  wedged : Bool := false                 -- a bounded wait expired in this world: nothing more is compared until reset
  seen : List Str := []                  -- every id the implementation has generated for a login so far (kept over resets)
  acked : List Nat := []                 -- sessions whose client received the LoginResp
  kinds : List (Nat × Kind) := []        -- session ↦ kind of the NewProxy its handler is working on
  ownKind : List ((Nat × Nat) × Kind) := []  -- (session, name) ↦ kind of the registered proxy
  raws : List (Nat × Str) := []          -- name index ↦ the raw proxy name the client sends (default "p<k>")
  prevVis : List Nat := []               -- the implementation's rendez-vous tables after the previous label
  prevNat : List Nat := []

def entries (t : Tbl (Option Nat)) : List (Nat × Nat) :=
  (t.l.filterMap (fun e => e.2.map (fun v => (e.1, v)))).mergeSort (fun a b => a.1 ≤ b.1)

def renderTbl (l : List (Nat × Nat)) : String :=
  ",".intercalate (l.map (fun e => s!"{e.1}={e.2}"))

/-- the own tables of the sessions the run-id table designates: (session, name), sorted -/
def ownEntries (S : St) : List (Nat × Nat) :=
  let l := (entries S.byRun).flatMap (fun e => ((S.s e.2).own.map (fun p => (e.2, p))))
  l.mergeSort (fun a b => a.1 < b.1 || (a.1 == b.1 && a.2 ≤ b.2))

def keysOf (t : Tbl (Option Nat)) : List Nat := (entries t).map (·.1)

def renderPairs (l : List (Nat × Nat)) : String :=
  ",".intercalate (l.map (fun e => s!"{e.1}:{e.2}"))

def renderNats (l : List Nat) : String := ",".intercalate (l.map toString)

/-- the harness reads the own tables through `VerifAuthSessions`, which takes the mutex of every designated
    session; a session parked inside its teardown loop or inside CloseProxy holds it: the tables are not read -/
def ownReadable (S : St) : Bool :=
  (entries S.byRun).all (fun e =>
    !(decide ((S.s e.2).phase = .drained) || (match (S.s e.2).hp with | .closing _ => true | _ => false)))

def renderDump (S : St) : String :=
  "run[" ++ renderTbl (entries S.byRun) ++ "]names[" ++ renderTbl (entries S.names) ++ "]own[" ++
    (if ownReadable S then renderPairs (ownEntries S) else "?") ++ "]vis[" ++ renderNats (keysOf S.vis) ++ "]nat[" ++ renderNats (keysOf S.nat) ++ "]"

def parseTbl (s : String) : List (Nat × Nat) :=
  (s.splitOn ",").filterMap (fun kv => match kv.splitOn "=" with
    | [k, v] => do let a ← k.toNat?; let b ← v.toNat?; pure (a, b)
    | _ => none)

def parsePairs (s : String) : List (Nat × Nat) :=
  (s.splitOn ",").filterMap (fun kv => match kv.splitOn ":" with
    | [k, v] => do let a ← k.toNat?; let b ← v.toNat?; pure (a, b)
    | _ => none)

def parseNats (s : String) : List Nat := (s.splitOn ",").filterMap (·.toNat?)

/-- the text between `key[` and the next `]` -/
def section? (d key : String) : Option String :=
  match d.splitOn (key ++ "[") with
  | [_, rest] => (rest.splitOn "]").head?
  | _ => none

structure Dump where
  run : List (Nat × Nat) := []
  names : List (Nat × Nat) := []
  own : List (Nat × Nat) := []
  vis : List Nat := []
  nat : List Nat := []

/-- "res|run[..]names[..]own[..]vis[..]nat[..]" → (res, dump, a dump is present) -/
def parseImpl (impl : String) : String × Dump × Bool :=
  match impl.splitOn "|" with
  | [r, d] =>
    match section? d "run", section? d "names", section? d "own", section? d "vis", section? d "nat" with
    | some a, some b, some c, some v, some w =>
      (r, { run := parseTbl a, names := parseTbl b, own := parsePairs c, vis := parseNats v, nat := parseNats w }, true)
    | _, _, _, _, _ => (r, {}, false)
  | _ => (impl, {}, false)

def kindOfTyp (t : String) : Kind :=
  if t = "stcp" || t = "sudp" then .vis else if t = "xtcp" then .nat else .plain

def lookupD {α β : Type} [BEq α] (l : List (α × β)) (k : α) (d : β) : β :=
  match l.find? (fun e => e.1 == k) with
  | some e => e.2
  | none => d

/-- the raw name index `k` stands for -/
def rawOf (raws : List (Nat × Str)) (k : Nat) : Str := lookupD raws k (Str.ofString s!"p{k}")

/-- session `n` can be asked for a work connection: acknowledged, running, its connection open -/
def canServe (S : St) (n : Nat) : Bool := decide ((S.s n).phase = .running) && !S.closed.get n

def parseIds (s : String) : List Str := if s = "" then [] else (s.splitOn ",").map Str.ofString

/-- "ids:a,b;own=3;other=0;bgdup=0;bg=17" → (ids, own, other, bgdup) -/
def parseBurst (r : String) : Option (List Str × Nat × Nat × Nat) :=
  match r.splitOn ";" with
  | [i, a, b, c, _] =>
    if !i.startsWith "ids:" then none else
    match a.splitOn "=", b.splitOn "=", c.splitOn "=" with
    | ["own", x], ["other", y], ["bgdup", z] => do
      let x ← x.toNat?; let y ← y.toNat?; let z ← z.toNat?
      pure (parseIds (i.drop 4).toString, x, y, z)
    | _, _, _ => none
  | _ => none

/-- apply a label; `none` = not enabled -/
def app (st : SessState) (l : Label) : Option SessState :=
  (step st.S l).map (fun S' => { st with S := S' })

/-- model result of one op and the new state; the label (if any) is returned for the predicate -/
def sessOp (st : SessState) (tok : List String) (implRes : String) : SessState × String × Option Bool :=
  let S := st.S
  let dis : SessState × String × Option Bool := (st, "disabled", none)
  match tok with
  | ["login", n, r, f] =>
    match n.toNat?, r.toNat? with
    | some n, some r =>
      let fresh := f = "1"
      if (S.s n).phase ≠ .none then dis else
      -- the id of a fresh session that does not exist (a sequence cut by the shrinker): outside the domain
      if !fresh && r ≥ 1000 && !(S.ids.any (fun m => (S.s m).fresh && (S.s m).rid == r)) then
        ({ st with desync := true }, "outside", none) else
      match app st (.login n r fresh) with
      | none => ({ st with desync := true }, "outside", none)
      | some st' =>
        if !fresh then (st', "ok", none) else
        -- the id the real Service generated: the freshness assumption of the model, evaluated on it
        if implRes.startsWith "fresh:" then
          let id := Str.ofString (implRes.drop 6).toString
          let ok := C12.freshOK st.seen id
          ({ st' with seen := id :: st.seen }, if ok then implRes else "fresh:<a new 16-hex id>", some ok)
        else (st', "fresh:<a new 16-hex id>", none)
    | _, _ => (st, "badargs", none)
  | ["freshburst", m, _] =>
    match m.toNat? with
    | none => (st, "badargs", none)
    | some m =>
      -- m concurrent logins without run id on the real Service, all closed again: the tables are as before
      match parseBurst implRes with
      | none => (st, "ids:<m fresh ids>;own=m;other=0;bgdup=0", none)
      | some (ids, own, other, bgdup) =>
        let ok := ids.length == m && C12.burstOK st.seen ids && own == m && other == 0 && bgdup == 0
        ({ st with seen := ids ++ st.seen },
          if ok then implRes else s!"ids:<{m} fresh ids>;own={m};other=0;bgdup=0", some ok)
  | ["add", n] =>
    match n.toNat? with
    | none => (st, "badargs", none)
    | some n =>
      match app st (.add n) with
      | none => dis
      | some st' =>
        match res S (.add n) with
        | .old o => (st', s!"old:{o}", none)
        | _ => (st', "noold", none)
  | ["early", n] =>
    match n.toNat? with
    | none => (st, "badargs", none)
    | some n =>
      match (S.s n).old with
      | none => dis
      | some _ =>
        if (S.s n).phase ≠ .added ∨ st.early.contains n then dis else
        let st1 := { st with early := n :: st.early }
        match app st1 (.waitOld n) with
        | some st' => (st', "passed", none)
        -- the old session is not done: the model's waiter still waits.  A waiter that passes is a DIFF;
        -- what the property forbids is the ACK before the teardown: `C12.ackOn` on the `start` that follows
        | none => (st1, "waiting", none)
  | ["waitold", n] =>
    match n.toNat? with
    | none => (st, "badargs", none)
    | some n =>
      match app st (.waitOld n) with
      | none => dis
      | some st' => (st', "ok", none)
  | ["start", n] =>
    match n.toNat? with
    | none => (st, "badargs", none)
    | some n =>
      -- the implementation's own acknowledgement (LoginResp received) is recorded whatever the model says
      let st := if implRes.startsWith "ack" && implRes != "ackfail" then { st with acked := n :: st.acked } else st
      -- a waiter that was released early passes `WaitClosed` by itself once its predecessor is done
      let st := if st.early.contains n then (app st (.waitOld n)).getD st else st
      match app st (.start n) with
      | none => (st, "disabled", none)
      | some st' => (st', if S.closed.get n then "ackfail" else "ack", none)
  | ["connclose", n] =>
    match n.toNat? with
    | none => (st, "badargs", none)
    | some n =>
      match app st (.connClose n) with
      | none => dis
      | some st' => (st', "-", none)
  | ["dispdone", n] =>
    match n.toNat? with
    | none => (st, "badargs", none)
    | some n =>
      match app st (.dispDone n) with
      | some st' => (st', "ok", none)
      | none =>
        -- the implementation's worker passed `<-Done()` while a handler of the session is in flight: the model says
        -- disabled (`C12.teardown_without_handler`); it follows the implementation, the tables are judged afterwards
        if implRes = "ok" && decide ((S.s n).phase = .running) && S.closed.get n && (S.s n).hp != .idle then
          ({ st with S := SessDisp.passDone S n }, "disabled", none)
        else dis
  | ["drain", n] =>
    match n.toNat? with
    | none => (st, "badargs", none)
    | some n => match app st (.drain n) with | none => dis | some st' => (st', "ok", none)
  | ["closeproxy", n] =>
    match n.toNat? with
    | none => (st, "badargs", none)
    | some n =>
      if (S.s n).phase ≠ .drained ∨ (S.s n).todo = [] then dis else
      -- Go's map iteration chooses the entry: the model follows the implementation's choice if it is one
      let p := ((implRes.drop 2).toString.toNat?).getD ((S.s n).todo.headD 0)
      match app st (.closeProxy n p) with
      | none => (st, s!"p:{(S.s n).todo.headD 0}", none)
      | some st' => (st', s!"p:{p}", none)
  | ["done", n] =>
    match n.toNat? with
    | none => (st, "badargs", none)
    | some n => match app st (.done n) with | none => dis | some st' => (st', "ok", none)
  | ["del", n] =>
    match n.toNat? with
    | none => (st, "badargs", none)
    | some n => match app st (.del n) with | none => dis | some st' => (st', "ok", none)
  | ["regexist", n, p, typ] =>
    match n.toNat?, p.toNat? with
    | some n, some p =>
      if (S.s n).phase ≠ .running ∨ (S.s n).hp ≠ .idle then dis else
      if S.closed.get n then (st, "connclosed", none) else
      match app st (.regExist n p) with
      | none => dis
      | some st' =>
        -- a live name must be refused: passing the Exist check on it is the violation (an op the harness
        -- could not drive says nothing)
        if res S (.regExist n p) = .refused then
          (st', "exists", if implRes = "exists" then some true else if implRes = "checked" then some false else none)
        else ({ st' with kinds := (n, kindOfTyp typ) :: st'.kinds.filter (fun e => e.1 != n) }, "checked", none)
    | _, _ => (st, "badargs", none)
  | ["regrun", n] =>
    match n.toNat? with
    | none => (st, "badargs", none)
    | some n =>
      match (S.s n).hp with
      | .checked p =>
        let k := lookupD st.kinds n Kind.plain
        match k with
        | .plain =>
          -- whether pxy.Run of a tcp proxy succeeds is the implementation's (ports: C09/C10)
          let ok := implRes ≠ "runerr"
          match app st (.regRun n p .plain ok) with
          | none => dis
          | some st' => (st', if ok then "ran" else "runerr", none)
        | _ =>
          -- stcp / sudp / xtcp: Run succeeds iff the rendez-vous table has no entry under the name; a Run that
          -- succeeds on an occupied name has replaced the incumbent's listener
          match app st (.regRun n p k true) with
          | none => dis
          | some st' =>
            if res S (.regRun n p k true) = .refused then
              (st', "runerr", if implRes = "runerr" then some true else if implRes = "ran" then some false else none)
            else (st', "ran", none)
      | _ => dis
  | ["regadd", n] =>
    match n.toNat? with
    | none => (st, "badargs", none)
    | some n =>
      match (S.s n).hp with
      | .ran p =>
        match app st (.regAdd n p) with
        | none => dis
        | some st' =>
          if res S (.regAdd n p) = .refused then
            (st', "refused", if implRes = "refused" then some true else if implRes = "added" then some false else none)
          else (st', "added", none)
      | _ => dis
  | ["regown", n] =>
    match n.toNat? with
    | none => (st, "badargs", none)
    | some n =>
      match (S.s n).hp with
      | .added p =>
        match app st (.regOwn n p) with
        | none => dis
        | some st' =>
          ({ st' with ownKind := ((n, p), lookupD st.kinds n Kind.plain) :: st'.ownKind.filter (fun e => e.1 != (n, p)) }, "ok", none)
      | _ => dis
  | ["closereq", n, p] =>
    match n.toNat?, p.toNat? with
    | some n, some p =>
      if (S.s n).phase ≠ .running ∨ (S.s n).hp ≠ .idle then dis else
      if S.closed.get n then (st, "connclosed", none) else
      match app st (.closeReq n p) with
      | none => dis
      | some st' => (st', if res S (.closeReq n p) = .proceed then "deleted" else "noop", none)
    | _, _ => (st, "badargs", none)
  | ["closefin", n] =>
    match n.toNat? with
    | none => (st, "badargs", none)
    | some n =>
      match (S.s n).hp with
      | .closing p => match app st (.closeFin n p) with | none => dis | some st' => (st', "ok", none)
      | _ => dis
  | ["name", k, raw] =>
    -- the raw proxy name the clients send for index k from now on; pairwise different raw names only
    match k.toNat?, unhx raw with
    | some k, some r =>
      if (List.range 16).any (fun j => j != k && rawOf st.raws j == r) then (st, "dup", none)
      else ({ st with raws := (k, r) :: st.raws.filter (fun e => e.1 != k) }, "ok", none)
    | _, _ => (st, "badargs", none)
  | ["vprobe", p, w] =>
    -- a visitor connects to name p (Service.RegisterVisitorConn with the right key): the listener must be the
    -- incumbent's, and the incumbent is the session that is asked for a work connection
    match p.toNat?, w.toNat? with
    | some p, some w =>
      match S.vis.get p with
      | none => (st, "nolistener", none)
      | some t =>
        let want := if w != 0 && canServe S w && canServe S t then s!"req:{t}" else "listener"
        let pr : Option Bool :=
          if implRes = "nolistener" then some false
          else if implRes.startsWith "req:" then some (implRes = s!"req:{t}")
          else none
        (st, want, pr)
    | _, _ => (st, "badargs", none)
  | ["wpoke", n, p] =>
    -- somebody connects to session n's registered proxy p: the proxy asks n's dispatcher for a work connection
    -- (GetWorkConn → Dispatcher.Send → sendLoop → WriteMsg)
    match n.toNat?, p.toNat? with
    | some n, some p =>
      let x := S.s n
      let k := lookupD st.ownKind (n, p) Kind.nat
      let holds := x.own.contains p && x.hp != .closing p && decide (x.phase = .running) && (k == Kind.vis || k == Kind.plain)
      if !holds then (st, implRes, none) else
      if canServe S n then
        (st, s!"req:{n}", if implRes.startsWith "req:" then some (implRes = s!"req:{n}")
                          else if implRes = "nolistener" || implRes = "refused" then some false else none)
      else if x.hp != .idle then
        -- closed connection, read loop inside a handler: `send n; write n` — the write fails, nothing moves
        (st, s!"wfail:{n}", if implRes = "nolistener" || implRes = "refused" then some false else none)
      else
        -- closed connection, read loop free: Send races with the closing done channel (either is allowed)
        (st, implRes, none)
    | _, _ => (st, "badargs", none)
  | ["nprobe", p] =>
    -- a nat hole pre-check for name p (NatHoleVisitor{PreCheck} sent by an unrelated session)
    match p.toNat? with
    | none => (st, "badargs", none)
    | some p =>
      match S.nat.get p with
      | none => (st, "noclient", none)
      | some _ => (st, "client", if implRes = "noclient" then some false else none)
  | ["tprobe", n, p] =>
    -- a user connects to the remote port session n was given for its tcp proxy p
    match n.toNat?, p.toNat? with
    | some n, some p =>
      let holds := (S.s n).own.contains p && (S.s n).hp != .closing p && lookupD st.ownKind (n, p) Kind.vis == Kind.plain
      if holds && canServe S n then
        (st, s!"req:{n}", if implRes = "refused" then some false
                          else if implRes.startsWith "req:" then some (implRes = s!"req:{n}") else none)
      else (st, implRes, none)
    | _, _ => (st, "badargs", none)
  | _ => (st, "badop", none)

def andProp (a b : Option Bool) : Option Bool :=
  match a, b with
  | some false, _ => some false
  | _, some false => some false
  | some true, _ => some true
  | _, x => x

def actorOf (tok : List String) : Nat :=
  match tok with
  | _ :: n :: _ => n.toNat?.getD 0
  | _ => 0

def sessStep (st : SessState) (tok : List String) (impl : String) : SessState × Verdict :=
  match tok with
  | ["reset"] => ({ seen := st.seen }, verdictOf "-" impl)
  | ["randid"] => (st, verdictOf "ok" impl (some (impl = "ok")))
  | ["randconc", g, k] =>
    -- g goroutines × k calls of the real util.RandID
    match g.toNat?, k.toNat? with
    | some g, some k =>
      if impl.startsWith "ids:" then
        -- all ids: the predicate is evaluated here
        let ids := parseIds (impl.drop 4).toString
        let ok := ids.length == g * k && C12.idsOK ids
        (st, verdictOf (if ok then impl else s!"ids:<{g * k} pairwise different 16-hex ids>") impl (some ok))
      else
        -- large runs: the harness reports the malformed and the repeated ids it found
        let want := s!"sum:n={g * k};bad=;dup="
        (st, verdictOf want impl (some (impl = want)))
    | _, _ => (st, .bad "randconc g k")
  | _ =>
    if st.desync then (st, .skip "after a login outside the id-generator assumption") else
    if st.wedged then (st, .skip "after a bounded wait of the harness expired in this world") else
    let (implRes, d, hasDump) := parseImpl impl
    let (st', r, pr) := sessOp st tok implRes
    if r = "outside" then (st', .skip "login outside the id-generator assumption (shrunk sequence)") else
    if implRes = "timeout" || implRes = "blocked" || implRes = "wedged" || !hasDump then
      -- something the model says must come did not come within the bound: behaviour differs, no verdict
      ({ st' with wedged := true }, .diff (r ++ "|" ++ renderDump st'.S) none)
    else
    let actor := if tok.head? = some "freshburst" then 0 else actorOf tok
    let obs : C12.Obs :=
      { S := st'.S, actor := actor, actorRid := (st'.S.s actor).rid, isDel := tok.head? = some "del",
        prevRun := st.prevRun, prevNames := st.prevNames, run := d.run, names := d.names, acked := st'.acked,
        P := st.S, prevVis := st.prevVis, vis := d.vis, prevNat := st.prevNat, nat := d.nat, own := d.own }
    let pr := andProp pr (some (C12.holdsOn obs))
    ({ st' with prevRun := d.run, prevNames := d.names, prevVis := d.vis, prevNat := d.nat },
      verdictOf (r ++ "|" ++ renderDump st'.S) impl pr)

def engine : Engine := { State := SessState, init := {}, step := sessStep }

end SessEng

def sess : Proto.Engine := SessEng.engine

end Engines
end Frp
