import Frp.Driver.Proto
import Frp.Props.C12
/-
  Driver engine "sess" (C12): replays the gated schedule of harness/eng_sess.go label by label on the
  small-step model `Frp.Sess`, compares the result of every label and the implementation's dumped
  tables (ctlsByRunID, pxys) with the model's, and evaluates `C12.holdsOn` on the implementation's
  own tables.
-/
namespace Frp
namespace Engines
namespace SessEng
open Proto Sess

structure SessState where
  S : St := {}
  early : List Nat := []                 -- waiters released before their old session was done
  prevRun : List (Nat × Nat) := []       -- the implementation's tables after the previous label
  prevNames : List (Nat × Nat) := []
  desync : Bool := false

def entries (t : Tbl (Option Nat)) : List (Nat × Nat) :=
  (t.l.filterMap (fun e => e.2.map (fun v => (e.1, v)))).mergeSort (fun a b => a.1 ≤ b.1)

def renderTbl (l : List (Nat × Nat)) : String :=
  ",".intercalate (l.map (fun e => s!"{e.1}={e.2}"))

def renderDump (S : St) : String :=
  "run[" ++ renderTbl (entries S.byRun) ++ "]names[" ++ renderTbl (entries S.names) ++ "]"

def parseTbl (s : String) : List (Nat × Nat) :=
  (s.splitOn ",").filterMap (fun kv => match kv.splitOn "=" with
    | [k, v] => do let a ← k.toNat?; let b ← v.toNat?; pure (a, b)
    | _ => none)

/-- "res|run[..]names[..]" → (res, run, names) -/
def parseImpl (impl : String) : String × List (Nat × Nat) × List (Nat × Nat) :=
  match impl.splitOn "|" with
  | [r, d] =>
    match d.splitOn "]names[" with
    | [a, b] => (r, parseTbl ((a.drop 4).toString), parseTbl ((b.dropEnd 1).toString))
    | _ => (r, [], [])
  | _ => (impl, [], [])

/-- apply a label; `none` = not enabled -/
def app (st : SessState) (l : Label) : Option SessState :=
  (step st.S l).map (fun S' => { st with S := S' })

/-- model result of one op and the new state; the label (if any) is returned for the predicate -/
def sessOp (st : SessState) (tok : List String) (implRes : String) : SessState × String × Option Bool :=
  let S := st.S
  let dis : SessState × String × Option Bool := (st, "disabled", none)
  match tok with
  | ["login", n, r, f] =>
    match n.toNat?, r.toNat? with
    | some n, some r =>
      let fresh := f = "1"
      if (S.s n).phase ≠ .none then dis else
      match app st (.login n r fresh) with
      | none => ({ st with desync := true }, "outside", none)
      | some st' =>
        if fresh then (st', "ok:fresh", some (implRes = "ok:fresh")) else (st', "ok", none)
    | _, _ => (st, "badargs", none)
  | ["add", n] =>
    match n.toNat? with
    | none => (st, "badargs", none)
    | some n =>
      match app st (.add n) with
      | none => dis
      | some st' =>
        match res S (.add n) with
        | .old o => (st', s!"old:{o}", none)
        | _ => (st', "noold", none)
  | ["early", n] =>
    match n.toNat? with
    | none => (st, "badargs", none)
    | some n =>
      match (S.s n).old with
      | none => dis
      | some _ =>
        if (S.s n).phase ≠ .added ∨ st.early.contains n then dis else
        let st1 := { st with early := n :: st.early }
        match app st1 (.waitOld n) with
        | some st' => (st', "passed", none)
        -- the old session is not done: the released waiter must still be waiting (ack only after teardown)
        | none => (st1, "waiting", some (implRes = "waiting"))
  | ["waitold", n] =>
    match n.toNat? with
    | none => (st, "badargs", none)
    | some n =>
      match app st (.waitOld n) with
      | none => dis
      | some st' => (st', "ok", none)
  | ["start", n] =>
    match n.toNat? with
    | none => (st, "badargs", none)
    | some n =>
      match app st (.start n) with
      | none => dis
      | some st' => (st', if S.closed.get n then "ackfail" else "ack", none)
  | ["connclose", n] =>
    match n.toNat? with
    | none => (st, "badargs", none)
    | some n =>
      match app st (.connClose n) with
      | none => dis
      | some st' => (st', "-", none)
  | ["dispdone", n] =>
    match n.toNat? with
    | none => (st, "badargs", none)
    | some n => match app st (.dispDone n) with | none => dis | some st' => (st', "ok", none)
  | ["drain", n] =>
    match n.toNat? with
    | none => (st, "badargs", none)
    | some n => match app st (.drain n) with | none => dis | some st' => (st', "ok", none)
  | ["closeproxy", n] =>
    match n.toNat? with
    | none => (st, "badargs", none)
    | some n =>
      if (S.s n).phase ≠ .drained ∨ (S.s n).todo = [] then dis else
      -- Go's map iteration chooses the entry: the model follows the implementation's choice if it is one
      let p := ((implRes.drop 2).toString.toNat?).getD ((S.s n).todo.headD 0)
      match app st (.closeProxy n p) with
      | none => (st, s!"p:{(S.s n).todo.headD 0}", none)
      | some st' => (st', s!"p:{p}", none)
  | ["done", n] =>
    match n.toNat? with
    | none => (st, "badargs", none)
    | some n => match app st (.done n) with | none => dis | some st' => (st', "ok", none)
  | ["del", n] =>
    match n.toNat? with
    | none => (st, "badargs", none)
    | some n => match app st (.del n) with | none => dis | some st' => (st', "ok", none)
  | ["regexist", n, p, _] =>
    match n.toNat?, p.toNat? with
    | some n, some p =>
      if (S.s n).phase ≠ .running ∨ (S.s n).hp ≠ .idle then dis else
      if S.closed.get n then (st, "connclosed", none) else
      match app st (.regExist n p) with
      | none => dis
      | some st' =>
        -- a live name must be refused
        if res S (.regExist n p) = .refused then (st', "exists", some (implRes = "exists"))
        else (st', "checked", none)
    | _, _ => (st, "badargs", none)
  | ["regrun", n] =>
    match n.toNat? with
    | none => (st, "badargs", none)
    | some n =>
      match (S.s n).hp with
      | .checked p =>
        -- whether pxy.Run succeeds is the implementation's (ports, listeners: C09/C10)
        let ok := implRes ≠ "runerr"
        match app st (.regRun n p ok) with
        | none => dis
        | some st' => (st', if ok then "ran" else "runerr", none)
      | _ => dis
  | ["regadd", n] =>
    match n.toNat? with
    | none => (st, "badargs", none)
    | some n =>
      match (S.s n).hp with
      | .ran p =>
        match app st (.regAdd n p) with
        | none => dis
        | some st' =>
          if res S (.regAdd n p) = .refused then (st', "refused", some (implRes = "refused"))
          else (st', "added", none)
      | _ => dis
  | ["regown", n] =>
    match n.toNat? with
    | none => (st, "badargs", none)
    | some n =>
      match (S.s n).hp with
      | .added p => match app st (.regOwn n p) with | none => dis | some st' => (st', "ok", none)
      | _ => dis
  | ["closereq", n, p] =>
    match n.toNat?, p.toNat? with
    | some n, some p =>
      if (S.s n).phase ≠ .running ∨ (S.s n).hp ≠ .idle then dis else
      if S.closed.get n then (st, "connclosed", none) else
      match app st (.closeReq n p) with
      | none => dis
      | some st' => (st', if res S (.closeReq n p) = .proceed then "deleted" else "noop", none)
    | _, _ => (st, "badargs", none)
  | ["closefin", n] =>
    match n.toNat? with
    | none => (st, "badargs", none)
    | some n =>
      match (S.s n).hp with
      | .closing p => match app st (.closeFin n p) with | none => dis | some st' => (st', "ok", none)
      | _ => dis
  | _ => (st, "badop", none)

def andProp (a b : Option Bool) : Option Bool :=
  match a, b with
  | some false, _ => some false
  | _, some false => some false
  | some true, _ => some true
  | _, x => x

def actorOf (tok : List String) : Nat :=
  match tok with
  | _ :: n :: _ => n.toNat?.getD 0
  | _ => 0

def sessStep (st : SessState) (tok : List String) (impl : String) : SessState × Verdict :=
  match tok with
  | ["reset"] => ({}, verdictOf "-" impl)
  | ["randid"] => (st, verdictOf "ok" impl (some (impl = "ok")))
  | _ =>
    if st.desync then (st, .skip "after a login outside the id-generator assumption") else
    let (implRes, iRun, iNames) := parseImpl impl
    let (st', r, pr) := sessOp st tok implRes
    if r = "outside" then (st', .skip "login outside the id-generator assumption (shrunk sequence)") else
    let actor := actorOf tok
    let obs : C12.Obs :=
      { S := st'.S, actor := actor, actorRid := (st'.S.s actor).rid, isDel := tok.head? = some "del",
        prevRun := st.prevRun, prevNames := st.prevNames, run := iRun, names := iNames }
    let pr := andProp pr (some (C12.holdsOn obs))
    ({ st' with prevRun := iRun, prevNames := iNames }, verdictOf (r ++ "|" ++ renderDump st'.S) impl pr)

def engine : Engine := { State := SessState, init := {}, step := sessStep }

end SessEng

def sess : Proto.Engine := SessEng.engine

end Engines
end Frp
