import Frp.Driver.Proto
import Frp.Model.Reconnect
import Frp.Model.Teardown
import Frp.Props.C14
import Frp.Engines.Wait
/-
  Driver engine "td" (C14, part H): replays the harness trace of a real frpc whose control connection is
  cut by a scripted server some ms after each login (harness/eng_td.go) against
  * the teardown model (Frp/Model/Teardown.lean) with the parameters the source has
    (`C14.codeTeardown`: capacity of the send channel, does `Stop` wait with pw.mu held, does anybody
    receive from the send channel during `pm.Close()`): does the session's `worker()` reach
    `close(doneCh)` — otherwise no further login can come;
  * the re-login pacing model (Frp/Model/Reconnect.lean): when the next login is due.
  `prop` = after every cut the next login arrived, within the bound.
-/
namespace Frp
namespace Engines
open Proto

structure TdState where
  jobs : List (String × Nat × Nat × List Nat) := []     -- id ↦ (N, HC, cuts in ms)

/-- the state of a wrapper's check goroutine `cut` ms after the login: with a health monitor it sleeps
    500 ms before its first round; later it sits in its select between two rounds -/
def tdWrapper (hc cut : Nat) : Teardown.Wr :=
  if hc ≠ 0 ∧ cut < 500 then { wk := .sleep } else { wk := .sel }

/-- a generous schedule: for every wrapper the closer's steps of `Stop()`, interleaved with the steps its check
    goroutine needs to leave (sleep → top → …, select → gone) and with the receiver -/
def tdSchedule (n : Nat) : List Teardown.Lbl :=
  (List.range n).flatMap (fun j => [.closer, .worker j false, .worker j false, .closer, .drain, .closer]) ++
    (List.range (2 * n + 1)).flatMap (fun _ => [.drain, .closer])

/-- does the model's teardown of a session with `n` wrappers finish? -/
def tdFinishes (n hc cut : Nat) : Bool :=
  (Teardown.run C14.codeTeardown (Teardown.init 0 (List.replicate n (tdWrapper hc cut))) (tdSchedule n)).fin

inductive TdRec
  | login (gap regs : Nat)
  | stuck

def parseTdRec (s : String) : Option TdRec :=
  if s = "stuck" then some .stuck else
  match s.toList with
  | 'L' :: r =>
    match (String.ofList r).splitOn ":" with
    | [g, k] => match g.toNat?, k.toNat? with
      | some g, some k => some (.login g k)
      | _, _ => none
    | _ => none
  | _ => none

/-- returns (problem?, property holds) -/
def tdCheck (n hc : Nat) (cuts : List Nat) (recs : List TdRec) : Option String × Bool := Id.run do
  let mut s := Reconnect.init
  let mut problem : Option String := none
  let mut prop := true
  let mut k := 0
  let mut now := 0
  let mut alive := true            -- the model: every teardown so far has finished
  let slackMs := 400
  for r in recs do
    match r with
    | .stuck =>
      -- no login after the cut of session k-1: the property fails; the model must have predicted it
      prop := false
      if alive then problem := problem <|> some s!"login{k}:expected"
      alive := false
    | .login gap regs =>
      if !alive then problem := problem <|> some s!"login{k}:model-stuck"
      if k = 0 then
        if gap > 3000 then problem := problem <|> some "first-login-late"
      else
        let (s', out) := Reconnect.step s now .sessionEnded (msToNs gap)
        s := s'
        if ¬ (out.lo ≤ msToNs (gap + 2) ∧ msToNs gap ≤ out.hi + msToNs slackMs) then
          problem := problem <|> some s!"login{k}:gap∈[{out.lo / 1000000},{out.hi / 1000000}+slack]ms"
        if msToNs gap > 20 * Backoff.second + msToNs slackMs then prop := false
      s := Reconnect.loginOk s
      now := now + msToNs gap
      -- registrations: never more than configured; the last session lives long enough for all of them
      if regs > n then problem := problem <|> some s!"login{k}:regs≤{n}"
      if k = cuts.length ∧ regs ≠ (if hc = 2 then 0 else n) then
        problem := problem <|> some s!"login{k}:regs={if hc = 2 then 0 else n}"
      -- the session is cut `cuts[k]` ms after this login: does its teardown finish?
      match cuts[k]? with
      | some cut =>
        if !tdFinishes n hc cut then alive := false
        now := now + msToNs cut
      | none => pure ()
    k := k + 1
  -- every cut must have been followed by a login (or the record ends with `stuck`)
  let logins := (recs.filter (fun r => match r with | .login _ _ => true | .stuck => false)).length
  let endsStuck := recs.any (fun r => match r with | .stuck => true | _ => false)
  if !endsStuck ∧ logins ≠ cuts.length + 1 then problem := problem <|> some s!"logins={cuts.length + 1}"
  return (problem, prop)

def tdStep (st : TdState) (tok : List String) (impl : String) : TdState × Verdict :=
  match tok with
  | ["reset"] => (st, verdictOf "-" impl)
  | ["tdstart", id, n, hc, cuts] =>
    match n.toNat?, hc.toNat?, (cuts.splitOn "/").mapM String.toNat? with
    | some n, some hc, some cuts => ({ jobs := (id, n, hc, cuts) :: st.jobs }, verdictOf "started" impl)
    | _, _, _ => (st, .bad "tdstart")
  | ["tdwait", id] =>
    match st.jobs.lookup id with
    | none => (st, verdictOf "unknown" impl)
    | some (n, hc, cuts) =>
      let st' : TdState := { jobs := st.jobs.filter (·.1 ≠ id) }
      if impl.startsWith "infra" then (st', .skip "infra") else
      match impl.splitOn " " with
      | [_, _, recs] =>
        match (recs.splitOn ",").mapM parseTdRec with
        | some recs =>
          let (problem, prop) := tdCheck n hc cuts recs
          match problem with
          | none => (st', verdictOf impl impl (some prop))
          | some p => (st', verdictOf p impl (some prop))
        | none => (st', verdictOf "login-records" impl (some false))
      | _ => (st', verdictOf "login-records" impl (some false))     -- "hang", a panic …
  | _ => (st, .bad "op")

def td : Engine := { State := TdState, init := {}, step := tdStep }

end Engines
end Frp
