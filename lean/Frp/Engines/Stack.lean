import Frp.Driver.Proto
import Frp.Props.C01
/-
  Driver engine "stack" (C01): replays harness/eng_stack.go's trace on the C01 models and evaluates
  the C01 predicates on the implementation's own answers.
-/
namespace Frp
namespace Engines
open Proto Layers Limit CloseGraph Tunnel

def stkKV (toks : List String) (key : String) : Option String :=
  toks.findSome? fun t =>
    match t.splitOn "=" with
    | [k, v] => if k = key then some v else none
    | _ => none

def stkNat (toks : List String) (key : String) : Option Nat := (stkKV toks key).bind String.toNat?
def stkBool (toks : List String) (key : String) : Option Bool :=
  match stkKV toks key with
  | some "1" => some true
  | some "0" => some false
  | _ => none
def stkRes (res : String) (key : String) : Option String := stkKV (res.splitOn ";") key
def stkResNat (res : String) (key : String) : Option Nat := (stkRes res key).bind String.toNat?
def stkBit (b : Bool) : String := if b then "1" else "0"

def stkHexList (s : String) : Option (List C01Bytes) :=
  if s = "" then some [] else (s.splitOn ",").mapM unhx

def stkOpts (rest : List String) (server : Bool) : Option Opts :=
  match stkBool rest "enc", stkBool rest "comp", stkBool rest "lim" with
  | some e, some c, some l => some { enc := e, comp := c, limSrv := server && l, limCli := !server && l }
  | _, _, _ => none

def stkCount (g : Graph) (k : Nat) : Nat := (closeCount g k).getD 999

/-- reply of the tagged backend: the user's address 10.1.2.3:(1024 + seed % 50000) -/
def stkUserAddr (seed : Nat) : Addr := { host := Str.ofString "10.1.2.3", port := 1024 + seed % 50000 }

def stkPPRender : Option PPHeader → String
  | none => "none"
  | some h => s!"v{h.version}:{hx h.src.host}:{h.src.port}:{hx h.dst.host}:{h.dst.port}"

def stkNatList (sep : String) (s : String) : Option (List Nat) :=
  if s = "" then some [] else (s.splitOn sep).mapM String.toNat?

def stkJoinNat (sep : String) (l : List Nat) : String := sep.intercalate (l.map toString)

def stkWErr : WErr → String
  | .none => "0"
  | .wait => "wait"
  | .sink => "sink"

/-- one call of a `wlim` result: `<n>:<err>:<sink write sizes>:<tokens | ->` -/
def stkWObs (len : Nat) (s : String) : Option C01.WObs :=
  match s.splitOn ":" with
  | [n, e, sizes, toks] =>
    match n.toNat?, stkNatList "/" sizes with
    | some n, some sizes =>
      let reqs := if toks = "-" then some none else (stkNatList "/" toks).map some
      reqs.map fun r => { len := len, n := n, ok := e == "0", offered := sizes, reqs := r }
    | _, _ => none
  | _ => none

def stkZipObs : List Nat → List String → Option (List C01.WObs)
  | [], [] => some []
  | l :: ls, c :: cs => do
    let o ← stkWObs l c
    let r ← stkZipObs ls cs
    pure (o :: r)
  | _, _ => none

/-! ### the io.Reader / io.Writer contract ops (`rsrc`, `wsnk`, `tail`) -/

/-- `lim<b>` | `stats` | `cn` | `ctx` | `rwc` -/
def stkLayer (t : String) : Option RW :=
  if t.startsWith "lim" then (t.drop 3).toString.toNat?.map (RW.limit false ·)
  else if t = "stats" then some .stats
  else if t = "cn" ∨ t = "ctx" ∨ t = "rwc" then some .pass
  else none

/-- the stack token lists the layers innermost first; the model wants the outermost first -/
def stkLayers (s : String) : Option (List RW) := ((s.splitOn "+").mapM stkLayer).map List.reverse

def stkSegs (s : String) : Option (List Seg) :=
  if s = "" then some [] else
  (s.splitOn ",").mapM fun e =>
    match e.splitOn ":" with
    | [n, f] =>
      match n.toNat?, (if f = "0" then some SErr.none else if f = "E" then some SErr.eof else if f = "X" then some SErr.other else none) with
      | some n, some f => some { data := List.replicate n 0, err := f }
      | _, _ => none
    | _ => none

def stkSink (s : String) : Option (List SinkResp) :=
  if s = "" then some [] else
  (s.splitOn ",").mapM fun e =>
    match e.splitOn ":" with
    | [n, f] => n.toNat?.map fun n => { take := n, err := f == "E", lax := f == "L" }
    | _ => none

def stkPErr : PErr → String
  | .none => "0"
  | .eof => "eof"
  | .src => "src"
  | .wait => "wait"

def stkPErrOf (s : String) : Option PErr :=
  if s = "eof" then some .eof else if s = "wait" then some .wait else if s = "src" ∨ s = "other" then some .src else none

/-- consecutive pieces of the given sizes of `0, 1, 2, …` (distinct values: a hole in what the sink took shows) -/
def stkPieces : Nat → List Nat → List C01Bytes
  | _, [] => []
  | from_, n :: ns => ((List.range n).map (· + from_)) :: stkPieces (from_ + n) ns

/-- the sink's counts of one call: `a/b/c!` -/
def stkCounts (s : String) : Option (List Nat × Bool) :=
  if s = "" then some ([], false) else
  let fs := s.splitOn "/"
  (fs.mapM fun (f : String) => (if f.endsWith "!" then (f.dropEnd 1).toString else f).toNat?).map fun l =>
    (l, fs.any fun (f : String) => f.endsWith "!")

def stkWSObs (len : Nat) (s : String) : Option C01.WSObs :=
  match s.splitOn ":" with
  | [n, e, sizes, counts, toks] =>
    match n.toNat?, stkNatList "/" sizes, stkCounts counts with
    | some n, some sizes, some (took, se) =>
      let reqs := if toks = "-" then some none else (stkNatList "/" toks).map some
      reqs.map fun r => { len := len, n := n, ok := e == "0", offered := sizes, took := took, sinkErr := se, reqs := r }
    | _, _, _ => none
  | _ => none

/-- the calls that were made (the caller stops at the first error) against the lengths that were to be written -/
def stkZipWS : List Nat → List String → Option (List C01.WSObs)
  | _, [] => some []
  | l :: ls, c :: cs => do
    let o ← stkWSObs l c
    let r ← stkZipWS ls cs
    pure (o :: r)
  | [], _ :: _ => none

def stackStep (st : Unit) (tok : List String) (impl : String) : Unit × Verdict :=
  match tok with
  | ["reset"] => (st, verdictOf "-" impl)
  | "wr" :: rest =>
    match stkNat rest "b", (stkKV rest "p").bind unhx with
    | some b, some p =>
      if b = 0 then (st, .skip "burst 0") else
      let cs := chunks b p
      let m := s!"c={",".intercalate (cs.map hx)};n={writerN b p}"
      let prop := match (stkRes impl "c").bind stkHexList, stkResNat impl "n" with
        | some got, some n => C01.writerHoldsOn b p got && n == p.length
        | _, _ => false
      (st, verdictOf m impl (some prop))
    | _, _ => (st, .bad "wr")
  | "wrl" :: rest =>
    match stkNat rest "b", stkNat rest "n" with
    | some b, some n =>
      if b = 0 then (st, .skip "burst 0") else
      let m := s!"full={n / b};rem={n % b};n={n};cat=1"
      let prop := match stkResNat impl "full", stkResNat impl "rem", stkResNat impl "n", stkRes impl "cat" with
        | some f, some r, some n', some c => c == "1" && n' == n && f * b + r == n && decide (r < b)
        | _, _, _, _ => false
      (st, verdictOf m impl (some prop))
    | _, _ => (st, .bad "wrl")
  | "wtok" :: rest =>
    match stkNat rest "b", stkNat rest "n" with
    | some b, some n =>
      if b < n ∨ b = 0 then (st, .skip "n > burst") else
      let w := ((writerTrace b (List.replicate n 0)).map (·.1)).sum
      let r := readerCharge (min (readerAsk b (n + 3)) n) false
      let m := s!"w={w};r={r}"
      let prop := stkResNat impl "w" == some n && stkResNat impl "r" == some n
      (st, verdictOf m impl (some prop))
    | _, _ => (st, .bad "wtok")
  | "rd" :: rest =>
    match stkNat rest "b", stkNat rest "plen", stkNat rest "avail" with
    | some b, some plen, some avail =>
      let n := min (readerAsk b plen) avail
      let m := s!"n={n};err={if avail = 0 then "eof" else "0"}"
      let prop := match stkResNat impl "n" with
        | some n' => decide (n' ≤ min plen b)
        | none => false
      (st, verdictOf m impl (some prop))
    | _, _, _ => (st, .bad "rd")
  | "wlim" :: rest =>
    match stkNat rest "b", stkNat rest "r", (stkKV rest "w").bind (stkNatList ","), stkNat rest "room" with
    | some b, some r, some ws, some room =>
      if b = 0 then (st, .skip "burst 0") else
      -- frp only builds finite limiters: `WaitN` refuses n > burst
      let outs := writeMany false b room (ws.map fun n => List.replicate n 0)
      let call (o : WOut) : String :=
        s!"{o.n}:{stkWErr o.err}:{stkJoinNat "/" (o.offered.map List.length)}:{if r = 0 then stkJoinNat "/" o.reqs else "-"}"
      let m := s!"c={"|".intercalate (outs.map call)};cat=1"
      let prop := match (stkRes impl "c").bind (fun c => stkZipObs ws (c.splitOn "|")) with
        | some obs => C01.wlimHoldsOn room obs && stkRes impl "cat" == some "1"
        | none => false
      (st, verdictOf m impl (some prop))
    | _, _, _, _ => (st, .bad "wlim")
  | "rlim" :: rest =>
    match stkNat rest "b", stkNat rest "r", stkNat rest "plen", stkNat rest "per", stkNat rest "n" with
    | some b, some r, some plen, some per, some n =>
      if b = 0 ∨ plen = 0 ∨ per = 0 then (st, .skip "burst / buffer / segment 0") else
      let rs := readAll false b plen per (n + 1) (List.replicate n 0)
      let ok := rs.filter fun x => x.err == .none
      let ns := ok.map (·.got.length)
      let endS := match rs.getLast? with
        | some x => (match x.err with | .eof => "eof" | .wait => "wait" | .none => "max")
        | none => "max"
      let m := s!"n={stkJoinNat "," ns};req={if r = 0 then stkJoinNat "," (ok.map (·.req.getD 0)) else "-"};end={endS};cat=1"
      let prop := match (stkRes impl "n").bind (stkNatList ","), stkRes impl "req" with
        | some ins, some rq =>
          let reqs : Option (Option (List Nat)) := if rq = "-" then some none else (stkNatList "," rq).map some
          match reqs with
          | some reqs => C01.rlimHoldsOn b plen n ins reqs (stkRes impl "end" == some "eof") (stkRes impl "cat" == some "1")
          | none => false
        | _, _ => false
      (st, verdictOf m impl (some prop))
    | _, _, _, _, _ => (st, .bad "rlim")
  | "bucket" :: rest =>
    match stkNat rest "r", stkNat rest "b", stkKV rest "q" with
    | some r, some b, some q =>
      let reqs : Option (List (Nat × Nat)) := (q.splitOn ",").mapM fun e =>
        match e.splitOn ":" with
        | [t, n] => match t.toNat?, n.toNat? with
          | some t, some n => some (t, n)
          | _, _ => none
        | _ => none
      match reqs with
      | none => (st, .bad "bucket q")
      | some reqs =>
        let gs := reserveRun r b { tokens := b, last := 0 } reqs
        let m := "g=" ++ ",".intercalate (gs.map fun x => toString x.1)
        let prop := match (stkRes impl "g").map (·.splitOn ",") with
          | some ts =>
            match ts.mapM String.toNat? with
            | some ts =>
              let evs := ts.zip (reqs.map (·.2))
              ts.length == reqs.length && valid r b b 0 evs && windowsOkFrom r b 0 evs
            | none => false
          | none => false
        (st, verdictOf m impl (some prop))
    | _, _, _ => (st, .bad "bucket")
  | "srv" :: rest =>
    match stkOpts rest true with
    | some o =>
      let g := serverGraph o
      let r := reaches g
      let closes := if r then stkCount g 2 + 1 else 0
      let m := s!"name=1;src=1;up=1;down=1;eof={stkBit r};closes={closes}"
      let prop := stkRes impl "name" == some "1" && stkRes impl "src" == some "1" && stkRes impl "up" == some "1" &&
        stkRes impl "down" == some "1" && stkRes impl "eof" == some "1" &&
        (match stkResNat impl "closes" with | some c => decide (1 ≤ c) | none => false)
      (st, verdictOf m impl (some prop))
    | none => (st, .bad "srv")
  | "cli" :: rest =>
    match stkOpts rest false, stkKV rest "pp", stkNat rest "seed" with
    | some o, some ppv, some seed =>
      let ver : Str := if ppv = "none" then [] else Str.ofString ppv
      let dst : Option Addr := if seed % 3 = 0 then none else some { host := Str.ofString "192.0.2.7", port := 7000 }
      let msg := startMsg (Str.ofString "p") (some (stkUserAddr seed)) dst
      let h := ppHeader ver msg
      let closes := stkCount (clientGraph o) 2
      let m := s!"pp={stkPPRender h};up=1;down=1;eof=1;closes={closes}"
      -- the header the backend parsed must carry the user's address
      let wantSrc := s!":{hx (stkUserAddr seed).host}:{(stkUserAddr seed).port}:"
      let ppOk := match stkRes impl "pp" with
        | some s => if ppv = "none" then s == "none" else (s.splitOn wantSrc).length == 2 && s.startsWith ppv
        | none => false
      let prop := ppOk && stkRes impl "up" == some "1" && stkRes impl "down" == some "1" && stkRes impl "eof" == some "1" &&
        (match stkResNat impl "closes" with | some c => decide (1 ≤ c) | none => false)
      (st, verdictOf m impl (some prop))
    | _, _, _ => (st, .bad "cli")
  | "disp" :: rest =>
    match stkNat rest "n", stkKV rest "to" with
    | some n, some to =>
      let nameOf (i : Nat) : Str := Str.ofString "p" ++ List.replicate i 120
      let es : List Entry := (List.range n).map fun i => { name := nameOf i, endpoint := i, backend := i }
      let target := match to.toNat? with
        | some i => nameOf i
        | none => nameOf n
      let m := match dispatch es target with
        | some b => s!"b={b};closed=0"
        | none => "b=none;closed=1"
      -- never another proxy's backend
      let prop := match to.toNat?, stkRes impl "b" with
        | some i, some b => b == toString i
        | none, some b => b == "none" && stkRes impl "closed" == some "1"
        | _, none => false
      (st, verdictOf m impl (some prop))
    | _, _ => (st, .bad "disp")
  | "wrap" :: rest =>
    match stkKV rest "kind", stkNat rest "k" with
    | some kind, some k =>
      let gf : Option (Graph × Nat) :=
        if kind = "cn" then some (closeNotifyGraph, 1)
        else if kind = "stats" then some (statsGraph, 1)
        else if kind = "rwc" then some (rwcConnGraph, 0)
        else none
      match gf with
      | some (g, fn) =>
        let m := s!"closes={stkCount g k};fn={fn}"
        let prop := match stkResNat impl "closes" with | some c => decide (1 ≤ c) | none => false
        (st, verdictOf m impl (some prop))
      | none => (st, .bad "wrap kind")
    | _, _ => (st, .bad "wrap")
  | "sniff" :: rest =>
    match stkKV rest "kind", stkNat rest "early", stkNat rest "n" with
    | some kind, some early, some n =>
      let s : Option Sniff :=
        if kind = "https" then some .https else if kind = "mux" then some (.tcpmux false)
        else if kind = "muxpt" then some (.tcpmux true) else none
      match s with
      | none => (st, .bad "sniff kind")
      | some s =>
        let req : C01Bytes := [1, 1, 1]
        let rst : C01Bytes := (List.range (early + n)).map (· + 2)
        let got := handedOn s (req ++ rst) (req.length + early)
        let m := if got == req ++ rst then "got=all;miss=0"
          else if got == rst then "got=rest;miss=0"
          else s!"got=lost;miss={rst.length - got.length}"
        let prop := stkRes impl "miss" == some "0" && (stkRes impl "got" == some "all" || stkRes impl "got" == some "rest")
        (st, verdictOf m impl (some prop))
    | _, _, _ => (st, .bad "sniff")
  | "dl" :: rest =>
    match stkKV rest "route" with
    | some route =>
      -- (*Muxer).handle: Deadline.handleCalls / handleCloses; C01.handle_clears_deadlines, handle_closes_or_clears
      let o : Deadline.Outcome :=
        if route = "none" then .noRoute else if route = "authbad" then .authFail else .handedOn
      let callsStr := ",".intercalate ((Deadline.handleCalls o).map Deadline.Call.tok)
      let implCalls : Option (List Deadline.Call) := match stkRes impl "calls" with
        | some "" => some []
        | some cs => (cs.splitOn ",").mapM Deadline.Call.ofTok
        | none => none
      if Deadline.handleCloses o then
        (st, verdictOf s!"calls={callsStr};closed=1" impl (some (stkRes impl "closed" == some "1")))
      else
        let prop := (match implCalls with | some cs => C01.dlHoldsOn cs | none => false) &&
          stkRes impl "rd" == some "0" && stkRes impl "wd" == some "0" &&
          stkRes impl "b2u" == some "1" && stkRes impl "u2b" == some "1"
        (st, verdictOf s!"calls={callsStr};rd=0;wd=0;b2u=1;u2b=1" impl (some prop))
    | none => (st, .bad "dl")
  | "rsrc" :: rest =>
    match (stkKV rest "st").bind stkLayers, stkNat rest "plen", (stkKV rest "segs").bind stkSegs, stkNat rest "r" with
    | some ws, some plen, some src, some r =>
      if plen = 0 ∨ !burstsPos ws then (st, .skip "buffer / burst 0") else
      -- limit.Reader / StatsConn / pass-through wrappers: Limit.readW; C01.reader_any_source, stats_count_all
      let rs := drainW ws plen (srcFuel src) src
      let endS := match rs.getLast? with
        | some x => if x.err == PErr.none then "max" else stkPErr x.err
        | none => "max"
      let toks := r == 0 && nLim ws != 0
      let sums := rs.map (·.reqs.sum)
      let m := s!"rd={stkJoinNat "/" (rs.map (·.got.length))};req={if toks then stkJoinNat "/" sums else "-"};end={endS};cat=1;cnt={if ws.contains .stats then toString (statsCount rs) else "-"}"
      let prop := match (stkRes impl "rd").bind (stkNatList "/"), stkRes impl "req", stkRes impl "end", stkRes impl "cnt" with
        | some ns, some rq, some e, some cnt =>
          let reqs : Option (Option (List Nat)) := if rq = "-" then some none else (stkNatList "/" rq).map some
          let cnt' : Option (Option Nat) := if cnt = "-" then some none else cnt.toNat?.map some
          match reqs, cnt' with
          | some reqs, some cnt' =>
            -- transparency and: every byte that went through was charged, those that came with an error included
            -- (C01.reader_any_source, reader_charged)
            C01.rsrcHoldsOn (effK ws plen) src ns reqs (stkPErrOf e) (stkRes impl "cat" == some "1") cnt' &&
              C01.rsrcChargedOn ns reqs
          | _, _ => false
        | _, _, _, _ => false
      (st, verdictOf m impl (some prop))
    | _, _, _, _ => (st, .bad "rsrc")
  | "wsnk" :: rest =>
    match (stkKV rest "st").bind stkLayers, (stkKV rest "w").bind (stkNatList ","), (stkKV rest "sink").bind stkSink, stkNat rest "r" with
    | some ws, some lens, some ss, some r =>
      if !limPos ws then (st, .skip "burst 0") else
      -- limit.Writer / StatsConn / pass-through wrappers over a scripted sink: Limit.writeW; C01.writer_any_sink
      let ps := stkPieces 0 lens
      let outs := writeManyW ws ss ps
      let toks := r == 0 && (limOf ws).isSome
      let call (o : WRes) : String :=
        let n := o.took.length
        let counts := (List.range n).zip o.took |>.map fun (i, k) => if i + 1 == n && o.err == .sink then s!"{k}!" else toString k
        s!"{o.n}:{stkWErr o.err}:{stkJoinNat "/" (o.offered.map List.length)}:{"/".intercalate counts}:{if toks then stkJoinNat "/" o.reqs else "-"}"
      let total := (outs.map (·.n)).sum
      let cat := (outs.map WRes.accepted).flatten == ps.flatten.take total
      let m := s!"c={"|".intercalate (outs.map call)};cat={stkBit cat};cnt={if ws.contains .stats then toString total else "-"}"
      -- a sink that breaks the io.Writer contract is outside what C01 speaks about: compared with the model only
      let prop : Option Bool := if ss.any (·.lax) then none else
        some (match (stkRes impl "c").bind (fun c => stkZipWS lens (c.splitOn "|")) with
          | some obs => C01.wsnkHoldsOn obs (stkRes impl "cat" == some "1") &&
              (match stkRes impl "cnt" with
               | some "-" => true
               | some c => c.toNat? == some (obs.map (·.n)).sum
               | none => false)
          | none => false)
      (st, verdictOf m impl prop)
    | _, _, _, _ => (st, .bad "wsnk")
  | "tail" :: rest =>
    match stkNat rest "n", stkKV rest "fin" with
    | some n, some fin =>
      -- the half-tunnel's stack over ANY source of the wire bytes: C01.reader_any_source under tunnel_*_complete
      let prop := stkRes impl "pre" == some "1" && stkRes impl "eof" == some "1" &&
        (match stkResNat impl "got" with
         | some g => if fin = "E" ∨ fin = "e" then g == n else decide (g ≤ n)
         | none => false)
      (st, verdictOf s!"got={n};eof=1;pre=1" impl (some prop))
    | _, _ => (st, .bad "tail")
  | "qclose" :: rest =>
    match stkNat rest "n" with
    | some n =>
      -- (*wrapQuicStream).Close: QuicStream.wrapperClose; C01.quic_close_delivers
      let m := s!"calls={",".intercalate (QuicStream.wrapperClose.map QuicStream.Call.name)};got={n};eof=1;eq=1"
      let implCalls : Option (List QuicStream.Call) := match stkRes impl "calls" with
        | some "" => some []
        | some cs => (cs.splitOn ",").mapM fun c => QuicStream.Call.ofSrc ("Stream." ++ c)
        | none => none
      let prop := match implCalls, stkResNat impl "got" with
        | some cs, some got => C01.quicHoldsOn cs n got (stkRes impl "eof" == some "1") (stkRes impl "eq" == some "1")
        | _, _ => false
      (st, verdictOf m impl (some prop))
    | none => (st, .bad "qclose")
  | _ => (st, .bad "unknown op")

def stack : Engine := { State := Unit, init := (), step := stackStep }

end Engines
end Frp
