import Frp.Driver.Proto
import Frp.Model.Host
import Frp.Props.C06
import Frp.Props.C06Conn
/-
  Driver engine "router": replays the harness trace on the Router / Host models and evaluates the
  C06 predicate on the implementation's answers.
-/
namespace Frp
namespace Engines
open Proto Router Str

structure RouterState where
  R    : Routers := Router.empty
  all  : List Route := []               -- enumeration of R (kept by add/del below)
  M    : Routers := Router.empty
  mall : List Route := []
  -- client connections (copen / creq / cclose): the model's connection table and how each was opened
  cs    : HttpConn.Conns := []
  forms : List (Nat × String) := []

def delAll (all : List Route) (d l u : Str) : List Route :=
  all.filter (fun r => ¬ (r.domain = toLower d ∧ r.user = u ∧ r.location = l))

def asciiAll (ts : List Str) : Bool := ts.all Str.isAscii

def resOfString (s : String) : Option (Option Nat) :=
  if s = "none" then some none else (s.toNat?).map some

def routerPort (t : String) : Option (Option Str) :=
  if t = "-" then some none else (unhx t).map some

/-- the model server over the engine's table (registration numbers = the ids of the `add` ops); the transport's
    pool is left empty: by `C06.wrapped_own_route` the answer does not depend on it -/
def srvOf (R : Routers) : HttpConn.Srv := { R := R, next := 0, pool := [] }

/-- `<h1|h2>:<id|none>` → the answering registration -/
def connRes (s : String) : Option (Option Nat) :=
  if s.startsWith "h1:" ∨ s.startsWith "h2:" then resOfString (String.ofList (s.toList.drop 3)) else none

/-- one request on client connection `c` through `HttpConn.step` (code as it is: `never`); the C06 predicate is
    evaluated on the registration that answered in the implementation -/
def connReq (st : RouterState) (c : Nat) (upgrade : Bool) (n : Str) (d : String) (p : Option Str) (path u : Str)
    (impl : String) : RouterState × Verdict :=
  let q : HttpConn.Req := { host := C06.spell n (d = "1") p, path := path, user := u, peer := c }
  let r := HttpConn.step HttpConn.never (srvOf st.R) st.cs (.req c upgrade q false)
  let proto := match r.2.1.lookup c with | some (some _) => "h2:" | _ => "h1:"
  let ms := proto ++ (match r.2.2 with | some (some x) => toString x | _ => "none")
  let prop := if C06.PlainName n ∧ C06.PortPlain p
    then (connRes impl).map (fun a => C06.holdsOn st.all (toLower n) path u a) else none
  ({ st with cs := r.2.1 }, verdictOf ms impl prop)

def routerStep (st : RouterState) (tok : List String) (impl : String) : RouterState × Verdict :=
  match tok with
  | ["reset"] => ({}, verdictOf "-" impl)
  | ["add", d, l, u, id] =>
    match unhx d, unhx l, unhx u, id.toNat? with
    | some d, some l, some u, some id =>
      if !asciiAll [d] then (st, .skip "non-ascii") else
      let (R', res) := add st.R d l u id
      let all' := match res with
        | .ok => { domain := toLower d, location := l, user := u, payload := id : Route } :: st.all
        | .conflict => st.all
      ({ st with R := R', all := all' }, verdictOf (if res = .ok then "ok" else "conflict") impl)
    | _, _, _, _ => (st, .bad "add")
  | ["del", d, l, u] =>
    match unhx d, unhx l, unhx u with
    | some d, some l, some u =>
      if !asciiAll [d] then (st, .skip "non-ascii") else
      ({ st with R := del st.R d l u, all := delAll st.all d l u }, verdictOf "-" impl)
    | _, _, _ => (st, .bad "del")
  | ["get", h, p, u] =>
    match unhx h, unhx p, unhx u with
    | some h, some p, some u =>
      if !asciiAll [h] then (st, .skip "non-ascii") else
      let m := (getVhost st.R h p u).map (·.payload)
      let ms := match m with | none => "none" | some x => toString x
      let prop := (resOfString impl).map (fun r => C06.holdsOn st.all h p u r)
      (st, verdictOf ms impl prop)
    | _, _, _ => (st, .bad "get")
  | ["madd", d, l, u, id] =>
    match unhx d, unhx l, unhx u, id.toNat? with
    | some d, some l, some u, some id =>
      if !asciiAll [d] then (st, .skip "non-ascii") else
      let (M', res) := add st.M d l u id
      let all' := match res with
        | .ok => { domain := toLower d, location := l, user := u, payload := id : Route } :: st.mall
        | .conflict => st.mall
      ({ st with M := M', mall := all' }, verdictOf (if res = .ok then "ok" else "conflict") impl)
    | _, _, _, _ => (st, .bad "madd")
  | ["mdel", id] =>
    match id.toNat? with
    | some id =>
      match st.mall.find? (·.payload = id) with
      | none => (st, verdictOf "unknown" impl)
      | some r =>
        -- Listener.Close deletes by the *original* (name, location, user); Del lower-cases again
        ({ st with M := del st.M r.domain r.location r.user,
                   mall := st.mall.filter (fun x => x.payload ≠ id) }, verdictOf "-" impl)
    | none => (st, .bad "mdel")
  | ["mget", h, p, u] =>
    match unhx h, unhx p, unhx u with
    | some h, some p, some u =>
      if !asciiAll [h] then (st, .skip "non-ascii") else
      let m := (getVhost st.M h p u).map (·.payload)
      let ms := match m with | none => "none" | some x => toString x
      let prop := (resOfString impl).map (fun r => C06.holdsOn st.mall h p u r)
      (st, verdictOf ms impl prop)
    | _, _, _ => (st, .bad "mget")
  | ["canon", h] =>
    match unhx h with
    | some h =>
      if !asciiAll [h] then (st, .skip "non-ascii") else
      let ms := match Host.canonicalHost h with | none => "err" | some x => hx x
      (st, verdictOf ms impl)
    | none => (st, .bad "canon")
  | ["spell", n, d, p] =>
    -- CanonicalHost of a spelling (name in any case, optional trailing dot, optional port suffix);
    -- the property: a plain name's spellings all canonicalise to the lower-case name
    match unhx n, routerPort p with
    | some n, some p =>
      if !asciiAll (n :: p.toList) then (st, .skip "non-ascii") else
      let ms := match Host.canonicalHost (C06.spell n (d = "1") p) with | none => "err" | some x => hx x
      let res : Option (Option Str) := if impl = "err" then some none else (unhx impl).map some
      let prop := if C06.PlainName n ∧ C06.PortPlain p then res.map (fun r => C06.spellHoldsOn n p r) else none
      (st, verdictOf ms impl prop)
    | _, _ => (st, .bad "spell")
  | ["hreq", n, d, p, path, u] =>
    -- a real request through HTTPReverseProxy.ServeHTTP whose Host header is a spelling of `n`
    match unhx n, routerPort p, unhx path, unhx u with
    | some n, some p, some path, some u =>
      if !asciiAll (n :: p.toList) then (st, .skip "non-ascii") else
      let canon := (Host.canonicalHost (C06.spell n (d = "1") p)).getD []
      let m := (getVhost st.R canon path u).map (·.payload)
      let ms := match m with | none => "none" | some x => toString x
      let prop := if C06.PlainName n ∧ C06.PortPlain p
        then (resOfString impl).map (fun r => C06.holdsOn st.all (toLower n) path u r) else none
      (st, verdictOf ms impl prop)
    | _, _, _, _ => (st, .bad "hreq")
  | ["copen", c, form, n, d, p, path, u] =>
    match c.toNat?, unhx n, routerPort p, unhx path, unhx u with
    | some c, some n, some p, some path, some u =>
      let st := { st with cs := st.cs.filter (fun e => e.1 ≠ c), forms := st.forms.filter (fun e => e.1 ≠ c) }
      if form = "p" then
        -- prior knowledge: HTTP/2 only if the pseudo request `PRI *` resolves to a route
        let r := HttpConn.step HttpConn.never (srvOf st.R) st.cs (.pri c)
        match r.2.1.lookup c with
        | some (some _) => ({ st with cs := r.2.1, forms := (c, form) :: st.forms }, verdictOf "pri" impl)
        | _ => ({ st with cs := r.2.1 }, verdictOf "dead" impl)
      else if path.head? ≠ some 47 then (st, verdictOf "badpath" impl)
      else if !asciiAll (n :: p.toList) then (st, .skip "non-ascii")
      else connReq { st with forms := (c, form) :: st.forms } c (form = "u") n d p path u impl
    | _, _, _, _, _ => (st, .bad "copen")
  | ["creq", c, n, d, p, path, u] =>
    match c.toNat?, unhx n, routerPort p, unhx path, unhx u with
    | some c, some n, some p, some path, some u =>
      match st.forms.lookup c with
      | none => (st, verdictOf "gone" impl)
      | some form =>
        if path.head? ≠ some 47 then (st, verdictOf "badpath" impl)
        else if !asciiAll (n :: p.toList) then (st, .skip "non-ascii")
        else connReq st c (form = "u") n d p path u impl
    | _, _, _, _, _ => (st, .bad "creq")
  | ["cclose", c] =>
    match c.toNat? with
    | some c =>
      ({ st with cs := (HttpConn.step HttpConn.never (srvOf st.R) st.cs (.close c)).2.1,
                 forms := st.forms.filter (fun e => e.1 ≠ c) }, verdictOf "-" impl)
    | none => (st, .bad "cclose")
  | _ => (st, .bad "op")

def router : Engine := { State := RouterState, init := {}, step := routerStep }

end Engines
end Frp
