import Frp.Driver.Proto
import Frp.Model.Host
import Frp.Props.C06
/-
  Driver engine "router": replays the harness trace on the Router / Host models and evaluates the
  C06 predicate on the implementation's answers.
-/
namespace Frp
namespace Engines
open Proto Router Str

structure RouterState where
  R    : Routers := Router.empty
  all  : List Route := []               -- enumeration of R (kept by add/del below)
  M    : Routers := Router.empty
  mall : List Route := []

def delAll (all : List Route) (d l u : Str) : List Route :=
  all.filter (fun r => ¬ (r.domain = toLower d ∧ r.user = u ∧ r.location = l))

def asciiAll (ts : List Str) : Bool := ts.all Str.isAscii

def resOfString (s : String) : Option (Option Nat) :=
  if s = "none" then some none else (s.toNat?).map some

def routerStep (st : RouterState) (tok : List String) (impl : String) : RouterState × Verdict :=
  match tok with
  | ["reset"] => ({}, verdictOf "-" impl)
  | ["add", d, l, u, id] =>
    match unhx d, unhx l, unhx u, id.toNat? with
    | some d, some l, some u, some id =>
      if !asciiAll [d] then (st, .skip "non-ascii") else
      let (R', res) := add st.R d l u id
      let all' := match res with
        | .ok => { domain := toLower d, location := l, user := u, payload := id : Route } :: st.all
        | .conflict => st.all
      ({ st with R := R', all := all' }, verdictOf (if res = .ok then "ok" else "conflict") impl)
    | _, _, _, _ => (st, .bad "add")
  | ["del", d, l, u] =>
    match unhx d, unhx l, unhx u with
    | some d, some l, some u =>
      if !asciiAll [d] then (st, .skip "non-ascii") else
      ({ st with R := del st.R d l u, all := delAll st.all d l u }, verdictOf "-" impl)
    | _, _, _ => (st, .bad "del")
  | ["get", h, p, u] =>
    match unhx h, unhx p, unhx u with
    | some h, some p, some u =>
      if !asciiAll [h] then (st, .skip "non-ascii") else
      let m := (getVhost st.R h p u).map (·.payload)
      let ms := match m with | none => "none" | some x => toString x
      let prop := (resOfString impl).map (fun r => C06.holdsOn st.all h p u r)
      (st, verdictOf ms impl prop)
    | _, _, _ => (st, .bad "get")
  | ["madd", d, l, u, id] =>
    match unhx d, unhx l, unhx u, id.toNat? with
    | some d, some l, some u, some id =>
      if !asciiAll [d] then (st, .skip "non-ascii") else
      let (M', res) := add st.M d l u id
      let all' := match res with
        | .ok => { domain := toLower d, location := l, user := u, payload := id : Route } :: st.mall
        | .conflict => st.mall
      ({ st with M := M', mall := all' }, verdictOf (if res = .ok then "ok" else "conflict") impl)
    | _, _, _, _ => (st, .bad "madd")
  | ["mdel", id] =>
    match id.toNat? with
    | some id =>
      match st.mall.find? (·.payload = id) with
      | none => (st, verdictOf "unknown" impl)
      | some r =>
        -- Listener.Close deletes by the *original* (name, location, user); Del lower-cases again
        ({ st with M := del st.M r.domain r.location r.user,
                   mall := st.mall.filter (fun x => x.payload ≠ id) }, verdictOf "-" impl)
    | none => (st, .bad "mdel")
  | ["mget", h, p, u] =>
    match unhx h, unhx p, unhx u with
    | some h, some p, some u =>
      if !asciiAll [h] then (st, .skip "non-ascii") else
      let m := (getVhost st.M h p u).map (·.payload)
      let ms := match m with | none => "none" | some x => toString x
      let prop := (resOfString impl).map (fun r => C06.holdsOn st.mall h p u r)
      (st, verdictOf ms impl prop)
    | _, _, _ => (st, .bad "mget")
  | ["canon", h] =>
    match unhx h with
    | some h =>
      if !asciiAll [h] then (st, .skip "non-ascii") else
      let ms := match Host.canonicalHost h with | none => "err" | some x => hx x
      (st, verdictOf ms impl)
    | none => (st, .bad "canon")
  | _ => (st, .bad "op")

def router : Engine := { State := RouterState, init := {}, step := routerStep }

end Engines
end Frp
