import Frp.Driver.Proto
import Frp.Model.PluginChain
import Frp.Props.C15
/-
  Driver engine "plugin": replays the harness trace (real `plugin.Manager`, stub plugins and real
  `httpPlugin`s against a scripted HTTP server) on `Frp.PluginChain` and evaluates the C15
  predicates (`C15.holdsOn`, `C15.closeHoldsOn`) on the implementation's own result.

    reset                                        => -
    reg <id> <ops> <kind> <x1> <x2>              => -
    call <Op> <a> <b>                            => <res> | <consulted>
    site <…>                                     => `siteExpected`
    sess <user> <script>                         => `sessExpected`
      res       = ok <a'> <b'> | err <msg> | panic          (gated ops)
                = ok | errs <id,id,…>                       (CloseProxy)
      consulted = - | <id>:<a>:<b>,<id>:<a>:<b>,…           (Handle calls, in order, content seen)
-/
namespace Frp
namespace Engines
open Proto PluginChain

structure PluginState where
  regs : List (Plugin Content) := []          -- every Register call, in order
  mgr : Manager Content := {}

def opOfString (s : String) : Option Op :=
  match s with
  | "Login" => some .login
  | "NewProxy" => some .newProxy
  | "CloseProxy" => some .closeProxy
  | "Ping" => some .ping
  | "NewWorkConn" => some .newWorkConn
  | "NewUserConn" => some .newUserConn
  | _ => none

def behOf (kind : String) (x1 x2 : Str) : Option Beh :=
  match kind with
  | "acc" => some .acc
  | "accC" => some (.accC x1)
  | "app" => some (.app x1)
  | "setb" => some (.setb x1)
  | "zero" => some .zero
  | "rej" => some (.rej x1)
  | "rejmod" => some (.rejmod x1 x2)
  | "err" => some .err
  | "nil" => some .nil
  | "rejsuf" => some (.rejsuf x1 x2)
  | "errsuf" => some (.errsuf x1)
  | "hacc" => some .hacc
  | "hct" => some (.happ x1)          -- as happ, answered with Content-Type: text/plain (not checked by http.go)
  | "happ" => some (.happ x1)
  | "hpart" => some (.hpart x1)
  | "haccC" => some (.haccC x1)
  | "hrej" => some (.hrej x1)
  | "hrejU" => some (.hrejU x1)
  | "hempty" => some .hempty
  | "hnull" => some .hnull
  | "hcnull" => some .hcnull
  | "hcnullU" => some .hcnullU
  | "hcstr" => some .hcstr
  | "hbadfield" => some .hbadfield
  | "hmal" => some .hmal
  | "htrunc" => some .htrunc
  | "hreset" => some .hconn
  | "hrefused" => some .hconn
  | "hrejsuf" => some (.hrejsuf x1 x2)
  | "herrsuf" => some (.herrsuf x1)
  | k => if k.startsWith "hs" then (k.drop 2).toString.toNat?.map .hstatus else none

def parseOps (s : String) : List Str :=
  if s = "-" then [] else (s.splitOn ",").map Str.ofString

def renderSeen (l : List (Seen Content)) : String :=
  if l.isEmpty then "-"
  else ",".intercalate (l.map (fun e => s!"{e.1}:{hx e.2.a}:{hx e.2.b}"))

def renderRes : Result Content → String
  | .ok c => s!"ok {hx c.a} {hx c.b}"
  | .error m => s!"err {hx m}"
  | .panic => "panic"

def renderClose : CloseResult → String
  | .ok => "ok"
  | .errs ids => "errs " ++ ",".intercalate (ids.map toString)

def parseSeen (s : String) : Option (List (Seen Content)) :=
  if s = "-" then some [] else
  (s.splitOn ",").mapM (fun e =>
    match e.splitOn ":" with
    | [i, a, b] => do
      let i ← i.toNat?
      let a ← unhx a
      let b ← unhx b
      pure (i, (⟨a, b⟩ : Content))
    | _ => none)

def parseRes (s : String) : Option (Result Content) :=
  match s.splitOn " " with
  | ["ok", a, b] => do
    let a ← unhx a
    let b ← unhx b
    pure (.ok ⟨a, b⟩)
  | ["err", m] => (unhx m).map .error
  | ["panic"] => some .panic
  | _ => none

def parseClose (s : String) : Option CloseResult :=
  match s.splitOn " " with
  | ["ok"] => some .ok
  | ["errs", ids] => ((ids.splitOn ",").mapM (fun (t : String) => t.toNat?)).map .errs
  | _ => none


/-! ### `site`: the gated call sites of a real server.Service (see harness/eng_plugin_site.go)

  The scenario is replayed on the model manager step by step.  Where the server may still refuse
  after the plugins passed (token check after Login, proxy registration after NewProxy, visitor
  not admitted) the implementation's observed outcome is taken over (relationally); where the
  chain refuses, the operation must be refused; every request the plugin server received must be
  the model's `Handle` call list. -/

/-- the requests the plugin server saw for one manager call; `:R0` marks a reply "reject with an
    empty reject_reason"; `blank`: the b member is an ephemeral address, not compared -/
def wireOf (name : String) (op : Op) (R : List (Plugin Content)) (blank : Bool)
    (l : List (Seen Content)) : List String :=
  (l.zip R).map (fun (e, p) =>
    let mark := match p.handle op e.2 with
      | .resp true [] _ _ => ":R0"
      | _ => ""
    s!"{name}:{e.1}:{hx e.2.a}:{hx (if blank then [] else e.2.b)}{mark}")

def fieldOf (fs : List String) (k : String) : String :=
  match fs.find? (·.startsWith (k ++ "=")) with
  | some f => (f.drop (k.length + 1)).toString
  | none => "?"

/-- what the peer reads in the `Error` member (detailedErrorsToClient = true, the default):
    some true = no error text, i.e. "success" -/
def peerSeesOk (r : Result Content) : Option Bool :=
  match r with
  | .ok _ => some true
  | .error m => some (respError true [1] m).isEmpty   -- [1]: every call site passes a non-empty summary
  | .panic => none

/-- (expected result line, no refusal was reported to the peer as success);
    none when the model panics somewhere (the harness does not run those chains) -/
def siteExpected (m : Manager Content) (u p : Str) (x : String) (impl : String) :
    Option (String × Bool) :=
  let obs := match impl.splitOn " | " with
    | [r, _] => r.splitOn ";"
    | _ => []
  let fin (L N P U W : String) (wire : List String) : String :=
    s!"L={L};N={N};P={P};U={U};W={W};X={x} | " ++ (if wire.isEmpty then "-" else ",".intercalate wire)
  let okS (b : Bool) : String := if b then "ok" else "no"
  let rL := m.login ⟨u, []⟩
  let wL := wireOf "Login" .login m.loginPlugins true rL.2
  match rL.1 with
  | .panic => none
  | .error msg =>
    -- the refusal is reported through `respError` (never empty since /repo fix e4ec556; with the
    -- old `respErrorOld` an empty reject reason was read as "ok" and the connection then dropped)
    if (respError true [1] msg).isEmpty then some (fin "ok" "closed" "-" "-" "-" wL, false)
    else some (fin "no" "-" "-" "-" "-" wL, true)
  | .ok cL =>
    if fieldOf obs "L" = "no" then some (fin "no" "-" "-" "-" "-" wL, true) else   -- refused after the plugins (auth)
    let user := cL.a
    let rN := m.newProxy ⟨p, user⟩
    let wN := wireOf "NewProxy" .newProxy m.newProxyPlugins false rN.2
    let rP := m.ping ⟨[], user⟩
    let wP := wireOf "Ping" .ping m.pingPlugins false rP.2
    let rW := m.newWorkConn ⟨Str.ofString "r1", user⟩
    let wW := wireOf "NewWorkConn" .newWorkConn m.newWorkConnPlugins false rW.2
    match peerSeesOk rN.1, peerSeesOk rP.1, peerSeesOk rW.1 with
    | some nOk, some pOk, some wOk =>
      let silent := (nOk && !rN.1.isOk) || (pOk && !rP.1.isOk) || (wOk && !rW.1.isOk)
      let P := okS pOk
      let W := okS wOk
      match rN.1 with
      | .ok cN =>
        if fieldOf obs "N" = "no" then                           -- registration failed after the plugins
          some (fin "ok" "no" P "-" W (wL ++ wN ++ wP ++ wW), !silent)
        else
          let name := cN.a
          let N := "ok:" ++ hx name
          let rC := m.closeProxy ⟨name, user⟩
          let wC := wireOf "CloseProxy" .closeProxy m.closeProxyPlugins false rC.2
          if fieldOf obs "U" = "-" then                          -- the visitor was not admitted: no user connection
            some (fin "ok" N P "-" W (wL ++ wN ++ wP ++ wW ++ wC), !silent)
          else
            let rU := m.newUserConn ⟨name, []⟩
            let wU := wireOf "NewUserConn" .newUserConn m.newUserConnPlugins true rU.2
            match rU.1 with
            | .panic => none
            | r => some (fin "ok" N P (okS r.isOk) W (wL ++ wN ++ wP ++ wU ++ wW ++ wC), !silent)
      | _ =>
        -- refused by the chain: not registered; the peer reads NewProxyResp{ProxyName: p, Error}
        let N := if nOk then "ok:" ++ hx p else "no"
        some (fin "ok" N P "-" W (wL ++ wN ++ wP ++ wW), !silent)
    | _, _, _ => none

/-! ### `sess`: one session with several proxies (see harness/eng_plugin_sess.go)

  Login, then a script of NewProxy / CloseProxy messages, then the end of the session.  The session's
  bookkeeping and its notification goroutines are the proved `SessP` (`C15.sessP_notes`,
  `C15.notify_all_schedules`); which registrations succeed after the NewProxy chain passed is taken
  over from the implementation (except that a name already registered must be refused).  The
  CloseProxy requests the plugin server received are judged by `C15.notifyHoldsOn`. -/

inductive SessTok
  | n (p : Str) | c (p : Str) | k (i : Nat)

def parseSessTok (t : String) : Option SessTok :=
  let rest := (t.drop 1).toString
  if t.startsWith "n" then (unhx rest).map .n
  else if t.startsWith "c" then (unhx rest).map .c
  else if t.startsWith "k" then rest.toNat?.map .k
  else none

def parseScript (s : String) : Option (List SessTok) :=
  if s = "-" then some [] else (s.splitOn ",").mapM parseSessTok

structure SessAcc where
  sp : SessP Content := {}
  refs : List Str := []          -- per step: the name a later `k i` refers to
  res : List String := []
  wN : List String := []
  reported : Bool := true
  obs : List String              -- the implementation's per-step results not yet consumed
  panics : Bool := false

/-- the CloseProxy requests of the implementation's wire as `Handle` calls -/
def parseCloseWire (w : String) : Option (List (Seen Content)) :=
  if w = "-" then some [] else
  ((w.splitOn ",").filter (·.startsWith "CloseProxy:")).mapM (fun e =>
    match e.splitOn ":" with
    | _ :: i :: a :: b :: _ => do
      let i ← i.toNat?
      let a ← unhx a
      let b ← unhx b
      pure (i, (⟨a, b⟩ : Content))
    | _ => none)

/-- (expected result line, property predicate on the implementation's own wire) -/
def sessExpected (m : Manager Content) (u : Str) (script : List SessTok) (impl : String) :
    Option (String × Bool) :=
  let (obsRes, obsWire) := match impl.splitOn " | " with
    | [r, w] => (r.splitOn ";", w)
    | _ => ([], "-")
  let fin (L : String) (S : List String) (wire : List String) : String :=
    s!"L={L};S={if S.isEmpty then "-" else ",".intercalate S} | " ++
      (if wire.isEmpty then "-" else ",".intercalate wire)
  let rL := m.login ⟨u, []⟩
  let wL := wireOf "Login" .login m.loginPlugins true rL.2
  match rL.1 with
  | .panic => none
  | .error msg => some (fin "no" [] wL, !(respError true [1] msg).isEmpty)
  | .ok cL =>
    if fieldOf obsRes "L" = "no" then some (fin "no" [] wL, true) else
    let user := cL.a
    let R := m.closeProxyPlugins
    let mk : Str → Content := fun n => ⟨n, user⟩
    let close (a : SessAcc) (p : Str) : SessAcc :=
      { a with sp := a.sp.step R mk (.closeProxy p), refs := a.refs ++ [p], res := a.res ++ ["-"],
               obs := a.obs.drop 1 }
    let acc := script.foldl (fun (a : SessAcc) t =>
      match t with
      | .c p => close a p
      | .k i => close a (a.refs.getD i [])
      | .n p =>
        let rN := m.newProxy ⟨p, user⟩
        let a := { a with wN := a.wN ++ wireOf "NewProxy" .newProxy m.newProxyPlugins false rN.2 }
        let o := a.obs.headD "?"
        let a := { a with obs := a.obs.drop 1 }
        let no (a : SessAcc) : SessAcc := { a with refs := a.refs ++ [p], res := a.res ++ ["no"] }
        match rN.1 with
        | .panic => { a with panics := true }
        | .error msg => { no a with reported := a.reported && !(respError true [1] msg).isEmpty }
        | .ok cN =>
          let name := cN.a
          if a.sp.proxies.contains name then no a           -- RegisterProxy: the name is in use
          else if o = "no" then no a                        -- registration failed after the plugins
          else { a with sp := a.sp.step R mk (.newProxy name), refs := a.refs ++ [name],
                        res := a.res ++ ["ok:" ++ hx name] })
      ({ obs := (fieldOf obsRes "S").splitOn "," } : SessAcc)
    if acc.panics then none else
    let sp := acc.sp.step R mk .sessionEnd
    let wC := (sp.notes.flatMap (fun g => wireOf "CloseProxy" .closeProxy R false g)).mergeSort
      (fun a b => decide (a ≤ b))
    let prop := match parseCloseWire obsWire with
      | some obs => C15.notifyHoldsOn R mk sp.stopped obs
      | none => false
    some (fin "ok" acc.res (wL ++ acc.wN ++ wC), acc.reported && prop)

def pluginStep (st : PluginState) (tok : List String) (impl : String) : PluginState × Verdict :=
  match tok with
  | ["reset"] => ({}, verdictOf "-" impl)
  | ["reg", id, ops, kind, x1, x2] =>
    match id.toNat?, unhx x1, unhx x2 with
    | some id, some x1, some x2 =>
      match behOf kind x1 x2 with
      | some b =>
        let p := b.toPlugin id (parseOps ops)
        ({ regs := st.regs ++ [p], mgr := st.mgr.register p }, verdictOf "-" impl)
      | none => (st, .bad "reg kind")
    | _, _, _ => (st, .bad "reg")
  | ["call", op, a, b] =>
    match opOfString op, unhx a, unhx b with
    | some op, some a, some b =>
      let c : Content := ⟨a, b⟩
      let R := st.regs.filter (·.supports op)       -- the spec's notion of "registered for op"
      let parts := impl.splitOn " | "
      if op = .closeProxy then
        let r := st.mgr.closeProxy c
        let ms := renderClose r.1 ++ " | " ++ renderSeen r.2
        let prop := match parts with
          | [rs, cs] => (do
              let res ← parseClose rs
              let cons ← parseSeen cs
              pure (C15.closeHoldsOn R c res cons))
          | _ => none
        (st, verdictOf ms impl prop)
      else
        let r := st.mgr.call op c
        let ms := renderRes r.1 ++ " | " ++ renderSeen r.2
        let prop := match parts with
          | [rs, cs] => (do
              let res ← parseRes rs
              let cons ← parseSeen cs
              pure (C15.holdsOn op R c res cons))
          | _ => none
        (st, verdictOf ms impl prop)
    | _, _, _ => (st, .bad "call")
  | ["site", u, p, x] =>
    if impl.startsWith "skip" || impl.startsWith "infra" then (st, .skip impl) else
    if (impl.splitOn "timeout").length > 1 then (st, .skip "timeout") else
    match unhx u, unhx p with
    | some u, some p =>
      match siteExpected st.mgr u p x impl with
      | none => (st, .skip "model panics")
      | some (e, reported) => (st, verdictOf e impl (some (e == impl && reported)))
    | _, _ => (st, .bad "site")
  | ["sess", u, script] =>
    if impl.startsWith "skip" || impl.startsWith "infra" then (st, .skip impl) else
    match unhx u, parseScript script with
    | some u, some script =>
      match sessExpected st.mgr u script impl with
      | none => (st, .skip "model panics")
      | some (e, prop) => (st, verdictOf e impl (some (e == impl && prop)))
    | _, _ => (st, .bad "sess")
  | _ => (st, .bad "op")

def plugin : Engine := { State := PluginState, init := {}, step := pluginStep }

end Engines
end Frp
