import Frp.Driver.Proto
import Frp.Model.PluginChain
import Frp.Model.PluginSite
import Frp.Props.C15
/-
  Driver engine "plugin": replays the harness trace (real `plugin.Manager`, stub plugins and real
  `httpPlugin`s against a scripted HTTP server) on `Frp.PluginChain` and evaluates the C15
  predicates (`C15.holdsOn`, `C15.closeHoldsOn`) on the implementation's own result.

    reset                                        => -
    reg <id> <ops> <kind> <x1> <x2>              => -
    call <Op> <a> <b>                            => <res> | <consulted>
    site <…>                                     => `siteExpected`
    sess <user> <script>                         => `sessExpected`
    hist <script>                                => `histExpected`
      res       = ok <a'> <b'> | err <msg> | panic          (gated ops)
                = ok | errs <id,id,…>                       (CloseProxy)
      consulted = - | <id>:<a>:<b>,<id>:<a>:<b>,…           (Handle calls, in order, content seen)
-/
namespace Frp
namespace Engines
open Proto PluginChain

structure PluginState where
  regs : List (Plugin Content) := []          -- every Register call, in order
  mgr : Manager Content := {}

def opOfString (s : String) : Option Op :=
  match s with
  | "Login" => some .login
  | "NewProxy" => some .newProxy
  | "CloseProxy" => some .closeProxy
  | "Ping" => some .ping
  | "NewWorkConn" => some .newWorkConn
  | "NewUserConn" => some .newUserConn
  | _ => none

def behOf (kind : String) (x1 x2 : Str) : Option Beh :=
  match kind with
  | "acc" => some .acc
  | "accC" => some (.accC x1)
  | "app" => some (.app x1)
  | "setb" => some (.setb x1)
  | "zero" => some .zero
  | "rej" => some (.rej x1)
  | "rejmod" => some (.rejmod x1 x2)
  | "err" => some .err
  | "nil" => some .nil
  | "rejsuf" => some (.rejsuf x1 x2)
  | "errsuf" => some (.errsuf x1)
  | "hacc" => some .hacc
  | "hct" => some (.happ x1)          -- as happ, answered with Content-Type: text/plain (not checked by http.go)
  | "happ" => some (.happ x1)
  | "hpart" => some (.hpart x1)
  | "haccC" => some (.haccC x1)
  | "hrej" => some (.hrej x1)
  | "hrejU" => some (.hrejU x1)
  | "hempty" => some .hempty
  | "hnull" => some .hnull
  | "hcnull" => some .hcnull
  | "hcnullU" => some .hcnullU
  | "hcstr" => some .hcstr
  | "hbadfield" => some .hbadfield
  | "hmal" => some .hmal
  | "htrunc" => some .htrunc
  | "hreset" => some .hconn
  | "hrefused" => some .hconn
  | "hrejsuf" => some (.hrejsuf x1 x2)
  | "herrsuf" => some (.herrsuf x1)
  | "hxlat" => some (.hxlat x1 x2)
  | "hsub" => some (.hsub x1 x2)
  | k => if k.startsWith "hs" then (k.drop 2).toString.toNat?.map .hstatus else none

def parseOps (s : String) : List Str :=
  if s = "-" then [] else (s.splitOn ",").map Str.ofString

def renderSeen (l : List (Seen Content)) : String :=
  if l.isEmpty then "-"
  else ",".intercalate (l.map (fun e => s!"{e.1}:{hx e.2.a}:{hx e.2.b}"))

def renderRes : Result Content → String
  | .ok c => s!"ok {hx c.a} {hx c.b}"
  | .error m => s!"err {hx m}"
  | .panic => "panic"

def renderClose : CloseResult → String
  | .ok => "ok"
  | .errs ids => "errs " ++ ",".intercalate (ids.map toString)

def parseSeen (s : String) : Option (List (Seen Content)) :=
  if s = "-" then some [] else
  (s.splitOn ",").mapM (fun e =>
    match e.splitOn ":" with
    | [i, a, b] => do
      let i ← i.toNat?
      let a ← unhx a
      let b ← unhx b
      pure (i, (⟨a, b⟩ : Content))
    | _ => none)

def parseRes (s : String) : Option (Result Content) :=
  match s.splitOn " " with
  | ["ok", a, b] => do
    let a ← unhx a
    let b ← unhx b
    pure (.ok ⟨a, b⟩)
  | ["err", m] => (unhx m).map .error
  | ["panic"] => some .panic
  | _ => none

def parseClose (s : String) : Option CloseResult :=
  match s.splitOn " " with
  | ["ok"] => some .ok
  | ["errs", ids] => ((ids.splitOn ",").mapM (fun (t : String) => t.toNat?)).map .errs
  | _ => none


/-! ### `site`: the gated call sites of a real server.Service (see harness/eng_plugin_site.go)

  The scenario is replayed on the model manager step by step.  Where the server may still refuse
  after the plugins passed (token check after Login, proxy registration after NewProxy, visitor
  not admitted) the implementation's observed outcome is taken over (relationally); where the
  chain refuses, the operation must be refused; every request the plugin server received must be
  the model's `Handle` call list. -/

/-- the requests the plugin server saw for one manager call; `:R0` marks a reply "reject with an
    empty reject_reason"; `blank`: the b member is an ephemeral address, not compared -/
def wireOf (name : String) (op : Op) (R : List (Plugin Content)) (blank : Bool)
    (l : List (Seen Content)) : List String :=
  (l.zip R).map (fun (e, p) =>
    let mark := match p.handle op e.2 with
      | .resp true [] _ _ => ":R0"
      | _ => ""
    s!"{name}:{e.1}:{hx e.2.a}:{hx (if blank then [] else e.2.b)}{mark}")

def fieldOf (fs : List String) (k : String) : String :=
  match fs.find? (·.startsWith (k ++ "=")) with
  | some f => (f.drop (k.length + 1)).toString
  | none => "?"

/-- what the peer reads in the `Error` member (detailedErrorsToClient = true, the default):
    some true = no error text, i.e. "success" -/
def peerSeesOk (r : Result Content) : Option Bool :=
  match r with
  | .ok _ => some true
  | .error m => some (respError true [1] m).isEmpty   -- [1]: every call site passes a non-empty summary
  | .panic => none

/-- (expected result line, no refusal was reported to the peer as success);
    none when the model panics somewhere (the harness does not run those chains) -/
def siteExpected (m : Manager Content) (u p : Str) (x : String) (impl : String) :
    Option (String × Bool) :=
  let obs := match impl.splitOn " | " with
    | [r, _] => r.splitOn ";"
    | _ => []
  let fin (L N P U W : String) (wire : List String) : String :=
    s!"L={L};N={N};P={P};U={U};W={W};X={x} | " ++ (if wire.isEmpty then "-" else ",".intercalate wire)
  let okS (b : Bool) : String := if b then "ok" else "no"
  let rL := m.login ⟨u, []⟩
  let wL := wireOf "Login" .login m.loginPlugins true rL.2
  match rL.1 with
  | .panic => none
  | .error msg =>
    -- the refusal is reported through `respError` (never empty since /repo fix e4ec556; with the
    -- old `respErrorOld` an empty reject reason was read as "ok" and the connection then dropped)
    if (respError true [1] msg).isEmpty then some (fin "ok" "closed" "-" "-" "-" wL, false)
    else some (fin "no" "-" "-" "-" "-" wL, true)
  | .ok cL =>
    if fieldOf obs "L" = "no" then some (fin "no" "-" "-" "-" "-" wL, true) else   -- refused after the plugins (auth)
    let user := cL.a
    let rN := m.newProxy ⟨p, user⟩
    let wN := wireOf "NewProxy" .newProxy m.newProxyPlugins false rN.2
    let rP := m.ping ⟨[], user⟩
    let wP := wireOf "Ping" .ping m.pingPlugins false rP.2
    -- the scenario's work connection carries timestamp 0 and util.GetAuthKey("", 0) = md5("0")
    let rW := m.newWorkConn ⟨Str.ofString "cfcd208495d565ef66e7dff9f98764da", user⟩
    let wW := wireOf "NewWorkConn" .newWorkConn m.newWorkConnPlugins false rW.2
    match peerSeesOk rN.1, peerSeesOk rP.1, peerSeesOk rW.1 with
    | some nOk, some pOk, some wOk =>
      let silent := (nOk && !rN.1.isOk) || (pOk && !rP.1.isOk) || (wOk && !rW.1.isOk)
      let P := okS pOk
      let W := okS wOk
      match rN.1 with
      | .ok cN =>
        if fieldOf obs "N" = "no" then                           -- registration failed after the plugins
          some (fin "ok" "no" P "-" W (wL ++ wN ++ wP ++ wW), !silent)
        else
          let name := cN.a
          let N := "ok:" ++ hx name
          let rC := m.closeProxy ⟨name, user⟩
          let wC := wireOf "CloseProxy" .closeProxy m.closeProxyPlugins false rC.2
          if fieldOf obs "U" = "-" then                          -- the visitor was not admitted: no user connection
            some (fin "ok" N P "-" W (wL ++ wN ++ wP ++ wW ++ wC), !silent)
          else
            let rU := m.newUserConn ⟨name, []⟩
            let wU := wireOf "NewUserConn" .newUserConn m.newUserConnPlugins true rU.2
            match rU.1 with
            | .panic => none
            | r => some (fin "ok" N P (okS r.isOk) W (wL ++ wN ++ wP ++ wU ++ wW ++ wC), !silent)
      | _ =>
        -- refused by the chain: not registered; the peer reads NewProxyResp{ProxyName: p, Error}
        let N := if nOk then "ok:" ++ hx p else "no"
        some (fin "ok" N P "-" W (wL ++ wN ++ wP ++ wW), !silent)
    | _, _, _ => none

/-! ### `sess`: one session with several proxies (see harness/eng_plugin_sess.go)

  Login, then a script of NewProxy / CloseProxy messages, then the end of the session.  The session's
  bookkeeping and its notification goroutines are the proved `SessP` (`C15.sessP_notes`,
  `C15.notify_all_schedules`); which registrations succeed after the NewProxy chain passed is taken
  over from the implementation (except that a name already registered must be refused).  The
  CloseProxy requests the plugin server received are judged by `C15.notifyHoldsOn`. -/

inductive SessTok
  | n (p : Str) | c (p : Str) | k (i : Nat)

def parseSessTok (t : String) : Option SessTok :=
  let rest := (t.drop 1).toString
  if t.startsWith "n" then (unhx rest).map .n
  else if t.startsWith "c" then (unhx rest).map .c
  else if t.startsWith "k" then rest.toNat?.map .k
  else none

def parseScript (s : String) : Option (List SessTok) :=
  if s = "-" then some [] else (s.splitOn ",").mapM parseSessTok

structure SessAcc where
  sp : SessP Content := {}
  refs : List Str := []          -- per step: the name a later `k i` refers to
  res : List String := []
  wN : List String := []
  reported : Bool := true
  obs : List String              -- the implementation's per-step results not yet consumed
  panics : Bool := false

/-- the CloseProxy requests of the implementation's wire as `Handle` calls -/
def parseCloseWire (w : String) : Option (List (Seen Content)) :=
  if w = "-" then some [] else
  ((w.splitOn ",").filter (·.startsWith "CloseProxy:")).mapM (fun e =>
    match e.splitOn ":" with
    | _ :: i :: a :: b :: _ => do
      let i ← i.toNat?
      let a ← unhx a
      let b ← unhx b
      pure (i, (⟨a, b⟩ : Content))
    | _ => none)

/-- (expected result line, property predicate on the implementation's own wire) -/
def sessExpected (m : Manager Content) (u : Str) (script : List SessTok) (impl : String) :
    Option (String × Bool) :=
  let (obsRes, obsWire) := match impl.splitOn " | " with
    | [r, w] => (r.splitOn ";", w)
    | _ => ([], "-")
  let fin (L : String) (S : List String) (wire : List String) : String :=
    s!"L={L};S={if S.isEmpty then "-" else ",".intercalate S} | " ++
      (if wire.isEmpty then "-" else ",".intercalate wire)
  let rL := m.login ⟨u, []⟩
  let wL := wireOf "Login" .login m.loginPlugins true rL.2
  match rL.1 with
  | .panic => none
  | .error msg => some (fin "no" [] wL, !(respError true [1] msg).isEmpty)
  | .ok cL =>
    if fieldOf obsRes "L" = "no" then some (fin "no" [] wL, true) else
    let user := cL.a
    let R := m.closeProxyPlugins
    let mk : Str → Content := fun n => ⟨n, user⟩
    let close (a : SessAcc) (p : Str) : SessAcc :=
      { a with sp := a.sp.step R mk (.closeProxy p), refs := a.refs ++ [p], res := a.res ++ ["-"],
               obs := a.obs.drop 1 }
    let acc := script.foldl (fun (a : SessAcc) t =>
      match t with
      | .c p => close a p
      | .k i => close a (a.refs.getD i [])
      | .n p =>
        let rN := m.newProxy ⟨p, user⟩
        let a := { a with wN := a.wN ++ wireOf "NewProxy" .newProxy m.newProxyPlugins false rN.2 }
        let o := a.obs.headD "?"
        let a := { a with obs := a.obs.drop 1 }
        let no (a : SessAcc) : SessAcc := { a with refs := a.refs ++ [p], res := a.res ++ ["no"] }
        match rN.1 with
        | .panic => { a with panics := true }
        | .error msg => { no a with reported := a.reported && !(respError true [1] msg).isEmpty }
        | .ok cN =>
          let name := cN.a
          if a.sp.proxies.contains name then no a           -- RegisterProxy: the name is in use
          else if o = "no" then no a                        -- registration failed after the plugins
          else { a with sp := a.sp.step R mk (.newProxy name), refs := a.refs ++ [name],
                        res := a.res ++ ["ok:" ++ hx name] })
      ({ obs := (fieldOf obsRes "S").splitOn "," } : SessAcc)
    if acc.panics then none else
    let sp := acc.sp.step R mk .sessionEnd
    let wC := (sp.notes.flatMap (fun g => wireOf "CloseProxy" .closeProxy R false g)).mergeSort
      (fun a b => decide (a ≤ b))
    let prop := match parseCloseWire obsWire with
      | some obs => C15.notifyHoldsOn R mk sp.stopped obs
      | none => false
    some (fin "ok" acc.res (wL ++ acc.wN ++ wC), acc.reported && prop)

/-! ### `hist`: a history at the gated call sites of one real frps (see harness/eng_plugin_hist.go)

  Several control connections, logins of every kind (empty / literal / an earlier slot's run id: live
  ⇒ replacement, closed before ⇒ stale), behaviour flips of the registered plugins between steps,
  repeated NewProxy / Ping / user + work connections.  The state machine replayed is the proved
  `PluginSite.step` (`C15.site_proceeds_only_through_gate`, `C15.login_gated_every_kind`,
  `C15.session_user_is_login_rewrite`, …); what the server decides apart from the plugins (token check,
  proxy registration, the random run id) is taken over from the implementation.  Per step the requests
  the plugin server received and whether the peer saw the operation go on are judged by
  `C15.siteHoldsOn` (Login / NewUserConn: the address member is not compared).

  Credentials: Pings and work connections carry credentials (privilege key + timestamp as one string); an `A` step
  configures the HeartBeats / NewWorkConns auth scopes and names the credentials the verifier accepts.  The verdicts
  of VerifyPing / VerifyNewWorkConn are computed by `PluginSite.stepReq` from the content the chain RETURNED
  (`C15.ping_acts_on_rewritten`, `C15.workconn_acts_on_rewritten`), not taken over: a Pong / StartWorkConn that
  follows the original credentials instead fails the step.

  The heartbeat: a `P` result carries whether the session's `lastPing` moved (`+` / `=`, read through
  `Service.VerifAuthSessions`), judged by `C15.pingHoldsOn` (a Ping counts only if the chain passed).  A
  history may set the heartbeat timeout (`Z:<s>`) and let real time pass (`W:<ds>`, on an absolute schedule
  kept by the harness to within `hbSlack`); the model clock is `PluginSite.Srv.now` in deciseconds.  A
  session whose last counted heartbeat is `since` old must be alive while `since + hbSlack ≤ timeout`, must
  have been ended by its heartbeat worker when `since > timeout + hbPeriod + hbSlack` (`C15.expiryHoldsOn`
  on the implementation's own answer; `C15.unrenewed_session_is_dropped`), in between the observation is
  taken over. -/

inductive HRid
  | e | f (r : Str) | s (i : Nat)

/-- an occurrence of a `J` step: a user connection (+ its work connection, carrying `cred`) for the proxy of step
    `k`, a Ping on slot `i`, a NewProxy on slot `i` -/
inductive JItem
  | c (k : Option Nat) (cred : Str) | p (i : Nat) (cred : Str) | n (i : Nat) (name : Str)

/-- the plugin holding a request of item `j` answers | a plugin changes its mind -/
inductive JAct
  | r (j : Nat) | f (id : Nat) (b : Beh)

inductive HistTok
  | L (rid : HRid) (user : Str) | X (i : Nat) | F (id : Nat) (b : Beh)
  | N (i : Nat) (name : Str) | P (i : Nat) (key : Str) | C (k : Option Nat) (cred : Str)
  | Z (sec : Nat) | A (h w : Bool) (valid : List Str) | W (ds : Nat)
  | J (items : List JItem) (acts : List JAct)

/-- the period of the heartbeat worker (`wait.Until(…, time.Second, …)`, `C15.code_ping_store_gated`) and the
    tolerance of the harness' schedule, in deciseconds -/
def hbPeriod : Nat := 10
def hbSlack : Nat := 5

def parseJItem (t : String) : Option JItem :=
  let rest := ((t.drop 1).toString).splitOn "~"
  if t.startsWith "c" then
    match rest with
    | [k, c, _] => do
      let k ← (if k = "^" then some none else k.toNat?.map some)
      let c ← unhx c
      pure (.c k c)
    | _ => none
  else if t.startsWith "p" then
    match rest with
    | [i, c] => do
      let i ← i.toNat?
      let c ← unhx c
      pure (.p i c)
    | _ => none
  else if t.startsWith "n" then
    match rest with
    | [i, n] => do
      let i ← i.toNat?
      let n ← unhx n
      pure (.n i n)
    | _ => none
  else none

def parseJAct (t : String) : Option JAct :=
  if t.startsWith "r" then ((t.drop 1).toString.toNat?).map .r
  else if t.startsWith "f" then
    match ((t.drop 1).toString).splitOn "~" with
    | [id, kind, x1, x2] => do
      let id ← id.toNat?
      let x1 ← unhx x1
      let x2 ← unhx x2
      let b ← behOf kind x1 x2
      pure (.f id b)
    | _ => none
  else none

def parseHistTok (t : String) : Option HistTok :=
  match t.splitOn ":" with
  | ["L", r, u] => do
    let u ← unhx u
    let rest := (r.drop 1).toString
    let rid ← (if r = "e" then some HRid.e
      else if r.startsWith "f" then (unhx rest).map HRid.f
      else if r.startsWith "s" then rest.toNat?.map HRid.s
      else none)
    pure (.L rid u)
  | ["X", i] => i.toNat?.map .X
  | ["F", id, kind, x1, x2] => do
    let id ← id.toNat?
    let x1 ← unhx x1
    let x2 ← unhx x2
    let b ← behOf kind x1 x2
    pure (.F id b)
  | ["N", i, n] => do
    let i ← i.toNat?
    let n ← unhx n
    pure (.N i n)
  | ["P", i] => i.toNat?.map (.P · [])
  | ["P", i, k] => do
    let i ← i.toNat?
    let k ← unhx k
    pure (.P i k)
  | ["C", k] => k.toNat?.map (fun k => .C (some k) [])
  | ["C", k, c] => do
    let k ← (if k = "^" then some none else k.toNat?.map some)
    let c ← unhx c
    pure (.C k c)
  | ["Z", n] => n.toNat?.map .Z
  | ["A", sc, v] => do
    let valid ← (if v = "" then some [] else (v.splitOn "/").mapM unhx)
    if sc = "h" then pure (.A true false valid)
    else if sc = "w" then pure (.A false true valid)
    else if sc = "hw" then pure (.A true true valid)
    else none
  | ["J", items, acts] => do
    let items ← (items.splitOn "/").mapM parseJItem
    let acts ← (if acts = "-" || acts = "" then some [] else (acts.splitOn "/").mapM parseJAct)
    pure (.J items acts)
  | ["W", d] => d.toNat?.map .W
  | _ => none

def flipList (id : Nat) (b : Beh) (l : List (Plugin Content)) : List (Plugin Content) :=
  l.map (fun p => if p.id = id then { p with handle := fun _ c => b.handle c } else p)

/-- every plugin registered with this id answers with behaviour `b` from now on -/
def flipMgr (m : Manager Content) (id : Nat) (b : Beh) : Manager Content :=
  { loginPlugins := flipList id b m.loginPlugins
    newProxyPlugins := flipList id b m.newProxyPlugins
    closeProxyPlugins := flipList id b m.closeProxyPlugins
    pingPlugins := flipList id b m.pingPlugins
    newWorkConnPlugins := flipList id b m.newWorkConnPlugins
    newUserConnPlugins := flipList id b m.newUserConnPlugins }

structure HSlot where
  rid : Str            -- what a later `s<i>` refers to
  usable : Bool        -- the peer holds a logged-in control connection it has not closed itself

structure HAcc where
  srv : PluginSite.Srv := {}
  auth : PluginSite.Auth := {}      -- the credential check of this server (`A` step)
  mgr : Manager Content
  slots : List HSlot := []
  byStep : List (Option (Nat × Str)) := []     -- per step: an N step answered ok ↦ (slot, name)
  outs : List String := []
  wires : List String := []
  prop : Bool := true
  judge : Bool := true          -- false from the first step on whose outcome differs from the model's
  panics : Bool := false
  obsO : List String
  obsW : List String

/-- the requests of one step's wire whose op is `name`, as `Handle` calls -/
def parseStepWire (name : String) (w : String) : Option (List (Seen Content)) :=
  if w = "-" then some [] else
  ((w.splitOn "+").filter (·.startsWith (name ++ ":"))).mapM (fun e =>
    match e.splitOn ":" with
    | _ :: i :: a :: b :: _ => do
      let i ← i.toNat?
      let a ← unhx a
      let b ← unhx b
      pure (i, (⟨a, b⟩ : Content))
    | _ => none)

def blankB (c : Content) : Content := ⟨c.a, []⟩

/-- the property predicate for one visit, on the implementation's own wire and outcome -/
def evHolds (e : PluginSite.Ev Content) (name : String) (blank : Bool) (obsW : String) (obsProceeded : Bool) : Bool :=
  match parseStepWire name obsW with
  | some cons => C15.siteHoldsOn (if blank then blankB else id) e.op e.chain e.offered obsProceeded cons
  | none => false

def evWire (e : PluginSite.Ev Content) (name : String) (blank : Bool) : List String :=
  wireOf name e.op e.chain blank e.cons

def wireStr (wire : List String) : String := if wire.isEmpty then "-" else "+".intercalate wire

def HAcc.pushRaw (a : HAcc) (out : String) (wire : String) (propStep : Bool) (ref : Option (Nat × Str) := none) : HAcc :=
  { a with outs := a.outs ++ [out], wires := a.wires ++ [wire],
           byStep := a.byStep ++ [ref],
           -- `!…`: the heartbeat clock of a session moved in a step that was not a Ping of it
           -- (`C15.lastPing_only_through_gate`); the model never says so
           prop := a.prop && (!a.judge || (propStep && !(a.obsO.headD "?").contains '!')),
           judge := a.judge && out == a.obsO.headD "?",
           obsO := a.obsO.drop 1, obsW := a.obsW.drop 1 }

def HAcc.push (a : HAcc) (out : String) (wire : List String) (propStep : Bool) (ref : Option (Nat × Str) := none) : HAcc :=
  a.pushRaw out (wireStr wire) propStep ref

/-- the proxy a user connection is for: the one registered by step `k`, or (`none`) the one registered last among
    those whose session the peer still holds -/
def HAcc.proxyOf (a : HAcc) (srv : PluginSite.Srv) : Option Nat → Option (Nat × Str)
  | some k => (a.byStep[k]?).join
  | none =>
    (a.byStep.reverse.find? (fun r => match r with
      | some (slot, _) => ((a.slots[slot]?).map (·.usable)).getD false && (srv.bySlot slot).isSome
      | none => false)).join

def histIsPanic (e : PluginSite.Ev Content) : Bool :=
  match e.res with
  | .panic => true
  | _ => false

inductive ExpCls
  | live | maybe | must
  deriving DecidableEq

/-- what the heartbeat worker of `c` may / must have done by now -/
def expClass (s : PluginSite.Srv) (c : PluginSite.Ctl) : ExpCls :=
  let since := s.now - c.lastPing
  if s.hb = 0 || since + hbSlack ≤ s.hb then .live
  else if since > s.hb + hbPeriod + hbSlack then .must
  else .maybe

/-- the session on slot `i` is ended by its heartbeat worker (inside the slack window the run of the worker
    that the implementation made may be a little ahead of the model clock: then it is a closed connection) -/
def dropSlot (m : Manager Content) (s : PluginSite.Srv) (i : Nat) (c : PluginSite.Ctl) : PluginSite.Srv :=
  (PluginSite.step PluginSite.encContent m s (if s.expired c then .hbCheck i else .connClosed i)).1

/-- before an operation on slot `i`: did the heartbeat worker end that session?  `gone`: the peer found the
    connection closed.  some (state after the drop, `C15.expiryHoldsOn` on the observation) -/
def HAcc.expire (a : HAcc) (i : Nat) (gone : Bool) : Option (PluginSite.Srv × Bool) :=
  match a.srv.bySlot i with
  | none => none
  | some c =>
    let cls := expClass a.srv c
    if cls = .must || (cls = .maybe && gone) then
      some (dropSlot a.mgr a.srv i c,
        C15.expiryHoldsOn a.srv.hb hbPeriod hbSlack (a.srv.now - c.lastPing) (!gone))
    else none

def parseGone (o : String) : List Nat :=
  if o.startsWith "g" then ((o.drop 1).toString.splitOn "+").filterMap (·.toNat?) else []

/-- what one occurrence of a gated operation comes to: the result and the wire the model expects, the property
    predicate on the implementation's own observation (`o`, `w`), the server state afterwards -/
structure StepRes where
  out : String
  wire : List String
  prop : Bool
  srv : PluginSite.Srv
  ref : Option (Nat × Str) := none
  panics : Bool := false

def StepRes.panic (s : PluginSite.Srv) : StepRes := { out := "", wire := [], prop := true, srv := s, panics := true }

/-- a NewProxy on the live session of slot `i` under the manager `m` (registration apart from the name: taken over) -/
def judgeN (m : Manager Content) (srv : PluginSite.Srv) (i : Nat) (name : Str) (o w : String) : StepRes :=
  let r := PluginSite.step PluginSite.encContent m srv (.newProxy i name (o != "no"))
  match r.2 with
  | [] => { out := "closed", wire := [], prop := true, srv := srv }   -- that session was replaced: the server hung up
  | e :: _ =>
    if histIsPanic e then .panic srv else
    let regName : Str := match e.res with
      | .ok c => PluginSite.encContent.proxyName c
      | _ => []
    let out := if e.proceeded then "ok:" ++ hx regName else "no"
    -- a NewProxyResp without error: the name answered is the one of the content as rewritten
    let nameOk := !(o.startsWith "ok:") || (e.res.isOk && o == "ok:" ++ hx regName)
    { out := out, wire := evWire e "NewProxy" false,
      prop := evHolds e "NewProxy" false w (o.startsWith "ok:") && nameOk,
      srv := r.1, ref := if e.proceeded then some (i, regName) else none }

/-- a Ping carrying `cred` on the live session of slot `i`: the chain first, then VerifyPing on the credentials of
    the content the chain returned (`PluginSite.stepReq`, `C15.ping_acts_on_rewritten`) -/
def judgeP (A : PluginSite.Auth) (m : Manager Content) (srv : PluginSite.Srv) (i : Nat) (cred : Str) (o w : String) : StepRes :=
  let r := PluginSite.stepReq PluginSite.encContent A m srv (.ping i cred)
  match r.2 with
  | [] => { out := "closed", wire := [], prop := true, srv := srv }
  | e :: _ =>
    if histIsPanic e then .panic srv else
    -- `+`: the heartbeat was counted (`lastPing.Store`: the model does it exactly when it proceeds)
    let out := if e.proceeded then "ok+" else "no="
    let prop := match parseStepWire "Ping" w with
      | some cons => C15.pingHoldsOn id e.chain e.offered (o.startsWith "ok") (o.endsWith "+") cons
      | none => false
    -- the Pong follows the credentials AS REWRITTEN: a consenting chain whose output the verifier accepts must be
    -- answered without error, one whose output it does not accept with an error
    { out := out, wire := evWire e "Ping" false, prop := prop && (!e.res.isOk || o == out), srv := r.1 }

/-- a user connection for proxy `name` of the session on `slot`, and — once it was let through — the work connection
    carrying `cred`: the NewWorkConn chain first, then VerifyNewWorkConn on the credentials as the chain returned
    them (`C15.workconn_acts_on_rewritten`) -/
def judgeC (A : PluginSite.Auth) (m : Manager Content) (srv : PluginSite.Srv) (name : Str) (rid cred : Str) (o w : String) : StepRes :=
  let rU := PluginSite.step PluginSite.encContent m srv (.newUserConn name)
  match rU.2 with
  | [] => { out := "-", wire := [], prop := true, srv := srv }
  | eU :: _ =>
    if histIsPanic eU then .panic srv else
    let obsU := o.startsWith "ok/"
    let pU := evHolds eU "NewUserConn" true w obsU
    if !eU.proceeded then { out := "no/-", wire := evWire eU "NewUserConn" true, prop := pU, srv := srv } else
    let rW := PluginSite.stepReq PluginSite.encContent A m srv (.newWorkConn rid cred)
    match rW.2 with
    | [] => { out := "ok/eof", wire := evWire eU "NewUserConn" true, prop := pU, srv := srv }
    | eW :: _ =>
      if histIsPanic eW then .panic srv else
      let out := if eW.proceeded then "ok/ok" else "ok/no"
      { out := out, wire := evWire eU "NewUserConn" true ++ evWire eW "NewWorkConn" false,
        -- the work connection is started / refused as the REWRITTEN credentials deserve
        prop := pU && evHolds eW "NewWorkConn" false w (o == "ok/ok") &&
          ((o != "ok/ok" && o != "ok/no") || !eW.res.isOk || o == out),
        srv := srv }

/-! #### `J`: occurrences in flight together

  The plugin server holds every answer back until the script releases it.  Per occurrence the model keeps the plugins
  that have answered it so far, each AS IT ANSWERED THEN (behaviours may flip between two releases); the occurrence
  is through its chain as soon as one of them refuses or all have answered (`PluginSite.Flight`,
  `C15.flight_runs_gated`, `C15.concurrent_occurrences_gated`: what else is in flight changes nothing).  A finished
  occurrence is judged exactly like a lone one (`judgeC` / `judgeP` / `judgeN`), on the requests the plugin server
  received ABOUT IT (attributed by the harness through the occurrence's own content) and on its own outcome. -/

structure JFl where
  item : JItem
  o : String                                  -- the implementation's result for this item
  w : String                                  -- the requests the plugin server received about it
  slot : Nat := 0
  name : Str := []                            -- c: the proxy; n: the name asked for
  rid : Str := []
  user : Str := []
  phase : Nat := 0                            -- c: 0 = NewUserConn chain, 1 = NewWorkConn chain
  taken0 : List (Plugin Content) := []        -- the plugins that answered it (phase 0), as they answered
  taken1 : List (Plugin Content) := []
  done : Bool := false
  res : Option StepRes := none                -- once done

def JFl.op (f : JFl) : Op :=
  match f.item with
  | .c _ _ => if f.phase = 0 then .newUserConn else .newWorkConn
  | .p _ _ => .ping
  | .n _ _ => .newProxy

def JFl.offered (f : JFl) : Content :=
  match f.item with
  | .c _ cred => if f.phase = 0 then PluginSite.encContent.newUserConn f.name f.user
                 else PluginSite.encContent.newWorkConn cred f.user
  | .p _ cred => PluginSite.encContent.ping cred f.user
  | .n _ name => PluginSite.encContent.newProxy name f.user

def setList (m : Manager Content) (op : Op) (l : List (Plugin Content)) : Manager Content :=
  match op with
  | .login => { m with loginPlugins := l }
  | .newProxy => { m with newProxyPlugins := l }
  | .closeProxy => { m with closeProxyPlugins := l }
  | .ping => { m with pingPlugins := l }
  | .newWorkConn => { m with newWorkConnPlugins := l }
  | .newUserConn => { m with newUserConnPlugins := l }

/-- the chain of `op` as this occurrence met it: the plugins that answered it as they answered, the others (never
    asked: behind a refusal) as they are now -/
def effList (m : Manager Content) (op : Op) (taken : List (Plugin Content)) : List (Plugin Content) :=
  taken ++ (m.list op).drop taken.length

structure JAcc where
  srv : PluginSite.Srv
  mgr : Manager Content
  fls : List JFl
  panics : Bool := false

/-- the occurrence is through (all its chains): judge it like a lone one under the chains as it met them -/
def JAcc.finish (A : PluginSite.Auth) (a : JAcc) (j : Nat) (f : JFl) : JAcc :=
  let mE := setList (setList a.mgr .newUserConn (effList a.mgr .newUserConn f.taken0)) .newWorkConn
    (effList a.mgr .newWorkConn f.taken1)
  let r : StepRes := match f.item with
    | .c _ cred => judgeC A mE a.srv f.name f.rid cred f.o f.w
    | .p i cred => judgeP A (setList a.mgr .ping (effList a.mgr .ping f.taken0)) a.srv i cred f.o f.w
    | .n i name => judgeN (setList a.mgr .newProxy (effList a.mgr .newProxy f.taken0)) a.srv i name f.o f.w
  { a with srv := r.srv, panics := a.panics || r.panics,
           fls := a.fls.set j { f with done := true, res := some r } }

/-- after a plugin answered (or at launch): is the occurrence through its current chain? -/
def JAcc.progress (A : PluginSite.Auth) (a : JAcc) (j : Nat) (f : JFl) (fuel : Nat) : JAcc :=
  match fuel with
  | 0 => a
  | fuel + 1 =>
    let taken := if f.phase = 0 then f.taken0 else f.taken1
    let r := gated f.op taken f.offered
    let all := taken.length ≥ (a.mgr.list f.op).length
    match r.1 with
    | .panic => { a with panics := true }
    | .error _ => a.finish A j f
    | .ok _ =>
      if !all then { a with fls := a.fls.set j f } else
      match f.item with
      | .c _ _ =>
        if f.phase = 0 then JAcc.progress A a j { f with phase := 1 } fuel     -- let through: the work connection is offered
        else a.finish A j f
      | _ => a.finish A j f

/-- the plugin holding a request of item `j` answers, with its behaviour of this moment -/
def JAcc.release (A : PluginSite.Auth) (a : JAcc) (j : Nat) : JAcc :=
  match a.fls[j]? with
  | none => a
  | some f =>
    if f.done then a else
    let taken := if f.phase = 0 then f.taken0 else f.taken1
    match (a.mgr.list f.op)[taken.length]? with
    | none => a
    | some p =>
      let f := if f.phase = 0 then { f with taken0 := f.taken0 ++ [p] } else { f with taken1 := f.taken1 ++ [p] }
      a.progress A j f 3

def jDecided (it : JItem) (o w : String) (out : String) (srv : PluginSite.Srv) : JFl :=
  { item := it, o := o, w := w, done := true, res := some { out := out, wire := [], prop := true, srv := srv } }

/-- the occurrence is launched: what is decided before any plugin is asked (no such proxy / session, visitor not
    admitted, a second message for a session's dispatcher), else it enters its chain -/
def JAcc.launch (A : PluginSite.Auth) (h : HAcc) (a : JAcc) (it : JItem) (o w : String) : JAcc :=
  let j := a.fls.length
  let dec (out : String) : JAcc := { a with fls := a.fls ++ [jDecided it o w out a.srv] }
  match it with
  | .c k _ =>
    match h.proxyOf a.srv k with
    | none => dec "-"
    | some (slot, name) =>
      match h.slots[slot]?, a.srv.bySlot slot with
      | some sl, some ctl =>
        if !sl.usable || o == "-" then dec "-" else
        let f : JFl := { item := it, o := o, w := w, slot := slot, name := name, rid := ctl.rid, user := ctl.user }
        -- no such listener any more (cannot happen while the session lives): as the sequential step
        if (a.srv.owner name).isNone then dec "-" else
        ({ a with fls := a.fls ++ [f] }).progress A j f 3
      | _, _ => dec "-"
  | .p i _ | .n i _ =>
    match h.slots[i]? with
    | none => dec "dead"
    | some sl =>
      if !sl.usable then dec "dead" else
      if a.fls.any (fun g => match g.item with
          | .p i' _ => i' == i
          | .n i' _ => i' == i
          | _ => false) then dec "dup" else
      match a.srv.bySlot i with
      | none => dec "closed"                         -- that session was replaced: the server hung up
      | some ctl =>
        let f : JFl := { item := it, o := o, w := w, slot := i, rid := ctl.rid, user := ctl.user }
        ({ a with fls := a.fls ++ [f] }).progress A j f 3

def JAcc.act (A : PluginSite.Auth) (a : JAcc) : JAct → JAcc
  | .r j => a.release A j
  | .f id b => { a with mgr := flipMgr a.mgr id b }

/-- at the end of the script: whatever is still held is released, item by item -/
def JAcc.drain (A : PluginSite.Auth) (a : JAcc) : JAcc :=
  (List.range a.fls.length).foldl (fun a j =>
    (List.range 20).foldl (fun a _ => a.release A j) a) a

def histJ (a : HAcc) (items : List JItem) (acts : List JAct) (o w : String) : HAcc :=
  let os := o.splitOn "&"
  let ws := w.splitOn "&"
  let ja : JAcc := { srv := a.srv, mgr := a.mgr, fls := [] }
  let ja := (items.zipIdx).foldl (fun ja (it, i) => ja.launch a.auth a it (os.getD i "?") (ws.getD i "-")) ja
  let ja := acts.foldl (JAcc.act a.auth) ja
  let ja := ja.drain a.auth
  if ja.panics then { a with panics := true } else
  let rs := ja.fls.map (fun f => f.res.getD { out := "?", wire := [], prop := false, srv := ja.srv })
  -- every request the plugin server received in this step belongs to one of the occurrences (no `?` segment), each
  -- occurrence has a result of its own
  let shape := os.length == items.length && ws.length == items.length
  { a.pushRaw ("&".intercalate (rs.map (·.out))) ("&".intercalate (rs.map (fun r => wireStr r.wire)))
      (shape && rs.all (·.prop)) with srv := ja.srv, mgr := ja.mgr }

def histStep (a : HAcc) (t : HistTok) : HAcc :=
  let o := ((a.obsO.headD "?").splitOn "!").headD "?"
  let w := a.obsW.headD "-"
  let take (a : HAcc) (r : StepRes) : HAcc :=
    if r.panics then { a with panics := true } else { a.push r.out r.wire r.prop r.ref with srv := r.srv }
  match t with
  | .Z sec => { a.push "-" [] true with srv := { a.srv with hb := sec * 10 } }
  | .A h w valid =>
    { a.push "-" [] true with auth := { ping := if h then some valid else none, work := if w then some valid else none } }
  | .J items acts => histJ a items acts o w
  | .W d =>
    let srv := (PluginSite.step PluginSite.encContent a.mgr a.srv (.tick d)).1
    let obsGone := parseGone o
    let a := { a with srv := srv }
    let (a, gone, prop) := (List.range a.slots.length).foldl (fun (acc : HAcc × List Nat × Bool) i =>
      let (a, gone, prop) := acc
      match a.slots[i]? with
      | some sl =>
        if !sl.usable then acc else
        match a.expire i (obsGone.contains i) with
        | some (srv', p) => ({ a with srv := srv' }, gone ++ [i], prop && p)
        | none => acc
      | none => acc) (a, [], true)
    a.push (if gone.isEmpty then "-" else "g" ++ "+".intercalate (gone.map toString)) [] prop
  | .F id b => { a.push "-" [] true with mgr := flipMgr a.mgr id b }
  | .X i =>
    match a.slots[i]? with
    | some sl =>
      if sl.usable then
        let r := PluginSite.step PluginSite.encContent a.mgr a.srv (.connClosed i)
        { a.push "-" [] true with srv := r.1, slots := a.slots.set i { sl with usable := false } }
      else a.push "-" [] true
    | none => a.push "-" [] true
  | .L rid user =>
    let slot := a.slots.length
    let reqRid : Str := match rid with
      | .e => []
      | .f r => r
      | .s i => (a.slots[i]?.map (·.rid)).getD []
    let obsRid : Str := if o.startsWith "ok:" then ((unhx (o.drop 3).toString).getD []) else []
    let r := PluginSite.step PluginSite.encContent a.mgr a.srv (.login slot user reqRid obsRid (o != "no"))
    match r.2 with
    | [e] =>
      if histIsPanic e then { a with panics := true } else
      let newRid := ((r.1.bySlot slot).map (·.rid)).getD reqRid
      let out := if e.proceeded then "ok:" ++ hx newRid else "no"
      -- a LoginResp without error: the run id answered is the one of the content as rewritten
      let ridOk := !(o.startsWith "ok:") || obsRid == newRid
      { a.push out (evWire e "Login" true) (evHolds e "Login" true w (o.startsWith "ok:") && ridOk) with
        srv := r.1, slots := a.slots ++ [⟨newRid, e.proceeded⟩] }
    | _ => { a with panics := true }
  | .N i name =>
    match a.slots[i]? with
    | some sl =>
      if !sl.usable then a.push "dead" [] true else
      match a.expire i (o == "closed") with
      | some (srv', p) =>
        -- the message may have been on its way through the chain when the server hung up: whatever
        -- the plugin server still received of it is taken over
        { a.push "closed" (if w == "-" then [] else [w]) p with srv := srv' }
      | none => take a (judgeN a.mgr a.srv i name o w)
    | none => a.push "dead" [] true
  | .P i key =>
    match a.slots[i]? with
    | some sl =>
      if !sl.usable then a.push "dead" [] true else
      match a.expire i (o == "closed") with
      | some (srv', p) =>
        -- the message may have been on its way through the chain when the server hung up: whatever
        -- the plugin server still received of it is taken over
        { a.push "closed" (if w == "-" then [] else [w]) p with srv := srv' }
      | none => take a (judgeP a.auth a.mgr a.srv i key o w)
    | none => a.push "dead" [] true
  | .C k cred =>
    match a.proxyOf a.srv k with
    | none => a.push "-" [] true
    | some (slot, name) =>
      match a.slots[slot]?, a.srv.bySlot slot with
      | some sl, some ctl =>
        if !sl.usable then a.push "-" [] true else
        -- the visitor was not admitted (e.g. the plugins rewrote the proxy into one of another type):
        -- no user connection reached the proxy; taken over from the implementation
        if o == "-" then a.push "-" [] true else
        take a (judgeC a.auth a.mgr a.srv name ctl.rid cred o w)
      | _, _ => a.push "-" [] true                        -- the session of that proxy is gone

/-- (expected result line, property predicate on the implementation's own results) -/
def histExpected (m : Manager Content) (script : List HistTok) (impl : String) : Option (String × Bool) :=
  let (obsO, obsW) := match impl.splitOn " | " with
    | [r, w] => (((r.drop 2).toString).splitOn ",", w.splitOn ";")
    | _ => ([], [])
  -- transport.heartbeatTimeout of a server without tcpMux: 90 s unless the history sets it (`Z`)
  let acc := script.foldl histStep ({ srv := { hb := 900 }, mgr := m, obsO := obsO, obsW := obsW } : HAcc)
  if acc.panics then none else
  some ("H=" ++ ",".intercalate acc.outs ++ " | " ++ ";".intercalate acc.wires, acc.prop)

def parseHist (s : String) : Option (List HistTok) := (s.splitOn ",").mapM parseHistTok

def pluginStep (st : PluginState) (tok : List String) (impl : String) : PluginState × Verdict :=
  match tok with
  | ["reset"] => ({}, verdictOf "-" impl)
  | ["reg", id, ops, kind, x1, x2] =>
    match id.toNat?, unhx x1, unhx x2 with
    | some id, some x1, some x2 =>
      match behOf kind x1 x2 with
      | some b =>
        let p := b.toPlugin id (parseOps ops)
        ({ regs := st.regs ++ [p], mgr := st.mgr.register p }, verdictOf "-" impl)
      | none => (st, .bad "reg kind")
    | _, _, _ => (st, .bad "reg")
  | ["call", op, a, b] =>
    match opOfString op, unhx a, unhx b with
    | some op, some a, some b =>
      let c : Content := ⟨a, b⟩
      let R := st.regs.filter (·.supports op)       -- the spec's notion of "registered for op"
      let parts := impl.splitOn " | "
      if op = .closeProxy then
        let r := st.mgr.closeProxy c
        let ms := renderClose r.1 ++ " | " ++ renderSeen r.2
        let prop := match parts with
          | [rs, cs] => (do
              let res ← parseClose rs
              let cons ← parseSeen cs
              pure (C15.closeHoldsOn R c res cons))
          | _ => none
        (st, verdictOf ms impl prop)
      else
        let r := st.mgr.call op c
        let ms := renderRes r.1 ++ " | " ++ renderSeen r.2
        let prop := match parts with
          | [rs, cs] => (do
              let res ← parseRes rs
              let cons ← parseSeen cs
              pure (C15.holdsOn op R c res cons))
          | _ => none
        (st, verdictOf ms impl prop)
    | _, _, _ => (st, .bad "call")
  | ["site", u, p, x] =>
    if impl.startsWith "skip" || impl.startsWith "infra" then (st, .skip impl) else
    if (impl.splitOn "timeout").length > 1 then (st, .skip "timeout") else
    match unhx u, unhx p with
    | some u, some p =>
      match siteExpected st.mgr u p x impl with
      | none => (st, .skip "model panics")
      | some (e, reported) => (st, verdictOf e impl (some (e == impl && reported)))
    | _, _ => (st, .bad "site")
  | ["sess", u, script] =>
    if impl.startsWith "skip" || impl.startsWith "infra" then (st, .skip impl) else
    match unhx u, parseScript script with
    | some u, some script =>
      match sessExpected st.mgr u script impl with
      | none => (st, .skip "model panics")
      | some (e, prop) => (st, verdictOf e impl (some (e == impl && prop)))
    | _, _ => (st, .bad "sess")
  | ["hist", script] =>
    if impl.startsWith "skip" || impl.startsWith "infra" then (st, .skip impl) else
    if (impl.splitOn "timeout").length > 1 then (st, .skip "timeout") else
    match parseHist script with
    | some script =>
      match histExpected st.mgr script impl with
      | none => (st, .skip "model panics")
      | some (e, prop) => (st, verdictOf e impl (some prop))
    | none => (st, .bad "hist")
  | _ => (st, .bad "op")

def plugin : Engine := { State := PluginState, init := {}, step := pluginStep }

end Engines
end Frp
