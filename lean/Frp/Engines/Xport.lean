import Frp.Driver.Proto
import Frp.Engines.Release
import Frp.Props.C10Xport
/-
  Driver engine "xport" (C10): replays harness/eng_xport.go's trace on Frp/Model/WorkConns.lean.
  Every work connection the implementation reports is classified by what reached frps' end of it
  (`0` never closed, `1` exactly once, `n` more than once, `+` closed through a stack without a
  close-once wrapper); the model's class comes from `WorkConns.reached` (C01's close graphs).
  The property predicate is evaluated on the implementation's own answer: a connection whose exchange is
  over / that was replaced / whose proxy or session ended must be closed — exactly once when guarded.
-/
namespace Frp
namespace Engines
open Proto Layers CloseGraph WorkConns

structure XpState where
  s : WState := {}
  /-- options of the last successful registration of a name (by the implementation's own answer) -/
  opts : List (Str × PKind × Opts) := []

def xpRes (res key : String) : Option String :=
  (res.splitOn ";").findSome? fun t =>
    match t.splitOn "=" with
    | [k, v] => if k = key then some v else none
    | _ => none

def xpKind : String → Option PKind
  | "http" => some .http
  | "udp" => some .udp
  | _ => none

def xpBool : String → Option Bool
  | "1" => some true
  | "0" => some false
  | _ => none

def xpOpts (e c l : String) : Option Opts :=
  match xpBool e, xpBool c, xpBool l with
  | some e, some c, some l => some { enc := e, comp := c, limSrv := l, limCli := false }
  | _, _, _ => none

/-- class of a let-go connection after `tops` top closes -/
def xpCls (kind : PKind) (o : Opts) (tops : Nat) : String :=
  let r := reached kind o tops
  if r = 0 then "0" else if !guarded kind o then "+" else if r = 1 then "1" else "n"

def xpConnCls (c : WConn) : String := if c.cur then "cur" else xpCls c.kind c.o c.tops

/-- the class the property allows for a let-go connection of this kind / options -/
def xpAllowed (kind : PKind) (o : Opts) : String := if guarded kind o then "1" else "+"

def xpNames (s : WState) : List Str := relSort ((s.conns.map (·.pxy)).eraseDups)

def xpCensus (s : WState) : String :=
  let rows := (xpNames s).map fun n =>
    s!"{Str.toString n}={",".intercalate (((s.conns.filter (fun c => c.pxy = n)).reverse).map xpConnCls)}"
  ";".intercalate (rows ++ ["idle=0"])

def xpStatus : String → String
  | "ws" => "101"
  | "abort" => "-"
  | _ => "200"

def xpLive (s : WState) (name : Str) (kind : PKind) : Option Pxy :=
  match s.find name with
  | some p => if p.kind = kind then some p else none
  | none => none

/-- census of the implementation judged on its own: every entry is `cur` (only as the last connection of a
    name) or the class the property allows for the name's options; no pooled connection of an ended session open -/
def xpCensusHolds (opts : List (Str × PKind × Opts)) (impl : String) : Bool :=
  (impl.splitOn ";").all fun row =>
    match row.splitOn "=" with
    | ["idle", n] => n = "0"
    | [name, cs] =>
      match opts.lookup (Str.ofString name) with
      | some (kind, o) =>
        let l := cs.splitOn ","
        (l.dropLast.all (· = xpAllowed kind o)) &&
          (match l.getLast? with
           | some x => x = xpAllowed kind o || (x = "cur" && kind = .udp)
           | none => false)
      | none => false
    | _ => false

def xportStep (st : XpState) (tok : List String) (impl : String) : XpState × Verdict :=
  match tok with
  | ["reset"] => ({}, verdictOf "-" impl)
  | ["reg", sid, name, kind, e, c, l] =>
    match sid.toNat?, xpKind kind, xpOpts e c l with
    | some sid, some kind, some o =>
      let nm := Str.ofString name
      let fresh := (st.s.find nm).isNone
      let s1 := st.s.apply (.reg sid nm kind o)
      -- a udp proxy takes its first work connection right after Run (the harness waits for it lazily)
      let s2 := if fresh && kind = .udp then s1.apply (.udpTake nm) else s1
      let opts' := if impl = "ok" then (nm, kind, o) :: st.opts.filter (·.1 ≠ nm) else st.opts
      ({ s := s2, opts := opts' }, verdictOf (if fresh then "ok" else "err:exists") impl)
    | _, _, _ => (st, .bad "reg")
  | ["req", name, mode] =>
    let nm := Str.ofString name
    let implC := (xpRes impl "c").getD "?"
    let prop := implC = "1" || implC = "-"
    match xpLive st.s nm .http with
    | some p =>
      let s1 := st.s.apply (.exchange nm 0)
      ({ st with s := s1 }, verdictOf s!"st={xpStatus mode};c={xpCls .http p.o 1}" impl (some prop))
    | none => (st, verdictOf "st=404;c=-" impl (some prop))
  | ["udpx", name] =>
    match xpLive st.s (Str.ofString name) .udp with
    | some _ => (st, verdictOf "got=1" impl)
    | none => (st, verdictOf "none" impl)
  | ["drop", name] =>
    let nm := Str.ofString name
    let prop : Bool :=
      impl = "none" ||
      (match st.opts.lookup nm with
       | some (kind, o) => xpRes impl "c" = some (xpAllowed kind o) && xpRes impl "next" = some "1"
       | none => false)
    match xpLive st.s nm .udp with
    | some p =>
      let s1 := (st.s.apply (.udpIOErr nm 0)).apply (.udpTake nm)
      ({ st with s := s1 }, verdictOf s!"c={xpCls .udp p.o 2};next=1" impl (some prop))
    | none => (st, verdictOf "none" impl (some prop))
  | ["close", sid, name] =>
    match sid.toNat? with
    | some sid => ({ st with s := st.s.apply (.close sid (Str.ofString name) 0) }, verdictOf "-" impl)
    | none => (st, .bad "close")
  | ["endsess", sid] =>
    match sid.toNat? with
    | some sid => ({ st with s := st.s.apply (.endsess sid 0) }, verdictOf "-" impl (some (impl = "-")))
    | none => (st, .bad "endsess")
  | ["closerace", _] =>
    -- relational: whether the reader's send wins against `close(checkCloseCh)` is the scheduler's choice
    -- (UdpCloseRace: `late ≤ 1` per close as the code is, `= 0` repaired); the property wants none
    if impl = "late=0" || impl = "late=+" then (st, verdictOf impl impl (some (impl = "late=0")))
    else (st, verdictOf "late=0" impl (some false))
  | ["census"] =>
    (st, verdictOf (xpCensus st.s) impl (some (xpCensusHolds st.opts impl)))
  | _ => (st, .bad "op")

def xport : Engine := { State := XpState, init := {}, step := xportStep }

end Engines
end Frp
