import Frp.Engines.Conf
import Frp.Props.C18Cmd
/-
  Driver engine "confcmd" (C18): the real `frpc` / `frps` commands.  One logical definition is given to a
  process as command-line flags and to another as a file; the harness reports what each was observed doing
  (`<obs flags> // <obs file> // verify=ok|rej`).  The model answers with the observation `CmdSpec` demands and
  evaluates `C18.cmdHoldsOn` on the processes' own observations.
-/
namespace Frp
namespace Engines
open Proto ProxyMsg CmdSpec

namespace ConfCmd
open Conf (parseKVsS recOfS renderValue)

def stripPfx (pfx : String) (kvs : List String) : List String :=
  kvs.filterMap fun (kv : String) => if kv.startsWith pfx then some (kv.drop pfx.length).toString else none

def parseObs (s : String) : Option Obs :=
  parseKVsS ((s.splitOn " ").filter (· ≠ ""))

def renderObs (o : Obs) : String :=
  let items := o.filter (fun kv => kv.2.canon ≠ .zero)
  if items.isEmpty then "none=b1"
  else " ".intercalate (items.map fun kv => Str.toString kv.1 ++ "=" ++ renderValue kv.2)

def judge (spec : Spec) (impl : String) : Verdict :=
  let want := renderObs spec.obs
  let model := want ++ " // " ++ want ++ " // verify=" ++ (if isRej spec then "rej" else "ok")
  match impl.splitOn " // " with
  | [f, c, v] =>
    match parseObs f, parseObs c with
    | some fo, some co =>
      let holds := C18.cmdHoldsOn spec fo co (v = "verify=ok")
      -- the processes show more than the definition determines (e.g. the whole NewProxy message): when the
      -- predicate holds the model's answer is the implementation's own line
      verdictOf (if holds then impl else model) impl (some holds)
    | _, _ => .bad "confcmd: observation"
  | _ => .diff model (some false)

def xcStep (sub : String) (kvs : List String) (impl : String) : Verdict :=
  match Conf.splitFirst sub ":", parseKVsS (stripPfx "C." kvs), parseKVsS (stripPfx "P." kvs) with
  | some (kind, t), some ckv, some pkv =>
    if kind ≠ "p" && kind ≠ "v" then .bad "xc: sub" else
    judge (clientSpec (kind = "v") (Str.ofString t) (recOfS ckv) (recOfS pkv)) impl
  | _, _, _ => .bad "xc"

def xsStep (kvs : List String) (impl : String) : Verdict :=
  match parseKVsS kvs with
  | some kv => judge (serverSpec (recOfS kv)) impl
  | none => .bad "xs"

def step (s : Unit) (tok : List String) (impl : String) : Unit × Verdict :=
  match tok with
  | ["reset"] => (s, verdictOf "-" impl)
  | "xc" :: sub :: _fmt :: kvs => (s, xcStep sub kvs impl)
  | "xs" :: _fmt :: kvs => (s, xsStep kvs impl)
  | _ => (s, .bad "confcmd: op")

end ConfCmd

def confcmd : Engine := { State := Unit, init := (), step := ConfCmd.step }

end Engines
end Frp
