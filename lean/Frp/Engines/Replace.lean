import Frp.Driver.Proto
import Frp.Engines.RegRace
import Frp.Props.C10Replace
/-
  Driver engine "replace" (C10): replays the harness trace of session replacement on a real server.Service
  (Frp/Model/SessReplace.lean with the wait the source has: `C10.Replace.codeUnbounded`).  Every answer is compared with
  the model; besides, the property is judged on the implementation's own answers:
    * an acknowledgement (`ack…`) of a session that replaced another carries `:left=<names the server's name table
      still lists for the replaced session at that moment>` when there are any — the clause says there are none;
    * a refusal (exists / conflict / in use) must be justified by the RECORD built from the implementation's answers
      (which registrations it reported as done, minus closes, minus walked sessions, minus every session whose
      replacement has been acknowledged).
-/
namespace Frp
namespace Engines
open Proto Release RegSteps SessReplace

structure RpState where
  s    : PState := PState.init 0
  ids  : List Nat := []           -- sessions that logged in, ascending
  acct : CState := CState.init 0  -- the implementation's own account

def rpAns : Ans → String
  | .r x => rrRes x
  | .ack => "ack"
  | .ackClosed => "ackclosed"
  | .pending => "pending"
  | .notlive => "notlive"
  | .wparked => "wparked"
  | .ok => "ok"
  | .disabled => "disabled"

def rpView (s : CState) : String :=
  let vis := ",".intercalate ((relSort ((s.held.filter (fun e => e.1.tbl = .visitor)).map (fun e => e.1.k))).map Str.toString)
  let names := ",".intercalate ((relSort (s.names.map (fun e => e.1 ++ rrEq :: Str.ofString (toString e.2)))).map Str.toString)
  s!"tcp[{rrPortTbl s .tcp}]visitor[{vis}]names[{names}]"

/-- `core:left=a,b` ↦ (core, "a,b") -/
def rpSplit (impl : String) : String × String :=
  match impl.splitOn ":left=" with
  | [a, b] => (a, b)
  | _ => (impl, "")

def rpInsert (n : Nat) : List Nat → List Nat
  | [] => [n]
  | x :: xs => if n < x then n :: x :: xs else if n = x then x :: xs else x :: rpInsert n xs

/-- the replaced session's entries leave the record once its replacement is acknowledged (the clause) -/
def rpAckAcct (st : RpState) (acct : CState) (n : Nat) : CState :=
  match st.s.old n with
  | some o => { rrRecEnd acct o with flights := acct.flights.filter (fun f => f.sid ≠ o) }
  | none => acct

def rpUnb : Bool := C10.Replace.codeUnbounded

def replaceStep (st : RpState) (tok : List String) (impl : String) : RpState × Verdict :=
  let (core, left) := rpSplit impl
  let clean : Bool := left = ""
  match tok with
  | ["reset"] => ({}, verdictOf "-" impl)
  | ["login", n, rid] =>
    match n.toNat?, rid.toNat? with
    | some n, some rid =>
      let (s', a) := st.s.apply rpUnb (.login n rid)
      let st1 : RpState := { st with s := s', ids := if a = .disabled then st.ids else rpInsert n st.ids }
      let acct' := if core = "ack" then rpAckAcct st1 st.acct n else st.acct
      ({ st1 with acct := acct' }, verdictOf (rpAns a) core (some clean))
    | _, _ => (st, .bad "login")
  | ["wait", n, _] =>
    match n.toNat? with
    | some n =>
      let (s', a) := st.s.apply rpUnb (.start n)
      let acct' := if core = "ack" || core = "ackclosed" then rpAckAcct st st.acct n else st.acct
      ({ st with s := s', acct := acct' }, verdictOf (rpAns a) core (some clean))
    | none => (st, .bad "wait")
  | "begin" :: n :: name :: typ :: args =>
    let nm := Str.ofString name
    match n.toNat?, rrKeys nm typ args with
    | some n, some (keys, k) =>
      let (s', a) := st.s.apply rpUnb (.begin n nm keys k)
      let prop : Bool :=
        if core = "err:exists" then st.acct.nameTaken nm else true
      ({ st with s := s', acct := rrRecBegin st.acct n nm keys k core }, verdictOf (rpAns a) core (some prop))
    | _, _ => (st, .bad "begin")
  | ["step", n] =>
    match n.toNat? with
    | some n =>
      let (s', a) := st.s.apply rpUnb (.step n)
      let prop : Bool :=
        match st.acct.flights.find? (fun f => f.sid = n) with
        | none => true
        | some f =>
          if core = "err:conflict" then !C10.Conc.keysFree st.acct f.keys
          else if core = "err:inuse" then st.acct.nameTaken f.name
          else true
      -- a handler that returns on a closed connection cannot answer: the record follows the model there
      let eff := if core = "wparked" then rrRes (st.s.c.step n).2 else core
      ({ st with s := s', acct := rrRecStep st.acct n eff }, verdictOf (rpAns a) core (some prop))
    | none => (st, .bad "step")
  | ["close", n, name] =>
    match n.toNat? with
    | some n =>
      let (s', a) := st.s.apply rpUnb (.close n (Str.ofString name))
      let acct' := if core = "-" then rrRecClose st.acct n (Str.ofString name) else st.acct
      ({ st with s := s', acct := acct' }, verdictOf (rpAns a) core)
    | none => (st, .bad "close")
  | ["drop", n] =>
    match n.toNat? with
    | some n => ({ st with s := (st.s.apply rpUnb (.drop n)).1 }, verdictOf "ok" core)
    | none => (st, .bad "drop")
  | ["drain", n] =>
    match n.toNat? with
    | some n => (st, verdictOf (if st.s.ph n = .parked then "ok" else "disabled") core)
    | none => (st, .bad "drain")
  | ["walk", n] =>
    match n.toNat? with
    | some n =>
      let (s', a) := st.s.apply rpUnb (.walk n)
      let acct' := if core = "ok" then { rrRecEnd st.acct n with flights := st.acct.flights.filter (fun f => f.sid ≠ n) }
                   else st.acct
      ({ st with s := s', acct := acct' }, verdictOf (rpAns a) core)
    | none => (st, .bad "walk")
  | ["done", n] =>
    match n.toNat? with
    | some n =>
      let (s1, a) := st.s.apply rpUnb (.done n)
      if a = .ok then
        -- the RegisterControl goroutines waiting for this doneCh run on by themselves
        let waiters := st.ids.filter (fun m => s1.old m = some n && (match s1.ph m with | .waiting _ => true | _ => false))
        let (s2, txt, acct') := waiters.foldl (fun (acc : PState × String × CState) m =>
          let (t, a) := acc.1.apply rpUnb (.start m)
          (t, acc.2.1 ++ ":" ++ rpAns a ++ toString m, rpAckAcct { st with s := acc.1 } acc.2.2 m)) (s1, "ok", st.acct)
        ({ st with s := s2, acct := if core = txt then acct' else st.acct }, verdictOf txt core (some clean))
      else ({ st with s := s1 }, verdictOf (rpAns a) core (some clean))
    | none => (st, .bad "done")
  | ["view"] => (st, verdictOf (rpView st.s.c) impl)
  | _ => (st, .bad "op")

def replace : Engine := { State := RpState, init := {}, step := replaceStep }

end Engines
end Frp
