import Frp.Driver.Proto
import Frp.Props.C05
/-
  Driver engine "wire" (C05): replays the harness trace (harness/eng_wire.go) on Frp/Model/Wire.lean
  and evaluates the C05 predicates on the implementation's own answers.
-/
namespace Frp
namespace Engines
open Proto Wire

/-- value of `key=` among the tokens -/
def wireKV (toks : List String) (key : String) : Option String :=
  toks.findSome? fun t =>
    match t.splitOn "=" with
    | [k, v] => if k = key then some v else none
    | _ => none

def wireBool (toks : List String) (key : String) : Option Bool :=
  match wireKV toks key with
  | some "1" => some true
  | some "0" => some false
  | _ => none

def wireNat (toks : List String) (key : String) : Option Nat := (wireKV toks key).bind String.toNat?

def bit (b : Bool) : String := if b then "1" else "0"

/-- fields of a `k=v;k=v` result -/
def wireResKV (res : String) (key : String) : Option String := wireKV (res.splitOn ";") key

def wireResBool (res : String) (key : String) : Option Bool := wireBool (res.splitOn ";") key

def sniffResult (b : Nat) (f : Bool) : String :=
  let cls := sniff b f
  match cls with
  | .customTLS => s!"custom:hs={bit (!firstByteReplayed cls)}"   -- handshake works iff the 0x17 was swallowed
  | .tls => s!"tls:hs={bit (firstByteReplayed cls)}"             -- handshake works iff the 0x16 is replayed
  | .plain => if firstByteReplayed cls then s!"plain:echo={b}" else "plain:echo=lost"
  | .refuse => "refuse"

def authFieldStr : AuthField → String
  | .empty => "empty"
  | .digest => "digest"
  | .clear => "clear"

def frpsTest : Str := Str.ofString "frps.test"
def otherTest : Str := Str.ofString "other.test"
def localhostN : Str := Str.ofString "localhost"
def loopback : Str := Str.ofString "127.0.0.1"
def loopback9 : Str := Str.ofString "127.0.0.9"

/-- DNS SAN kind of the harness's server certificates: 0 none, 1 frps.test, 2 other.test, 3 localhost -/
def sanDNS : Nat → Option (List Str)
  | 0 => some [] | 1 => some [frpsTest] | 2 => some [otherTest] | 3 => some [localhostN] | _ => none

/-- IP SAN kind: 0 none, 1 127.0.0.1, 2 127.0.0.9 -/
def sanIP : Nat → Option (List Str)
  | 0 => some [] | 1 => some [loopback] | 2 => some [loopback9] | _ => none

/-- `san=<d><i>` (absent = 11) -/
def wireSan (toks : List String) : Option (List Str × List Str) :=
  match wireKV toks "san" with
  | none => some ([frpsTest], [loopback])
  | some v =>
    match v.toList with
    | [d, i] =>
      match sanDNS (d.toNat - 48), sanIP (i.toNat - 48) with
      | some a, some b => some (a, b)
      | _, _ => none
    | _ => none

/-- `sn=<k>` of a cert op: 0 none, 1 frps.test, 2 other.test, 3 127.0.0.1, 4 127.0.0.9 -/
def certSN : Nat → Option Str
  | 0 => some [] | 1 => some frpsTest | 2 => some otherTest | 3 => some loopback | 4 => some loopback9
  | _ => none

/-! reload rig: proxy configurations as `e<0|1>c<0|1>l<0|1|2>m<0|1>o<0|1>` or `-` -/

def parsePC (name : Nat) (t : String) : Option (Option WireReload.PxCfg) :=
  if t = "-" then some none
  else match t.toList with
    | ['e', e, 'c', c, 'l', l, 'm', m, 'o', o] =>
      some (some { name := name, enc := e == '1', comp := c == '1', limit := l.toNat - 48
                 , limitServer := m == '1', other := o.toNat - 48 })
    | _ => none

def rigCfgs (toks : List String) : Option (List WireReload.PxCfg) :=
  match (wireKV toks "a").bind (parsePC 0), (wireKV toks "b").bind (parsePC 1) with
  | some a, some b => some (a.toList ++ b.toList)
  | _, _ => none

structure Rig where
  tls : Bool
  st : WireReload.St

/-- the model's answer for proxy `n` after a step, and the property predicate on the implementation's
    own answer `r` (`s<status enc>p<seen>`).  With compression and no cipher on a clear transport the
    marker may or may not survive the compressor: the model takes the observed bit. -/
def rigOne (rg : Rig) (n : Nat) (r : String) : String × Option Bool :=
  match WireReload.find rg.st n, WireReload.lookupLast rg.st.cfgs n with
  | some p, some c =>
    let seenModel := Wire.payloadClear (WireReload.pathOf rg.tls p)
    let implSeen : Option Bool :=
      match r.toList with
      | ['s', _, 'p', x] => some (x == '1')
      | _ => none
    let seen := if p.built.comp && !p.built.enc && !rg.tls then implSeen.getD seenModel else seenModel
    (s!"s{bit p.cfg.enc}p{bit seen}", implSeen.map (C05.reloadObsOk rg.tls c.enc))
  | _, _ => ("-", some (r == "-"))

def rigAnswer (rg : Rig) (impl : String) : String × Option Bool :=
  let ra := (wireResKV impl "a").getD "?"
  let rb := (wireResKV impl "b").getD "?"
  let a := rigOne rg 0 ra
  let b := rigOne rg 1 rb
  let prop := match a.2, b.2 with
    | some x, some y => some (x && y)
    | _, _ => none
  (s!"up=1;a={a.1};b={b.1}", prop)

/-- control transport of a `cert` op (absent = tcp) -/
def wireProto (toks : List String) : Option Protocol :=
  match wireKV toks "proto" with
  | none => some .tcp
  | some "tcp" => some .tcp
  | some "kcp" => some .kcp
  | some "ws" => some .websocket
  | some "wss" => some .wss
  | some "quic" => some .quic
  | _ => none

def wireStep (st : Option Rig) (tok : List String) (impl : String) : Option Rig × Verdict :=
  match tok with
  | ["reset"] => (none, verdictOf "-" impl)
  | ["sniff", b, f] =>
    match b.toNat?, f with
    | some b, f =>
      let force := f == "1"
      -- property: a forcing server never hands on a plaintext connection
      let prop := !(force && impl.startsWith "plain")
      (st, verdictOf (sniffResult b force) impl (some prop))
    | _, _ => (st, .bad "sniff")
  | "srvcfg" :: rest =>
    match wireBool rest "force", wireBool rest "ca", wireBool rest "cert" with
    | some f, some ca, some cert =>
      let s : ServerCfg := { force := f, trustedCA := ca, certGiven := cert }
      let t := serverTls s
      let m := s!"force={bit (serverForce s)};auth={if t.clientAuth = .requireAndVerify then "req" else "none"};cas={bit t.hasClientCAs};certs=1"
      -- property: a trusted CA forces TLS and requires a verified client certificate
      let prop := !ca || (wireResKV impl "force" == some "1" && wireResKV impl "auth" == some "req" &&
                          wireResKV impl "cas" == some "1")
      (st, verdictOf m impl (some prop))
    | _, _, _ => (st, .bad "srvcfg")
  | "clicfg" :: rest =>
    match wireKV rest "en", wireKV rest "dis", wireBool rest "ca", wireBool rest "cert", (wireKV rest "sn").bind unhx with
    | some en, some dis, some ca, some cert, some sn =>
      -- TLSClientConfig.Complete: both default to true
      let en' := en != "0"
      let dis' := dis != "0"
      let t := clientTlsOf cert ca sn
      let m := s!"en={bit en'};dis={bit dis'};skip={bit t.insecureSkipVerify};sn={hx t.serverName};roots={bit t.hasRootCAs};certs={if t.hasCert then 1 else 0}"
      -- property, as far as fields can show it: with a CA the config has the roots and exactly the
      -- given name.  Whether verification is really in force (InsecureSkipVerify = false is how the
      -- code does it — a deviation is a DIFF) is decided by handshakes: ops `ident` and `cert`.
      let prop := !ca || (wireResKV impl "roots" == some "1" && wireResKV impl "sn" == some (hx sn))
      (st, verdictOf m impl (some prop))
    | _, _, _, _, _ => (st, .bad "clicfg")
  | "auth" :: rest =>
    match wireBool rest "hb", wireBool rest "wc" with
    | some hb, some wc =>
      let f (k : MsgKind) := authFieldStr (authKeyField k hb wc) ++ ":0"
      let m := s!"L={f .login};P={f .ping};W={f .newWorkConn}"
      -- property: the token never appears in a frame, no key field is the clear token
      let parts := impl.splitOn ";"
      let prop := parts.all fun p => !(p.endsWith ":1") && (p.splitOn "clear").length == 1
      (st, verdictOf m impl (some prop))
    | _, _ => (st, .bad "auth")
  | "raw" :: rest =>
    match wireBool rest "force", wireNat rest "b" with
    | some f, some b =>
      let s : ServerCfg := { force := f, trustedCA := false, certGiven := false, tcpMux := false }
      let m := match rawReply s b with
        | some t => s!"resp={t}"
        | none => "resp=none"
      -- property: a forcing server answers a non-TLS peer with no protocol frame, whatever the byte
      let prop := !(serverForce s) || impl == "resp=none"
      (st, verdictOf m impl (some prop))
    | _, _ => (st, .bad "raw")
  | "cert" :: rest =>
    match wireBool rest "force", wireBool rest "sca", wireBool rest "scert", wireBool rest "tls",
          wireBool rest "custom", wireNat rest "cca", (wireNat rest "sn").bind certSN, wireNat rest "ccert",
          wireProto rest, wireSan rest with
    | some f, some sca, some scert, some tls, some custom, some cca, some sn, some ccert, some pr, some san =>
      let s : ServerCfg := { force := f, trustedCA := sca, certGiven := scert }
      -- whether the Login carries the right key (absent = yes)
      let tokOk := wireBool rest "tok" != some false
      let c : ClientCfg :=
        { tlsEnable := tls, disableCustomFirstByte := !custom, trustedCA := cca != 0
        , certGiven := ccert != 0, protocol := pr
        , serverName := sn
        , serverAddr := if wireKV rest "addr" == some "1" then localhostN else loopback }
      let p : Pki :=
        { srvCertIssuer := some 1, srvCertDNS := san.1, srvCertIPs := san.2, cliRootCA := cca
        , cliCertIssuer := if ccert = 0 then none else some ccert, srvClientCA := 1 }
      -- `term=<issuer><d><i>`: a TLS terminator in front of frps presents that certificate (wss only)
      let term : Option (Option Terminator) :=
        match wireKV rest "term" with
        | none => some none
        | some v =>
          match v.toList with
          | [ca, d, i] =>
            match sanDNS (d.toNat - 48), sanIP (i.toNat - 48) with
            | some a, some b => some (some { issuer := ca.toNat - 48, dns := a, ips := b })
            | _, _ => none
          | _ => none
      match term with
      | none => (st, .bad "cert term")
      | some (some t) =>
        if pr != .wss then (st, .bad "cert term without wss") else
        let up := wssSessionVia s c p t
        let m := if up then (if tokOk then "up=1" else "up=0:loginerr") else "up=0"
        let interpreted := impl == "up=1" || impl == "up=0:loginerr"
        -- property: an answer from frps only for a client whose tls.Config accepted the terminator's
        -- identity — with a trusted CA: a certificate of that CA valid for the (given or defaulted)
        -- name, whatever transport.tls.enable says (`interpretedOkWss_identity`)
        (st, verdictOf m impl (some (C05.interpretedOkWss s c p t interpreted)))
      | some none =>
      let up := sessionUpOn s c p
      -- a Login with a wrong key that reaches `handleConnection` is answered by LoginResp{Error}
      let m := if up then (if tokOk then "up=1" else "up=0:loginerr") else "up=0"
      -- property: frps interprets a message (answers with a frame, accepting or not) only for a
      -- peer the identity / force rules admit on that transport; for a verifying client this is
      -- `interpretedOk_identity`: a session only with a certificate of the trusted CA whose SANs of
      -- the name's kind contain the (given or defaulted) name
      let interpreted := impl == "up=1" || impl == "up=0:loginerr"
      (st, verdictOf m impl (some (C05.interpretedOk s c p interpreted)))
    | _, _, _, _, _, _, _, _, _, _ => (st, .bad "cert")
  | "ident" :: rest =>
    match wireNat rest "ca", wireBool rest "cert", (wireKV rest "sn").bind unhx, wireNat rest "pca",
          (wireNat rest "pd").bind sanDNS, (wireNat rest "pi").bind sanIP with
    | some ca, some cert, some sn, some pca, some dns, some ips =>
      if !nameInDomain sn || sn.getLast? == some Str.dot then (st, .skip "server name outside the model's name domain")
      else
        let p : Pki := { srvCertIssuer := some pca, srvCertDNS := dns, srvCertIPs := ips, cliRootCA := ca }
        let ct := clientTlsOf cert (ca != 0) sn
        let acc := serverCertAccepted { force := false, trustedCA := false, certGiven := true } ct p
        -- property: with a trusted CA the config accepts only a certificate of that CA valid for the name
        (st, verdictOf s!"acc={bit acc}" impl (some (C05.identOk (ca != 0) sn p (impl == "acc=1"))))
    | _, _, _, _, _, _ => (st, .bad "ident")
  | "rstart" :: rest =>
    match wireBool rest "tls", rigCfgs rest with
    | some tls, some cfgs =>
      let rg : Rig := { tls := tls, st := WireReload.start cfgs }
      let a := rigAnswer rg impl
      (some rg, verdictOf a.1 impl a.2)
    | _, _ => (st, .bad "rstart")
  | "rload" :: rest =>
    match st with
    | none => (st, verdictOf "norig" impl)
    | some rg =>
      match rigCfgs rest with
      | some cfgs =>
        let rg' : Rig := { rg with st := WireReload.step rg.st (.reload cfgs) }
        let a := rigAnswer rg' impl
        (some rg', verdictOf a.1 impl a.2)
      | none => (st, .bad "rload")
  | ["rconn"] =>
    match st with
    | none => (st, verdictOf "norig" impl)
    | some rg =>
      let rg' : Rig := { rg with st := WireReload.step rg.st .reconnect }
      let a := rigAnswer rg' impl
      (some rg', verdictOf a.1 impl a.2)
  | "wire" :: rest =>
    match wireBool rest "tls", wireBool rest "custom", wireBool rest "enc", wireBool rest "venc",
          wireBool rest "mux", wireBool rest "tok", wireBool rest "ws" with
    | some tls, some custom, some enc, some venc, some mux, some tok, some ws =>
      -- q=1: protocol quic through the recording UDP relay (absent = 0)
      let quicOn := wireBool rest "q" == some true
      let c : ClientCfg :=
        { tlsEnable := tls, disableCustomFirstByte := !custom, trustedCA := false, certGiven := false
        , protocol := if quicOn then .quic else if ws then .websocket else .tcp
        , serverName := [], serverAddr := loopback, tcpMux := mux }
      let d := clientDial c
      let cfg : PathCfg := { tls := d.tls, internal := false, useEncryption := enc, tokenEmpty := !tok }
      -- the visitor's bytes cross the path twice (visitor leg keyed by sk, owner leg keyed by token)
      let vcfg : PathCfg := { cfg with useEncryption := enc && venc }
      let o := C05.wireModel cfg
      -- websocket: the hook list starts with the upgrade request "GET /~!frp" (0x47); the client's
      -- frames are masked, the server's are not, and every clear marker also travels server→client
      -- quic: the first datagram is a long-header Initial packet (0xC0 | protected low bits, canonicalised)
      let fb := if quicOn then 0xC0
                else if (clientHooks c).head? == some .websocket then 0x47 else (clientFirstBytes c).head!
      let dec := if !d.tls && !mux && !ws then "1" else "na"
      let m := s!"up=1;fb={fb};tok={bit o.tok};sk={bit o.sk};pwd={bit o.pwd};huser={bit o.huser};user={bit o.user};pay={bit o.pay};vpay={bit (payloadClear vcfg)};upay={bit (onNetworkPath cfg && contentClear cfg .udpPacket)};dec={dec}"
      let prop : Option Bool :=
        match wireResBool impl "tok", wireResBool impl "sk", wireResBool impl "pwd", wireResBool impl "huser",
              wireResBool impl "user", wireResBool impl "pay", wireResBool impl "vpay",
              wireResBool impl "upay" with
        | some a, some b, some c', some e, some u, some y, some v, some w =>
          some (C05.holdsOn cfg { tok := a, sk := b, pwd := c', huser := e, user := u, pay := y } &&
                (!w || contentClear cfg .udpPacket) &&
                C05.holdsOn vcfg { tok := a, sk := b, pwd := c', huser := e, user := u, pay := v })
        | _, _, _, _, _, _, _, _ => none
      (st, verdictOf m impl prop)
    | _, _, _, _, _, _, _ => (st, .bad "wire")
  | _ => (st, .bad "op")

/-! the configuration as written: ops `cfgload`, `wstart`, `wobs` (harness/eng_wire_config.go) -/

open WireConfig in
def parsePxType (t : String) : Option PxType := PxType.all.find? (fun x => x.name == t)

open WireConfig in
def parsePlugin (t : String) : Option Plugin := Plugin.all.find? (fun x => x.name == t)

/-- one proxy of a `wstart` rig: `<type>:<plugin>:e<0|1>c<0|1>` -/
structure CPx where
  type : WireConfig.PxType
  plugin : WireConfig.Plugin
  enc : Bool
  comp : Bool

def parseSpec (t : String) : Option CPx :=
  match t.splitOn ":" with
  | [ty, pl, f] =>
    match parsePxType ty, parsePlugin pl, f.toList with
    | some ty, some pl, ['e', e, 'c', c] => some { type := ty, plugin := pl, enc := e == '1', comp := c == '1' }
    | _, _, _ => none
  | _ => none

/-- `p0=… p1=… …` -/
def specsFrom (toks : List String) : Nat → Nat → Option (List CPx)
  | 0, _ => some []
  | fuel + 1, i =>
    match wireKV toks s!"p{i}" with
    | none => some []
    | some v =>
      match parseSpec v, specsFrom toks fuel (i + 1) with
      | some x, some xs => some (x :: xs)
      | _, _ => none

structure CRig where
  tls : Bool
  pxs : List CPx

open WireConfig in
/-- harness `wcConv`: is there a conversation that reaches the local service of such a proxy? -/
def hasConv (t : PxType) (p : Plugin) : Bool :=
  match t with
  | .udp | .sudp => p == .none
  | .http => [Plugin.none, .unixDomainSocket, .http2http, .http2https, .staticFile].contains p
  | .https => [Plugin.none, .tls2raw, .https2http, .https2https].contains p
  | .tcp | .tcpmux | .stcp => p != .virtualNet
  | _ => false

def writtenBase (x : CPx) : WireConfig.Base :=
  { name := Str.ofString "w", type := x.type, localIP := [], limitMode := [], enc := x.enc, comp := x.comp
  , plugin := x.plugin, enableHTTP2 := none }

/-- a client-side login rig: the connector configuration and the state of its files -/
structure LRig where
  cfg : ClientCfg
  disk : WireHist.CliDisk

structure WState where
  rig : Option Rig := none
  crig : Option CRig := none
  hrigs : List (String × WireHist.St) := []
  lrigs : List (String × LRig) := []

def putRig {α : Type} (rs : List (String × α)) (id : String) (x : α) : List (String × α) :=
  (id, x) :: rs.filter (fun p => p.1 != id)

def getRig {α : Type} (rs : List (String × α)) (id : String) : Option α := (rs.find? (fun p => p.1 == id)).map (·.2)

def fileSt : String → Option WireHist.FileSt
  | "ok" => some .ok
  | "empty" => some .empty
  | "bad" => some .empty
  | "gone" => some .gone
  | _ => none

def attemptStr : WireHist.Attempt → String
  | .noConn => "conn=0;up=0;clear=0;seen=0"
  | .tlsConn v => s!"conn=1;up={bit v};clear=0;seen=0"
  | .plainConn => "conn=1;up=1;clear=1;seen=1"

/-- the property predicate on the relay's own observation (`clear=`, `seen=`) -/
def loginProp (tls : Bool) (impl : String) : Option Bool :=
  match wireResBool impl "clear", wireResBool impl "seen" with
  | some cl, some sn => some (C05.loginObsOk tls cl sn)
  | _, _ => none

def two (a b : Bool) : String := bit a ++ bit b

def wireStep2 (st : WState) (tok : List String) (impl : String) : WState × Verdict :=
  match tok with
  | ["reset"] => ({}, verdictOf "-" impl)
  | "hstart" :: rest =>
    match wireKV rest "r", wireBool rest "force", wireNat rest "sca", wireNat rest "scert" with
    | some id, some f, some sca, some scert =>
      let cfg : ServerCfg := { force := f, trustedCA := sca != 0, certGiven := scert != 0 }
      let d0 : WireHist.SrvDisk :=
        { certIssuer := if scert = 0 then none else some scert, ca := if sca = 0 then none else some sca }
      match WireHist.start cfg d0 with
      | some r => ({ st with hrigs := putRig st.hrigs id { run := r, disk := d0 } }, verdictOf "up=1" impl)
      | none => (st, verdictOf "up=0" impl)
    | _, _, _, _ => (st, .bad "hstart")
  | "hrepl" :: rest =>
    match wireKV rest "r", wireKV rest "what", wireKV rest "to" with
    | some id, some what, some to =>
      match getRig st.hrigs id with
      | none => (st, verdictOf "norig" impl)
      | some h =>
        let d := h.disk
        let n := to.toNat?
        let d' : WireHist.SrvDisk :=
          if what == "cert" then
            (if !h.run.cfg.certGiven then d else { d with certIssuer := n, certGen := d.certGen + 1 })
          else
            (if !h.run.cfg.trustedCA then d else { d with ca := n, caEmpty := to == "bad" })
        ({ st with hrigs := putRig st.hrigs id (WireHist.step h (.replace d')) }, verdictOf "-" impl)
    | _, _, _ => (st, .bad "hrepl")
  | "hwait" :: rest =>
    match wireKV rest "r", wireNat rest "ms" with
    | some id, some ms =>
      match getRig st.hrigs id with
      | none => (st, verdictOf "norig" impl)
      | some h => ({ st with hrigs := putRig st.hrigs id (WireHist.step h (.wait ms)) }, verdictOf "-" impl)
    | _, _ => (st, .bad "hwait")
  | "hprobe" :: rest =>
    match wireKV rest "r", wireProto rest, wireBool rest "tls", wireBool rest "custom", wireNat rest "ccert" with
    | some id, some pr, some tls, some custom, some ccert =>
      match getRig st.hrigs id with
      | none => (st, verdictOf "norig" impl)
      | some h =>
        let tokOk := wireBool rest "tok" != some false
        let c : ClientCfg :=
          { tlsEnable := tls, disableCustomFirstByte := !custom, trustedCA := false, certGiven := ccert != 0
          , protocol := pr, serverName := [], serverAddr := loopback }
        let cli : Option Nat := if ccert = 0 then none else some ccert
        let up := WireHist.probeUp h c cli
        let m := if up then (if tokOk then "up=1" else "up=0:loginerr") else "up=0"
        let interpreted := impl == "up=1" || impl == "up=0:loginerr"
        -- property, at this point of the rig's history: an answer from frps only for a peer the force / trusted-CA
        -- rules admit (`histObsOk_sound`: with a trusted CA, a TLS peer with a certificate of the CA frps loaded)
        (st, verdictOf m impl (some (C05.histObsOk h c cli interpreted)))
    | _, _, _, _, _ => (st, .bad "hprobe")
  | "lstart" :: rest =>
    match wireKV rest "r", wireBool rest "tls", wireBool rest "custom", wireBool rest "mux", wireKV rest "ca",
          wireKV rest "pair" with
    | some id, some tls, some custom, some mux, some ca, some pair =>
      match (if ca == "none" then some WireHist.FileSt.ok else fileSt ca),
            (if pair == "none" then some WireHist.FileSt.ok else fileSt pair) with
      | some cs, some ps =>
        let c : ClientCfg :=
          { tlsEnable := tls, disableCustomFirstByte := !custom, trustedCA := ca != "none", certGiven := pair != "none"
          , serverName := [], serverAddr := loopback, tcpMux := mux }
        ({ st with lrigs := putRig st.lrigs id { cfg := c, disk := { ca := cs, pair := ps } } }, verdictOf "-" impl)
      | _, _ => (st, .bad "lstart file state")
    | _, _, _, _, _, _ => (st, .bad "lstart")
  | "lfile" :: rest =>
    match wireKV rest "r", wireKV rest "what", (wireKV rest "to").bind fileSt with
    | some id, some what, some fs =>
      match getRig st.lrigs id with
      | none => (st, verdictOf "norig" impl)
      | some l =>
        let d := l.disk
        let d' : WireHist.CliDisk :=
          if what == "ca" then (if l.cfg.trustedCA then { d with ca := fs } else d)
          else (if l.cfg.certGiven then { d with pair := fs } else d)
        ({ st with lrigs := putRig st.lrigs id { l with disk := d' } }, verdictOf "-" impl)
    | _, _, _ => (st, .bad "lfile")
  | "ltry" :: rest =>
    match wireKV rest "r" with
    | some id =>
      match getRig st.lrigs id with
      | none => (st, verdictOf "norig" impl)
      | some l =>
        -- property, on the relay's own observation of this attempt: TLS switched on ⇒ no connection with client
        -- bytes outside a TLS record stream, the Login's marker not readable (`attempts_never_plain`)
        (st, verdictOf (attemptStr (WireHist.attempt l.cfg l.disk)) impl (loginProp l.cfg.tlsEnable impl))
    | none => (st, .bad "ltry")
  | "lsvc" :: rest =>
    match wireBool rest "tls" with
    | some tls =>
      -- a real client.Service whose file appears after its first attempt: its own retry loop comes up, over TLS
      let m := if tls then "up=1;clear=0;seen=0" else "up=1;clear=1;seen=1"
      (st, verdictOf m impl (loginProp tls impl))
    | none => (st, .bad "lsvc")
  | "wsraw" :: rest =>
    match wireBool rest "force", wireNat rest "b", (wireKV rest "hdr").bind unhx with
    | some f, some b, some hdr =>
      let s : ServerCfg := { force := f, trustedCA := false, certGiven := false, tcpMux := false }
      let m := match WireHist.wsPeerReply s [([], hdr)] b with
        | some t => s!"resp={t}"
        | none => "resp=none"
      -- property: a forcing server answers a websocket peer without TLS with no protocol frame, whatever the byte
      -- and whatever its upgrade request said (`ws_forced_peer_uninterpreted`)
      let prop := !(serverForce s) || impl == "resp=none" || impl == "resp=noupgrade"
      (st, verdictOf m impl (some prop))
    | _, _, _ => (st, .bad "wsraw")
  | "cfgload" :: rest =>
    match wireKV rest "fmt", wireBool rest "pfx", (wireKV rest "type").bind parsePxType,
          (wireKV rest "plugin").bind parsePlugin, wireKV rest "enc", wireKV rest "comp", wireKV rest "mode",
          wireBool rest "ip" with
    | some _, some pfx, some ty, some pl, some enc, some comp, some mode, some ip =>
      -- what the operator wrote (a flag that is not written is false)
      let w : WireConfig.Base :=
        { name := Str.ofString "w0", type := ty, localIP := if ip then WireConfig.defaultLocalIP else []
        , limitMode := if mode == "c" then WireConfig.modeClient else if mode == "s" then WireConfig.modeServer else []
        , enc := enc == "1", comp := comp == "1", plugin := pl, enableHTTP2 := none }
      let user : Str := if pfx then Str.ofString "c05u" else []
      let l := WireConfig.loaded user w
      let m := WireConfig.marshal l
      let sv := WireConfig.serverCfgOf m
      let h2 := match l.enableHTTP2 with | none => "d" | some b => bit b
      let r := s!"l={two l.enc l.comp};m={two m.useEncryption m.useCompression};s={two sv.enc sv.comp};name={hx l.name};ip={hx l.localIP};mode={hx l.limitMode};h2={h2}"
      -- property: written useEncryption ⇒ the loaded configurer, the NewProxy message and frps's
      -- configurer all say useEncryption (`writtenKeptOk`)
      let encOf (k : String) : Option Bool := (wireResKV impl k).bind fun v => v.toList.head?.map (· == '1')
      let prop := match encOf "l", encOf "m", encOf "s" with
        | some a, some b, some c => some (C05.writtenKeptOk w.enc a b c)
        | _, _, _ => none
      (st, verdictOf r impl prop)
    | _, _, _, _, _, _, _, _ => (st, .bad "cfgload")
  | "wstart" :: rest =>
    match wireBool rest "tls", specsFrom rest 64 0 with
    | some tls, some pxs =>
      -- a rig that did not come up completely is dropped by the harness: no observation on it
      let crig : Option CRig := if impl == "up=1" then some { tls := tls, pxs := pxs } else none
      ({ st with crig := crig, rig := none }, verdictOf "up=1" impl)
    | _, _ => (st, .bad "wstart")
  | "wobs" :: rest =>
    match st.crig, wireNat rest "k" with
    | none, _ => (st, verdictOf "norig" impl)
    | some rg, some k =>
      match rg.pxs[k]? with
      | none => (st, verdictOf "badk" impl)
      | some x =>
        if !hasConv x.type x.plugin then (st, verdictOf "na" impl) else
        let w := writtenBase x
        let implAlive : Option Bool := match impl.toList with | ['a', a, 'p', _] => some (a == '1') | _ => none
        let implSeen : Option Bool := match impl.toList with | ['a', _, 'p', x] => some (x == '1') | _ => none
        let clearModel := Wire.payloadClear (WireConfig.pathOfWritten rg.tls [] w)
        -- (a conversation that is the user's own TLS carries the marker in its ClientHello too: every
        -- conversation has payload bytes that are readable unless a layer of frp covers them)
        -- with compression and no cipher on a clear transport, or after a broken conversation, the
        -- observed bit is taken
        let seen :=
          if (x.comp && !x.enc && !rg.tls) || implAlive == some false then implSeen.getD clearModel
          else clearModel
        -- property: TLS on the transport, or useEncryption in the WRITTEN configuration ⇒ marker absent
        (st, verdictOf s!"a1p{bit seen}" impl (implSeen.map (C05.reloadObsOk rg.tls x.enc)))
    | _, none => (st, .bad "wobs")
  | _ =>
    let r := wireStep st.rig tok impl
    ({ st with rig := r.1, crig := match tok with | "rstart" :: _ => none | _ => st.crig }, r.2)

def wire : Engine := { State := WState, init := {}, step := wireStep2 }

end Engines
end Frp
