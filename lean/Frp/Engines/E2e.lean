import Frp.Driver.Proto
import Frp.Props.C01
import Frp.Engines.Stack
/-
  Driver engine "e2e" (C01): oracle for harness/eng_tcpe2e.go (real frps + real frpc in one process).
  The model predicts: identity in both directions, the right backend's tag, end-of-stream at the
  backend after the user left (unless the server-side limiter closure defect applies), the
  proxy-protocol source = the user's address; the bandwidth trace is checked against the bucket bound.
-/
namespace Frp
namespace Engines
open Proto Layers Limit CloseGraph Tunnel

def e2eOpts (rest : List String) : Option Opts :=
  match stkBool rest "enc", stkBool rest "comp", stkKV rest "lim" with
  | some e, some c, some l => some { enc := e, comp := c, limSrv := l == "srv", limCli := l == "cli" }
  | _, _, _ => none

/-- 256 KB/s: 263 bytes per ms (rounded up), burst 262144; slack = pipeline buffers + 200 ms of scheduling -/
def e2eRate : Nat := 263
def e2eBurst : Nat := 262144
def e2eSlack : Nat := 98304 + 263 * 200

def e2eIncrements : Nat → List (Nat × Nat) → List (Nat × Nat)
  | _, [] => []
  | prev, (t, c) :: rest => (t, c - prev) :: e2eIncrements c rest

/-- small-limit transfers: `<limit> KB/s` = limit·1024 bytes/s, i.e. at most ⌈limit·1024/1000⌉ bytes per ms; burst =
    limit·1024; slack = 400 ms of scheduling between the limiter's grant and the receiver's clock + 2 KiB, and with
    compression one snappy block (≤ 64 KiB: the limiter paces the WIRE bytes, the decompressor hands a block on only
    when it is complete) -/
def e2eSmallRate (kb : Nat) : Nat := (kb * 1024 + 999) / 1000
def e2eSmallSlack (kb : Nat) (comp : Bool) : Nat := e2eSmallRate kb * 400 + 2048 + (if comp then 65536 else 0)

def e2eSamples (sep1 sep2 : String) (s : String) : Option (List (Nat × Nat)) :=
  if s = "" then some [] else
  (s.splitOn sep1).mapM fun e =>
    match e.splitOn sep2 with
    | [t, c] => match t.toNat?, c.toNat? with
      | some t, some c => some (t, c)
      | _, _ => none
    | _ => none

/-- one element `side.dir.kb.<enc><comp>.n` against its result `got:eof:equal:samples`: complete, unchanged, end-of-stream, and the
    receive trace within burst + rate × span -/
def e2eSmallOk (el res : String) : Option (String × Bool) :=
  match el.splitOn ".", res.splitOn ":" with
  | [_, _, kb, ec, n], [got, eof, eq, samples] =>
    match kb.toNat?, n.toNat?, got.toNat?, e2eSamples "/" "." samples with
    | some kb, some n, some got, some ss =>
      let bound := windowsOkFrom (e2eSmallRate kb) (kb * 1024) (e2eSmallSlack kb (ec.endsWith "1")) (e2eIncrements 0 ss)
      some (s!"{n}:1:1:{samples}", got == n && eof == "1" && eq == "1" && bound)
    | _, _, _, _ => none
  | _, _ => none

def e2eSmallAll : List String → List String → Option (List String × Bool)
  | [], [] => some ([], true)
  | e :: es, r :: rs => do
    let (m, ok) ← e2eSmallOk e r
    let (ms, oks) ← e2eSmallAll es rs
    pure (m :: ms, ok && oks)
  | _, _ => none

def e2eStep (st : Unit) (tok : List String) (impl : String) : Unit × Verdict :=
  match tok with
  | ["reset"] => (st, verdictOf "-" impl)
  | "xfer" :: rest =>
    match e2eOpts rest, stkBool rest "pp" with
    | some o, some ppOn =>
      -- both ends' transforming layers agree (C01.mirror_proxy) ⇒ identity; close reaches the work
      -- connection iff the server's stack lets it (C01.server_close_current)
      let mirror := transforming (serverStack o) == transforming (clientStack o)
      let eof := reaches (serverGraph o)
      let small := match stkRes impl "sent" with
        | some s => s!";sent={s};got={s}"
        | none => ""
      let m := s!"up={stkBit mirror};down={stkBit mirror};tag=1;eof={stkBit eof};pp={if ppOn then "1" else "na"}{small}"
      let flags := stkRes impl "up" == some "1" && stkRes impl "down" == some "1" && stkRes impl "tag" == some "1" &&
        stkRes impl "eof" == some "1" && stkRes impl "pp" != some "0"
      let bytesOk := match (stkRes impl "sent").bind unhx, (stkRes impl "got").bind unhx with
        | some s, some g => C01.xferHoldsOn { sent := s, got := g, complete := true, eofSeen := stkRes impl "eof" == some "1" }
        | _, _ => true
      (st, verdictOf m impl (some (flags && bytesOk)))
    | _, _ => (st, .bad "xfer")
  | "multi" :: rest =>
    match stkKV rest "px" with
    | some px =>
      let k := (px.splitOn ",").length
      let prop := stkRes impl "xw" == some "0" && stkRes impl "bad" == some "0"
      (st, verdictOf s!"ok={k};xw=0;bad=0" impl (some prop))
    | none => (st, .bad "multi")
  | "bw" :: rest =>
    match stkNat rest "n", stkRes impl "s" with
    | some n, some s =>
      let samples : Option (List (Nat × Nat)) := (s.splitOn ",").mapM fun e =>
        match e.splitOn ":" with
        | [t, c] => match t.toNat?, c.toNat? with
          | some t, some c => some (t, c)
          | _, _ => none
        | _ => none
      match samples with
      | some ss =>
        let prop := windowsOkFrom e2eRate e2eBurst e2eSlack (e2eIncrements 0 ss) && stkResNat impl "total" == some n
        (st, verdictOf s!"total={n};s={s}" impl (some prop))
      | none => (st, .bad "bw samples")
    | _, _ => (st, verdictOf "total=?;s=?" impl (some false))
  | "slow" :: rest =>
    match stkNat rest "n" with
    | some n =>
      -- a reader that pauses changes nothing: complete stream, then end-of-stream (C01.tunnel_*_complete)
      let n := if stkKV rest "dir" == some "up" && n < 17 then 17 else n
      let prop := stkResNat impl "got" == some n && stkRes impl "eof" == some "1" && stkRes impl "eq" == some "1"
      (st, verdictOf s!"got={n};eof=1;eq=1" impl (some prop))
    | none => (st, .bad "slow")
  | "sbw" :: rest =>
    match stkKV rest "q" with
    | some q =>
      let els := q.splitOn ","
      match (stkRes impl "r").bind (fun r => e2eSmallAll els (r.splitOn "|")) with
      | some (ms, ok) => (st, verdictOf s!"r={"|".intercalate ms}" impl (some ok))
      | none => (st, verdictOf "r=?" impl (some false))
    | none => (st, .bad "sbw")
  | _ => (st, .bad "unknown op")

def e2e : Engine := { State := Unit, init := (), step := e2eStep }

end Engines
end Frp
