import Frp.Driver.Proto
import Frp.Props.C01
import Frp.Engines.Stack
/-
  Driver engine "e2e" (C01): oracle for harness/eng_tcpe2e.go (real frps + real frpc in one process).
  The model predicts: identity in both directions, the right backend's tag, end-of-stream at the
  backend after the user left (unless the server-side limiter closure defect applies), the
  proxy-protocol source = the user's address; the bandwidth trace is checked against the bucket bound.
-/
namespace Frp
namespace Engines
open Proto Layers Limit CloseGraph Tunnel

def e2eOpts (rest : List String) : Option Opts :=
  match stkBool rest "enc", stkBool rest "comp", stkKV rest "lim" with
  | some e, some c, some l => some { enc := e, comp := c, limSrv := l == "srv", limCli := l == "cli" }
  | _, _, _ => none

/-- 256 KB/s: 263 bytes per ms (rounded up), burst 262144; slack = pipeline buffers + 200 ms of scheduling -/
def e2eRate : Nat := 263
def e2eBurst : Nat := 262144
def e2eSlack : Nat := 98304 + 263 * 200

def e2eIncrements : Nat → List (Nat × Nat) → List (Nat × Nat)
  | _, [] => []
  | prev, (t, c) :: rest => (t, c - prev) :: e2eIncrements c rest

/-- small-limit transfers: `<limit> KB/s` = limit·1024 bytes/s, i.e. at most ⌈limit·1024/1000⌉ bytes per ms; burst =
    limit·1024; slack = 400 ms of scheduling between the limiter's grant and the receiver's clock + 2 KiB, and with
    compression one snappy block (≤ 64 KiB: the limiter paces the WIRE bytes, the decompressor hands a block on only
    when it is complete) -/
def e2eSmallRate (kb : Nat) : Nat := (kb * 1024 + 999) / 1000
def e2eSmallSlack (kb : Nat) (comp : Bool) : Nat := e2eSmallRate kb * 400 + 2048 + (if comp then 65536 else 0)

def e2eSamples (sep1 sep2 : String) (s : String) : Option (List (Nat × Nat)) :=
  if s = "" then some [] else
  (s.splitOn sep1).mapM fun e =>
    match e.splitOn sep2 with
    | [t, c] => match t.toNat?, c.toNat? with
      | some t, some c => some (t, c)
      | _, _ => none
    | _ => none

/-- one element `side.dir.kb.<enc><comp>.n` against its result `got:eof:equal:samples`: complete, unchanged, end-of-stream, and the
    receive trace within burst + rate × span -/
def e2eSmallOk (el res : String) : Option (String × Bool) :=
  match el.splitOn ".", res.splitOn ":" with
  | [_, _, kb, ec, n], [got, eof, eq, samples] =>
    match kb.toNat?, n.toNat?, got.toNat?, e2eSamples "/" "." samples with
    | some kb, some n, some got, some ss =>
      let bound := windowsOkFrom (e2eSmallRate kb) (kb * 1024) (e2eSmallSlack kb (ec.endsWith "1")) (e2eIncrements 0 ss)
      some (s!"{n}:1:1:{samples}", got == n && eof == "1" && eq == "1" && bound)
    | _, _, _, _ => none
  | _, _ => none

def e2eSmallAll : List String → List String → Option (List String × Bool)
  | [], [] => some ([], true)
  | e :: es, r :: rs => do
    let (m, ok) ← e2eSmallOk e r
    let (ms, oks) ← e2eSmallAll es rs
    pure (m :: ms, ok && oks)
  | _, _ => none

/-! ### proxy life cycle on the vhost muxers (`life`): the lattice and probe table of harness/eng_tcpe2e_life.go -/

/-- (tcpmux?, custom domain, routeByHTTPUser); the index is what a probe reports -/
def lifeLattice : List (Bool × String × String) :=
  [ (true, "a.life.test", ""), (true, "a.life.test", "alice"), (true, "a.life.test", "bob"),
    (true, "b.life.test", "alice"), (true, "b.life.test", "carol"),
    (true, "*.life.test", ""), (true, "*.life.test", "alice"),
    (true, "h.x.life.test", ""), (true, "*.x.life.test", "bob"),
    (false, "a.life.test", ""), (false, "h.x.life.test", ""), (false, "*.life.test", ""), (false, "*.x.life.test", "") ]

def lifeHosts : List String := ["a.life.test", "b.life.test", "w.life.test", "h.x.life.test", "w.x.life.test"]
def lifeUsers : List String := ["", "alice", "bob", "carol"]

/-- (tcpmux?, host, HTTP user): tcpmux every host × every user, https every host -/
def lifeProbes : List (Bool × String × String) :=
  (lifeHosts.flatMap fun h => lifeUsers.map fun u => (true, h, u)) ++ lifeHosts.map fun h => (false, h, "")

/-- a host that a proxy's own domain covers and no more specific route of the lattice does -/
def lifeOwnHost (d : String) : String := if d.startsWith "*." then "w." ++ (d.drop 2).toString else d

/-- the two route tables (tcpmux muxer, https muxer) -/
structure LifeTabs where
  mux : Routers
  https : Routers

def lifeActive (mask i : Nat) : Bool := (mask >>> i) % 2 == 1

def lifeAdd (T : LifeTabs) (i : Nat) : LifeTabs :=
  match lifeLattice[i]? with
  | some (true, d, u) => { T with mux := (Router.add T.mux (Str.ofString d) [] (Str.ofString u) i).1 }
  | some (false, d, u) => { T with https := (Router.add T.https (Str.ofString d) [] (Str.ofString u) i).1 }
  | none => T

def lifeDel (T : LifeTabs) (i : Nat) : LifeTabs :=
  match lifeLattice[i]? with
  | some (true, d, u) => { T with mux := Router.del T.mux (Str.ofString d) [] (Str.ofString u) }
  | some (false, d, u) => { T with https := Router.del T.https (Str.ofString d) [] (Str.ofString u) }
  | none => T

/-- frpc's reload: the proxies that are no longer configured are closed (Routers.Del at frps), then the new ones start -/
def lifeReload (T : LifeTabs) (old new : Nat) : LifeTabs :=
  let idx := List.range lifeLattice.length
  let T := (idx.filter fun i => lifeActive old i && !lifeActive new i).foldl lifeDel T
  (idx.filter fun i => !lifeActive old i && lifeActive new i).foldl lifeAdd T

def lifeOwner (T : LifeTabs) (p : Bool × String × String) : String :=
  let R := if p.1 then T.mux else T.https
  match Router.getVhost R (Str.ofString p.2.1) [] (Str.ofString p.2.2) with
  | some r => toString r.payload
  | none => "-"

/-- C01 on one step: a user of an ACTIVE proxy's own endpoint is answered by that proxy's backend -/
def lifeStepOk (mask : Nat) (owners : List String) : Bool :=
  owners.length == lifeProbes.length &&
  (List.range lifeLattice.length).all fun i =>
    !lifeActive mask i ||
    (match lifeLattice[i]? with
     | some (m, d, u) => owners[lifeProbes.idxOf (m, lifeOwnHost d, u)]? == some (toString i)
     | none => true)

def lifeRun : LifeTabs → Nat → List Nat → List String
  | _, _, [] => []
  | T, old, m :: ms =>
    let T := lifeReload T old m
    ",".intercalate (lifeProbes.map (lifeOwner T)) :: lifeRun T m ms

/-! ### a running frpc is re-configured (`reload`), simultaneous users of one proxy-protocol proxy (`ppc`):
    harness/eng_tcpe2e_reload.go; models Frp/Model/Reload.lean (Manager.UpdateAll, GetWorkConnFromPool) -/

def rlNames : List Nat := [0, 1, 2, 3]

/-- `<p>.<b>.<r>.<v>.<e>.<u>`: r (endpoint) and e (encryption + compression) are what frps sees -/
def rlEntry (s : String) : Option Reload.Cfg :=
  match (s.splitOn ".").mapM String.toNat? with
  | some [p, b, r, v, e, u] =>
    if p < 4 && b < 5 && r < 2 && v < 3 && e < 2 && u < 2 then
      some { name := p, backend := b, via := u, ppv := v, remote := 2 * r + e }
    else none
  | _ => none

def rlStep (s : String) : Option (List Reload.Cfg) :=
  if s = "-" then some [] else (s.splitOn "+").mapM rlEntry

def rlVia (u : Nat) : String := if u == 0 then "t" else "u"

/-- `<backend><t|u>` -/
def rlWho (s : String) : Option (Nat × Nat) :=
  let cs := s.toList
  match cs.getLast?, (String.ofList cs.dropLast).toNat? with
  | some 't', some b => some (b, 0)
  | some 'u', some b => some (b, 1)
  | _, _ => none

/-- one answer of the reload op: `<backend><t|u>.<header version>.<1|0|n>` -/
def rlObs (s : String) : Option (Nat × Nat × Nat × Bool) :=
  match s.splitOn "." with
  | [who, v, named] =>
    match rlWho who, v.toNat? with
    | some (b, u), some v => some (b, u, v, (named == "1" && v != 0) || (named == "n" && v == 0))
    | _, _ => none
  | _ => none

def rlShow (T : Reload.Table) (n : Nat) : String :=
  match Reload.dialled T n with
  | some (b, u, v) => s!"{b}{rlVia u}.{v}.{if v == 0 then "n" else "1"}"
  | none => "-"

def rlRun : Reload.Table → List (List Reload.Cfg) → Reload.Table × List String
  | T, [] => (T, [])
  | T, cs :: rest =>
    let T := Reload.updateAll T cs
    let (T', out) := rlRun T rest
    (T', ",".intercalate (rlNames.map (rlShow T)) :: out)

/-- one answer of the ppc op: `<backend><t|u>.<header version>.<owner | x>.<dst ok>.<line ok>` -/
def ppcObs (s : String) : Option (Nat × Nat × Nat × Option Nat × Bool × Bool) :=
  match s.splitOn "." with
  | [who, v, owner, d, l] =>
    match rlWho who, v.toNat? with
    | some (b, u), some v => some (b, u, v, owner.toNat?, d == "1", l == "1")
    | _, _ => none
  | _ => none

/-- the model's answers for k simultaneous users: every fill before every send (the worst interleaving for a shared
    message), header from each user's own StartWorkConn, owner = whose source the header carries -/
def ppcModel (b u v k ips : Nat) : List String :=
  let conns : List WorkMsg.Conn := (List.range k).map fun i =>
    { src := some { host := Str.ofString s!"127.0.0.{2 + i % ips}", port := 1 + i }, dst := some { host := loopbackStr, port := 7 } }
  let evs := (List.range k).map WorkMsg.Ev.fill ++ (List.range k).map WorkMsg.Ev.send
  let st := WorkMsg.run false (Str.ofString "rl") conns evs
  let ver := Str.ofString (if v == 1 then "v1" else if v == 2 then "v2" else "")
  (List.range k).map fun i =>
    match (st.sent.find? fun p => p.1 == i).bind fun p => ppHeader ver p.2 with
    | some h =>
      let owner := match conns.findIdx? fun c => c.src == some h.src with
        | some j => toString j
        | none => "x"
      s!"{b}{rlVia u}.{h.version}.{owner}.{stkBit (h.dst.port == 7)}.1"
    | none => s!"{b}{rlVia u}.0.x.0.1"

abbrev E2eState := List (String × Reload.Table)

def e2eTable (st : E2eState) (cfg : String) : Reload.Table := ((st.find? fun p => p.1 == cfg).map (·.2)).getD []
def e2eSetTable (st : E2eState) (cfg : String) (T : Reload.Table) : E2eState := (cfg, T) :: st.filter fun p => p.1 != cfg

def hexNat? (s : String) : Option Nat :=
  if s.isEmpty then none else
  s.toList.foldlM (fun acc c => (hexVal c).map (acc * 16 + ·)) 0

def e2eStep (st : E2eState) (tok : List String) (impl : String) : E2eState × Verdict :=
  match tok with
  | ["reset"] => (st, verdictOf "-" impl)
  | "reload" :: rest =>
    match stkKV rest "cfg", (stkKV rest "steps").bind fun s => (s.splitOn "/").mapM rlStep with
    | some cfg, some steps =>
      -- Manager.UpdateAll along the history, from the table the earlier ops of this pair left (C01.reload_bridges_last)
      let (T, out) := rlRun (e2eTable st cfg) steps
      let prop := match stkRes impl "s" with
        | some r =>
          let rs := r.splitOn "/"
          rs.length == steps.length &&
            (steps.zip rs).all fun (cs, owners) =>
              let os := (owners.splitOn ",").map rlObs
              os.length == rlNames.length && C01.reloadHoldsOn cs rlNames fun n => (os[n]?).join
        | none => false
      (e2eSetTable st cfg T, verdictOf ("s=" ++ "/".intercalate out) impl (some prop))
    | _, _ => (st, .bad "reload")
  | "ppc" :: rest =>
    match stkKV rest "cfg", (stkKV rest "px").bind rlEntry, stkNat rest "k", stkNat rest "rounds", stkNat rest "ips" with
    | some cfg, some c, some k, some rounds, some ips =>
      if ips == 0 then (st, .bad "ppc ips") else
      let T := Reload.updateAll (Reload.updateAll (e2eTable st cfg) []) [c]
      match Reload.dialled T c.name with
      | some (b, u, v) =>
        -- every user's header names that very user (C01.startmsg_header_own)
        let round := ",".intercalate (ppcModel b u v k ips)
        let prop := match stkRes impl "r" with
          | some r =>
            let rs := r.splitOn "/"
            rs.length == rounds && rs.all fun rd =>
              let os := (rd.splitOn ",").map ppcObs
              os.length == k && C01.ppcHoldsOn c.backend c.via c.ppv os
          | none => false
        (e2eSetTable st cfg T, verdictOf ("r=" ++ "/".intercalate (List.replicate rounds round)) impl (some prop))
      | none => (st, .bad "ppc model")
    | _, _, _, _, _ => (st, .bad "ppc")
  | "xfer" :: rest =>
    match e2eOpts rest, stkBool rest "pp" with
    | some o, some ppOn =>
      -- both ends' transforming layers agree (C01.mirror_proxy) ⇒ identity; close reaches the work
      -- connection iff the server's stack lets it (C01.server_close_current)
      let mirror := transforming (serverStack o) == transforming (clientStack o)
      let eof := reaches (serverGraph o)
      let small := match stkRes impl "sent" with
        | some s => s!";sent={s};got={s}"
        | none => ""
      let m := s!"up={stkBit mirror};down={stkBit mirror};tag=1;eof={stkBit eof};pp={if ppOn then "1" else "na"}{small}"
      let flags := stkRes impl "up" == some "1" && stkRes impl "down" == some "1" && stkRes impl "tag" == some "1" &&
        stkRes impl "eof" == some "1" && stkRes impl "pp" != some "0"
      let bytesOk := match (stkRes impl "sent").bind unhx, (stkRes impl "got").bind unhx with
        | some s, some g => C01.xferHoldsOn { sent := s, got := g, complete := true, eofSeen := stkRes impl "eof" == some "1" }
        | _, _ => true
      (st, verdictOf m impl (some (flags && bytesOk)))
    | _, _ => (st, .bad "xfer")
  | "multi" :: rest =>
    match stkKV rest "px" with
    | some px =>
      let k := (px.splitOn ",").length
      let prop := stkRes impl "xw" == some "0" && stkRes impl "bad" == some "0"
      (st, verdictOf s!"ok={k};xw=0;bad=0" impl (some prop))
    | none => (st, .bad "multi")
  | "bw" :: rest =>
    match stkNat rest "n", stkRes impl "s" with
    | some n, some s =>
      let samples : Option (List (Nat × Nat)) := (s.splitOn ",").mapM fun e =>
        match e.splitOn ":" with
        | [t, c] => match t.toNat?, c.toNat? with
          | some t, some c => some (t, c)
          | _, _ => none
        | _ => none
      match samples with
      | some ss =>
        let prop := windowsOkFrom e2eRate e2eBurst e2eSlack (e2eIncrements 0 ss) && stkResNat impl "total" == some n
        (st, verdictOf s!"total={n};s={s}" impl (some prop))
      | none => (st, .bad "bw samples")
    | _, _ => (st, verdictOf "total=?;s=?" impl (some false))
  | "slow" :: rest =>
    match stkNat rest "n" with
    | some n =>
      -- a reader that pauses changes nothing: complete stream, then end-of-stream (C01.tunnel_*_complete)
      let n := if stkKV rest "dir" == some "up" && n < 17 then 17 else n
      let prop := stkResNat impl "got" == some n && stkRes impl "eof" == some "1" && stkRes impl "eq" == some "1"
      (st, verdictOf s!"got={n};eof=1;eq=1" impl (some prop))
    | none => (st, .bad "slow")
  | "sbw" :: rest =>
    match stkKV rest "q" with
    | some q =>
      let els := q.splitOn ","
      match (stkRes impl "r").bind (fun r => e2eSmallAll els (r.splitOn "|")) with
      | some (ms, ok) => (st, verdictOf s!"r={"|".intercalate ms}" impl (some ok))
      | none => (st, verdictOf "r=?" impl (some false))
    | none => (st, .bad "sbw")
  | "life" :: rest =>
    match (stkKV rest "steps").bind fun s => (s.splitOn "/").mapM hexNat? with
    | some masks =>
      -- route tables: Router.add / Router.del / getVhost (C06's model); C01.survivor_keeps_route
      let m := "s=" ++ "/".intercalate (lifeRun { mux := Router.empty, https := Router.empty } 0 masks)
      let prop := match stkRes impl "s" with
        | some r =>
          let steps := r.splitOn "/"
          steps.length == masks.length &&
            (masks.zip steps).all fun (mask, owners) => lifeStepOk mask (owners.splitOn ",")
        | none => false
      (st, verdictOf m impl (some prop))
    | none => (st, .bad "life")
  | "sched" :: rest =>
    match stkKV rest "g" with
    | some g =>
      -- every connection of every group: own tag, own bytes both ways (C01.no_crosswire, pool_no_sharing)
      let k := ((g.splitOn ",").map fun grp => (grp.splitOn "+").length).foldl (· + ·) 0
      let prop := stkRes impl "xw" == some "0" && stkRes impl "bad" == some "0" && stkResNat impl "ok" == some k
      (st, verdictOf s!"ok={k};xw=0;bad=0" impl (some prop))
    | none => (st, .bad "sched")
  | _ => (st, .bad "unknown op")

def e2e : Engine := { State := E2eState, init := [], step := e2eStep }

end Engines
end Frp
