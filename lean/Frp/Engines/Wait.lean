import Frp.Driver.Proto
import Frp.Model.Backoff
import Frp.Model.Watchdog
import Frp.Model.Reconnect
import Frp.Model.SessEnd
import Frp.Model.Rereg
import Frp.Model.Dispatch
import Frp.Model.SessLive
import Frp.Model.HbConf
import Frp.Props.C14
/-
  Driver engine "wait" (C14): replays the harness trace of the real back-off manager, the real
  `BackoffUntil` loop, the real server/client heartbeat watchdogs and the real client re-login loops
  against the models.  Everything timed is compared *relationally*: the implementation's observed
  delay / closure time must lie in the interval the model allows, and the model continues from the
  observed value.  `prop` = the C14 predicates evaluated on the implementation's own numbers.
-/
namespace Frp
namespace Engines
open Proto Backoff

/-- clock-read margin (ns) around the fast-retry cutoff inside which both outcomes of
    `now.After(cutoff)` are accepted (the harness reads the clock just before/after the call) -/
def boundaryMargin : Nat := 1000000

/-- scheduling slack (ns) tolerated on top of timer-based upper bounds -/
def slackNs : Nat := 400000000
/-- same in µs (watchdog scenarios) -/
def slackUs : Nat := 400000

structure WaitState where
  o      : Opts := loginOpts 0
  have_  : Bool := false
  lost   : Bool := false             -- delays left the model's domain (> 2^53 ns, only without MaxDuration)
  sts    : List Backoff.St := []          -- states compatible with what was observed so far
  prev   : Nat := 0
  shorts : List Nat := []                 -- times (ns) of observed delays shorter than any non-fast delay
  wds    : List (String × Nat × Bool × String) := []    -- id ↦ (T seconds, heartbeat scope, script)
  cws    : List (String × Nat × Nat × String × List String) := []   -- id ↦ (I, T, initial proxy set, script)
  hbs    : List (String × Bool × Int × Int × Nat) := []   -- id ↦ (tcpMux as written or defaulted, written I, written T (0 = not written), K)

def nats (ts : List String) : Option (List Nat) := ts.mapM String.toNat?

def optsOf : List Nat → Option Opts
  | [d, fn, fd, jn, jd, mx, ini, frc, frd, fjn, fjd, frw] =>
    some { duration := d, facNum := fn, facDen := fd, jitNum := jn, jitDen := jd, maxDuration := mx,
           initIfFail := ini, frCount := frc, frDelay := frd, frJitNum := fjn, frJitDen := fjd, frWindow := frw }
  | _ => none

def kindStr : Kind → String
  | .first => "first" | .fast => "fast" | .slow => "slow" | .base => "base"

/-- all successor (state, out) pairs for one call observed between clock reads `tb` and `ta` -/
def succs (o : Opts) (s : Backoff.St) (tb ta prev : Nat) (err : Bool) : List (Backoff.St × Out) :=
  match s.cutoff with
  | some ct =>
    if tb ≤ ct + boundaryMargin ∧ ct ≤ ta + boundaryMargin then
      [Backoff.step o s (ct + 1) prev err, Backoff.step o s ct prev err]
    else [Backoff.step o s tb prev err]
  | none => [Backoff.step o s tb prev err]

def dedup (l : List Backoff.St) : List Backoff.St := l.foldl (fun acc x => if acc.contains x then acc else acc ++ [x]) []

/-- `prev` is in the domain of the lower-bound theorem -/
def prevInDomain (o : Opts) (prev : Nat) : Bool := prev = 0 || decide (C14.lowB o ≤ prev)

/-- number of recorded short delays within the window ending at `now` -/
def shortsInWindow (o : Opts) (shorts : List Nat) (now : Nat) : Nat :=
  (shorts.filter (fun t => now ≤ t + o.frWindow)).length

def boStep (st : WaitState) (prevTok : String) (err : Bool) (impl : String) : WaitState × Verdict :=
  if !st.have_ then (st, verdictOf "nomgr" impl) else
  if st.lost then (st, .skip "beyond-2^53") else
  if impl = "overflow" then
    -- legitimate only when the model's own bound left the exactly representable range
    let prev := match prevTok.toNat? with | some p => p | none => st.prev
    let big := st.sts.any (fun s => (Backoff.step st.o s 0 prev err).2.hi > 2 ^ 53) || decide (prev > 2 ^ 53)
    if big then ({ st with lost := true }, .skip "beyond-2^53")
    else (st, verdictOf "delay" impl (some false))
  else
  match nats (impl.splitOn " ") with
  | some [tb, ta, d] =>
    let prev := match prevTok.toNat? with | some p => p | none => st.prev
    let o := st.o
    let all := st.sts.flatMap (fun s => succs o s tb ta prev err)
    let good := all.filter (fun r => r.2.lo ≤ d ∧ d ≤ r.2.hi)
    let next := dedup ((if good.isEmpty then all else good).map (·.1))
    -- property on the implementation's own delay
    let inDom := decide (C14.WF o) && prevInDomain o prev
    let isShort := err && inDom && decide (d < C14.nonFastFloor o)
    let shorts' := if isShort then tb :: st.shorts else st.shorts
    let prop : Option Bool :=
      if inDom then
        some (C14.delayHolds o d && decide (shortsInWindow o shorts' tb ≤ 2 * o.frCount))
      else if o.maxDuration ≠ 0 then some (decide (d ≤ C14.upB o ∨ d ≤ prev))   -- only the cap is claimed outside WF
      else none
    let st' := { st with sts := next, prev := d, shorts := shorts'.take 64 }
    match good with
    | _ :: _ => (st', verdictOf impl impl prop)
    | [] =>
      let m := match all with
        | r :: _ => s!"{kindStr r.2.kind}:{r.2.lo}..{r.2.hi}"
        | [] => "nostate"
      (st', verdictOf m impl prop)
  | _ => (st, .bad "bo-result")

/-! ### BackoffUntil -/

structure Rec where
  prev : Nat
  err  : Bool
  d    : Nat
  gap  : Option Nat        -- ns until the next f() started (none: no further f call)
  last : Bool := false     -- gap measured to loop exit (stop channel)

def parseRec (s : String) : Option Rec :=
  match s.splitOn ":" with
  | [p, e, d, g] =>
    match p.toNat?, e.toNat?, d.toNat? with
    | some p, some e, some d =>
      if g = "-" then some ⟨p, e = 1, d, none, false⟩
      else if g.startsWith "x" then (g.drop 1).toNat?.map (fun x => ⟨p, e = 1, d, some x, true⟩)
      else g.toNat?.map (fun x => ⟨p, e = 1, d, some x, false⟩)
    | _, _, _ => none
  | _ => none

/-- check the records of one `BackoffUntil` run against the loop model; returns (problem?, propHolds) -/
def checkUntil (o : Opts) (script : List Char) (recs : List Rec) : Option String × Bool := Id.run do
  let mut sts : List Backoff.St := [Backoff.init]
  let mut prevD := 0
  let mut problem : Option String := none
  let mut prop := true
  let mut k := 0
  let mut now := 0
  let inDom := decide (C14.WF o)
  for r in recs do
    -- which call is this: record 0 is the ticker call Backoff(0,false); record k ≥ 1 follows f call k-1
    let expErr := if k = 0 then false else (script.getD (k - 1) 's') == 'e'
    let expPrev := if k = 0 then 0 else prevD
    if r.prev ≠ expPrev ∨ r.err ≠ expErr then
      problem := problem <|> some s!"call{k}:args({r.prev},{r.err})≠({expPrev},{expErr})"
    -- time is reconstructed from the measured gaps; near the fast-retry cutoff both clock outcomes are kept
    let all := sts.flatMap (fun s => succs o s now (now + 200000) r.prev r.err)
    let good := all.filter (fun x => x.2.lo ≤ r.d ∧ r.d ≤ x.2.hi)
    if good.isEmpty then
      match all with
      | x :: _ => problem := problem <|> some s!"call{k}:{kindStr x.2.kind}:{x.2.lo}..{x.2.hi}"
      | [] => problem := problem <|> some "nostate"
      sts := dedup (all.map (·.1))
    else
      sts := dedup (good.map (·.1))
    match r.gap with
    | some g =>
      if k = 0 then
        -- f() runs first: no wait before the first attempt
        if g > slackNs then problem := problem <|> some "first-f-delayed"
      else if r.last then
        pure ()     -- stopped during the wait: nothing to claim
      else
        -- the loop really waits the delay it was given before calling f again
        if g < r.d then
          problem := problem <|> some s!"call{k}:slept<{r.d}"
          prop := false
        if g > r.d + slackNs then
          problem := problem <|> some s!"call{k}:slept>{r.d}+slack"
        if inDom ∧ g < C14.lowB o then prop := false
        if inDom ∧ o.maxDuration ≠ 0 ∧ g > C14.upB o + slackNs then prop := false
    | none => pure ()
    if k ≥ 1 ∧ inDom ∧ ¬ C14.delayHolds o r.d then prop := false
    -- `var delay` starts at 0: the ticker call's result is not stored in `delay`
    prevD := if k = 0 then 0 else r.d
    now := now + (match r.gap with | some g => g | none => r.d)
    k := k + 1
  -- number of calls: ticker + one per executed e/s/x step (sliding: Backoff is called after every f that is not done)
  let steps := (script.filter (fun c => c == 'e' || c == 's' || c == 'x')).length
  let expCalls := 1 + steps
  if recs.length ≠ expCalls then problem := problem <|> some s!"calls={recs.length}≠{expCalls}"
  return (problem, prop)

def untilStep (st : WaitState) (o : Opts) (script : String) (impl : String) : WaitState × Verdict :=
  match impl.splitOn " " with
  | [_f, recsTok] =>
    match (recsTok.splitOn ",").mapM parseRec with
    | some recs =>
      let (problem, prop) := checkUntil o script.toList recs
      match problem with
      | none => (st, verdictOf impl impl (some prop))
      | some p => (st, verdictOf p impl (some prop))
    | none => (st, .bad "until-recs")
  | _ => (st, verdictOf "records" impl (some false))   -- "hang" etc.

/-! ### server watchdog -/

/-- parse `v:123,i:456,c:789` → [(time µs, kind)]: v / i / j = ping with a valid key / a wrong key / a valid key
    that the Ping plugin rejects; n / e = NewProxy (registered / refused); c = CloseProxy; h = NatHoleReport -/
def parseSent (s : String) : Option (List (Nat × String)) :=
  if s = "-" then some [] else
  (s.splitOn ",").mapM (fun it =>
    match it.splitOn ":" with
    | [k, t] => t.toNat?.map (fun t => (t, k))
    | _ => none)

def wdInsert (x : Nat × Liveness.Ev) : List (Nat × Liveness.Ev) → List (Nat × Liveness.Ev)
  | [] => [x]
  | y :: ys => if x.1 < y.1 then x :: y :: ys else y :: wdInsert x ys

/-- what the scripted client wrote, as the liveness model sees it: a ping is valid when the Ping plugin and
    VerifyPing accept it (wrong key: only looked at with the HeartBeats scope); everything else is other
    traffic of the kind the server's registerMsgHandlers gives it -/
def wdEvents (scope : Bool) (sent : List (Nat × String)) : List (Nat × Liveness.Ev) :=
  let kind (n : String) := C14.kindIn Gen.SessFacts.serverClockRefresh n
  (sent.filterMap (fun (t, k) =>
    match k with
    | "v" => some (t, Liveness.Ev.beat true)
    | "i" => some (t, Liveness.Ev.beat (!scope))
    | "j" => some (t, Liveness.Ev.beat false)
    | "n" => some (t, Liveness.Ev.other (kind "NewProxy"))
    | "e" => some (t, Liveness.Ev.other (kind "NewProxy"))
    | "c" => some (t, Liveness.Ev.other (kind "CloseProxy"))
    | "C" => some (t, Liveness.Ev.other (kind "CloseProxy"))
    | "h" => some (t, Liveness.Ev.other (kind "NatHoleReport"))
    | _ => none)).foldr wdInsert []

/-- closure tolerance below the bound (the harness' `t0` is read after the server stored lastPing) -/
def earlyTolUs : Nat := 30000

/-- one item of the scripted client: ping (valid / wrong key), NewProxy held at a phase, cut -/
inductive WdItem
  | ping
  | newProxy (phase : Nat) (hold : Nat)     -- phase 0..3 = plug / checked / ran / added
  | cut
  | user (k : Nat)                          -- k users connect to the proxy registered last and stay
  | closeLast                               -- CloseProxy of the proxy registered last

def parseWdItem (s : String) : Option WdItem :=
  match s.toList with
  | 'v' :: _ => some .ping
  | 'i' :: _ => some .ping
  | 'j' :: _ => some .ping
  | 'c' :: _ => some .ping       -- CloseProxy of an unknown name, a refused NewProxy, a NatHoleReport: handled and gone
  | 'e' :: _ => some .ping
  | 'h' :: _ => some .ping
  | 'x' :: _ => some .cut
  | 'C' :: _ => some .closeLast
  | 'u' :: rest =>
    match (String.ofList rest).splitOn "/" with
    | [_, k] => k.toNat?.map .user
    | _ => none
  | 'n' :: rest =>
    match (String.ofList rest).splitOn "/" with
    | [_, ph, hold] =>
      let phase := match ph with | "p" => some 0 | "c" => some 1 | "r" => some 2 | "a" => some 3 | _ => none
      match phase, hold.toNat? with
      | some p, some h => some (.newProxy p h)
      | _, _ => none
    | _ => none
  | _ => none

def parseWdScript (s : String) : Option (List WdItem) :=
  if s = "-" then some [] else (s.splitOn ",").mapM parseWdItem

/-- the schedule of the session model that the scripted scenario produces: the first `sentN`
    registrations are written, read and run; a held one is overtaken by the end of the connection
    (silence ⇒ watchdog, or cut) at its hold point; then the read fails and `worker()` walks -/
def wdSchedule (items : List WdItem) (sentN : Nat) : List SessLive.Lbl := Id.run do
  let mut ls : List SessLive.Lbl := []
  let mut j := 0
  let mut cutDone := false
  for it in items do
    match it with
    | .newProxy ph hold =>
      if j < sentN then
        ls := ls ++ [.base (.send (.newProxy j)), .base (.read false)] ++ List.replicate ph (.base (.adv false))
        if hold > 0 ∧ !cutDone then
          ls := ls ++ [.base .cut]
          cutDone := true
        ls := ls ++ List.replicate (4 - ph) (.base (.adv false))
        j := j + 1
    | .ping => ls := ls ++ [.base (.send .other), .base (.read false)]
    | .cut => pure ()
    | .user k =>
      -- users of the proxy registered last: bridged to work connections, and staying (no `userEnd`: the peer is
      -- silent and keeps its sockets, the users keep theirs)
      if j > 0 then ls := ls ++ List.replicate k (.userConn (j - 1))
    | .closeLast =>
      if j > 0 then ls := ls ++ [.base (.send (.closeProxy (j - 1))), .base (.read false)]
  return ls ++ (if cutDone then [] else [.base .cut]) ++ [.base (.read true), .base .teardown]

/-- what was observed of the live traffic: users opened / bridged / still open, and (read from the server's tables 600 ms
    after the close) the run id still in the control manager / number of the session's names still in the proxy manager -/
structure WdLive where
  users : Nat
  bridged : Nat
  stillOpen : Option Nat
  inCtl : Option Nat
  inPx : Option Nat

def wdParseLive (lv tb : String) : Option WdLive :=
  match ((lv.drop 3).toString).splitOn "/", ((tb.drop 3).toString).splitOn "/" with
  | [k, b, o], [c, n] =>
    match k.toNat?, b.toNat? with
    | some k, some b => some ⟨k, b, o.toNat?, c.toNat?, n.toNat?⟩
    | _, _ => none
  | _, _ => none

/-- `j:resp:rereg` -/
def wdParsePx (s : String) : Option (List (String × String)) :=
  if s = "-" then some [] else
  (s.splitOn ",").mapM (fun it =>
    match it.splitOn ":" with
    | [_, r1, r2] => some (r1, r2)
    | _ => none)

def wdCheck (T : Nat) (scope : Bool) (items : List WdItem) (kind : String) (c : Nat) (sent : List (Nat × String))
    (pok perr : Nat) (px : List (String × String)) (live : Option WdLive) : Option String × Bool :=
  let Tus := T * 1000000
  let cfg := Watchdog.serverCfg (Int.ofNat T) 1000000
  -- valid = plugin chain + VerifyPing pass: with the HeartBeats scope the key must match
  let levs := wdEvents scope sent
  let evs : List (Nat × Watchdog.Ev) := Liveness.proj levs
  -- the property: only a verified Ping moves the clock (the strict policy), whatever else was sent
  let last := (Liveness.run {} cfg { last := 0 } levs).last
  -- the model: the policy the source has (the same, see C14.code_clock_strict)
  let mlast := (Liveness.run C14.codeServerPolicy cfg { last := 0 } levs).last
  let hasCut := items.any (fun i => match i with | .cut => true | _ => false)
  -- closed by the server: in (last+T, last+T+P+slack];  cut by the script: the watchdog was not yet due
  let propAt (last : Nat) :=
    if kind = "cut" then C14.detectHolds Tus 1000000 slackUs earlyTolUs last none c
    else C14.detectHolds Tus 1000000 slackUs earlyTolUs last (if kind = "closed" then some c else none) c
  let propT := propAt last
  -- a session that is over holds nothing: the fresh session's registrations are accepted
  -- (with the user connections of the scenario as state, and the `Close` the source has: C14.code_close_no_wait)
  let model := (SessLive.run (SessLive.init C14.codeCloseWaits C14.codeAsync) (wdSchedule items px.length)).base
  let modelFree := model.torn && decide (SessEnd.Released model)
  -- … and is gone from the server's tables, whatever user connections it was serving when it died
  let wantUsers := items.foldl (fun a i => match i with | .user k => a + k | _ => a) 0
  let propTab := match live with
    | some l => (l.inCtl.getD 0 == 0) && (l.inPx.getD 0 == 0)
    | none => true
  let propR := px.all (fun x => x.2 == "ok") && propTab
  -- pongs: one per ping that was answered before the close; errors only for invalid pings
  let nValid := (evs.filter (fun e => e.2 == Watchdog.Ev.beat true)).length
  let nInvalid := evs.length - nValid
  let held := items.any (fun i => match i with | .newProxy _ h => h > 0 | _ => false)
  let problem :=
    if kind = "open" ∧ propAt mlast then none       -- (a lenient policy in the source: the model follows it, the property fails)
    else if kind = "open" then some "expected-closed"
    else if kind = "cut" ∧ !hasCut then some "unexpected-cut"
    else if !propAt mlast then some s!"closed-in({mlast + Tus},{mlast + Tus + 1000000}+slack]"
    else if wantUsers > 0 ∧ live.isNone then some "live-traffic-not-reported"
    else if (match live with
             | some l => decide (px.length > 0) && (l.users != wantUsers || l.bridged != wantUsers)
             | none => false) then
      some s!"users-bridged={wantUsers}"
    else if modelFree ∧ !propR then some "torn-down-session-holds-nothing"
    else if !modelFree then some "model-not-released"
    else if pok > nValid ∨ perr > nInvalid then some s!"pongs≤{nValid}/{nInvalid}"
    else if !held ∧ pok + 1 < nValid then some s!"pongs-ok≥{nValid}-1"
    else none
  (problem, propT && propR)

def wdStep (st : WaitState) (id : String) (impl : String) : WaitState × Verdict :=
  let go (st' : WaitState) (T : Nat) (scope : Bool) (items : List WdItem) (k c sent pok perr px : String)
      (live : Option WdLive) : WaitState × Verdict :=
    match c.toNat?, parseSent (sent.drop 5).toString, (pok.drop 4).toString.toNat?, (perr.drop 5).toString.toNat?,
          wdParsePx (px.drop 3).toString with
    | some c, some sent, some pok, some perr, some px =>
      let (problem, prop) := wdCheck T scope items k c sent pok perr px live
      match problem with
      | none => (st', verdictOf impl impl (some prop))
      | some p => (st', verdictOf p impl (some prop))
    | _, _, _, _, _ => (st', .bad "wd-result")
  match st.wds.lookup id with
  | none => (st, verdictOf "unknown" impl)
  | some (T, scope, script) =>
    let st' := { st with wds := st.wds.filter (·.1 ≠ id) }
    match impl.splitOn " ", parseWdScript script with
    | [k, c, sent, pok, perr, px], some items => go st' T scope items k c sent pok perr px none
    | [k, c, sent, pok, perr, px, lv, tb], some items =>
      match wdParseLive lv tb with
      | some l => go st' T scope items k c sent pok perr px (some l)
      | none => (st', .bad "wd-live")
    | _, none => (st', .bad "wd-script")
    | _, _ =>
      if impl.startsWith "infra" then (st', .skip "infra") else (st', verdictOf "closed …" impl (some false))

/-! ### client watchdog + re-login loops -/

def msToNs (ms : Nat) : Nat := ms * 1000000

/-- what happened to the work connections of one scripted connection (ms after the login) -/
inductive WkEv
  | req (t : Nat)               -- ReqWorkConn written
  | rel (t : Nat) (w : Nat)     -- StartWorkConn written on / close of the w-th work connection that arrived
  | oth (t : Nat) (k : Nat)     -- NewProxyResp / NatHoleResp written (k = the kind the client's registerMsgHandlers gives it)

structure WorkRec where
  arrived : Nat                 -- NewWorkConn received while the control connection was up
  endMs   : Nat                 -- the control connection ended this long after the login
  evs     : List WkEv

/-- one connection record of the scripted server: kind, gap before the login (ms), time from the last
    good pong / error pong to the close (ms), gaps between pings (ms), registered-proxy snapshots -/
structure ConnRec where
  kind  : String
  gap   : Nat
  close : Nat := 0
  pings : List Nat := []
  snaps : List String := []
  work  : Option WorkRec := none

def parseWkEv (s : String) : Option WkEv :=
  match s.toList with
  | 'q' :: r => (String.ofList r).toNat?.map .req
  | 'w' :: r => (String.ofList r).toNat?.map (fun t => .oth t (C14.kindIn Gen.SessFacts.clientClockRefresh "NewProxyResp"))
  | 'h' :: r => (String.ofList r).toNat?.map (fun t => .oth t (C14.kindIn Gen.SessFacts.clientClockRefresh "NatHoleResp"))
  | c :: r =>
    if c = 's' ∨ c = 'z' then
      match (String.ofList r).splitOn "." with
      | [t, w] => match t.toNat?, w.toNat? with
        | some t, some w => some (.rel t w)
        | _, _ => none
      | _ => none
    else none
  | [] => none

def parseWork (s : String) : Option WorkRec :=
  match s.splitOn "/" with
  | [n, e, evs] =>
    match n.toNat?, e.toNat?, (if evs = "-" then some [] else (evs.splitOn ";").mapM parseWkEv) with
    | some n, some e, some evs => some ⟨n, e, evs⟩
    | _, _, _ => none
  | _ => none

def parseConn (s : String) : Option ConnRec :=
  let base (k g c pg sn : String) : Option ConnRec :=
    match g.toNat?, c.toNat? with
    | some g, some c =>
      let ps := if pg = "-" then some [] else (pg.splitOn "/").mapM String.toNat?
      ps.map (fun ps => ⟨k, g, c, ps, sn.splitOn ";", none⟩)
    | _, _ => none
  match s.splitOn ":" with
  | ["r", g] => g.toNat?.map (fun g => ⟨"r", g, 0, [], [], none⟩)
  | [k, g, c, pg, sn] => base k g c pg sn
  | [k, g, c, pg, sn, wk] => do
    let r ← base k g c pg sn
    let w ← parseWork wk
    pure { r with work := some w }
  | _ => none

/-- `0` | `a1+b2+…` → configurations (name = letter code, variant = the digits) -/
def cwParseSet (s : String) : Option (List Wrapper.Cfg) :=
  if s = "0" then some [] else
  (s.splitOn "+").mapM (fun e =>
    match e.toList with
    | c :: ds => (String.ofList ds).toNat?.map (fun v => ({ name := c.toNat, variant := v, health := false, runFails := false } : Wrapper.Cfg))
    | [] => none)

def cwInsertNV (x : Nat × Nat) : List (Nat × Nat) → List (Nat × Nat)
  | [] => [x]
  | y :: ys => if x.1 ≤ y.1 then x :: y :: ys else y :: cwInsertNV x ys

def cwRenderView (v : List (Nat × Nat)) : String :=
  if v.isEmpty then "0" else
  "+".intercalate ((v.foldr cwInsertNV []).map (fun x => s!"{Char.ofNat x.1}{x.2}"))

def cwParseView (s : String) : Option (List (Nat × Nat)) :=
  (cwParseSet s).map (fun l => l.map (fun c => (c.name, c.variant)))

/-- script item: connection kind + reloads (outage?, set) in script order -/
structure CwItem where
  kind : String
  arg : Nat := 0              -- p/b: pings answered; c: ms until the cut
  inConn : List (List Wrapper.Cfg) := []
  outage : List (List Wrapper.Cfg) := []

def parseCwItem (s : String) : Option CwItem :=
  match s.splitOn "@" with
  | [] => none
  | c :: rls => do
    let head := (c.splitOn "/").headD c      -- a work-connection schedule may follow: /q<ms>/s<ms>/z<ms>
    let mut it : CwItem := { kind := (head.take 1).toString, arg := ((head.drop 1).toString.toNat?).getD 0 }
    for r in rls do
      match r.splitOn ":" with
      | [w, set] =>
        let cf ← cwParseSet set
        if w.startsWith "o" then it := { it with outage := it.outage ++ [cf] }
        else it := { it with inConn := it.inConn ++ [cf] }
      | _ => none
    pure it

def cwCtlView (s : Rereg.St) : List (Nat × Nat) :=
  match s.ctl with
  | some c => Rereg.view c.pm
  | none => []

/-! #### the dispatcher in front of the client watchdog (Frp/Model/Dispatch.lean) -/

def dispInsert (x : Nat × Dispatch.Lbl) : List (Nat × Dispatch.Lbl) → List (Nat × Dispatch.Lbl)
  | [] => [x]
  | y :: ys => if x.1 < y.1 then x :: y :: ys else y :: dispInsert x ys

/-- the history of one scripted connection as the dispatcher model sees it: the Pongs the scripted
    server wrote (it answers a ping the moment it reads it: `item` says which pings it answers and
    how), the ReqWorkConn it wrote, the work connections it used or closed; `checks` adds a checker
    firing every second (the real phase is unknown: used only where the phase does not matter) -/
def dispHistory (item : CwItem) (pings : List Nat) (w : WorkRec) (checks : Bool) (reqBefore : Nat) :
    List (Nat × Dispatch.Lbl) := Id.run do
  let mut evs : List (Nat × Dispatch.Lbl) := []
  let mut t := 0
  let mut j := 0
  for g in pings do
    t := t + g
    if item.kind = "c" ∨ j < item.arg then evs := dispInsert (t, .send (.pong true)) evs
    else if item.kind = "b" ∧ j = item.arg then evs := dispInsert (t, .send (.pong false)) evs
    j := j + 1
  for e in w.evs do
    match e with
    | .req tq => if tq ≤ reqBefore then evs := dispInsert (tq, .send .reqWork) evs
    | .rel tr wi => evs := dispInsert (tr, .release wi) evs
    | .oth to k => evs := dispInsert (to, .send (.other k)) evs
  if checks then
    for q in List.range (w.endMs / 1000) do
      evs := dispInsert ((q + 1) * 1000, .check) evs
  return evs

/-- returns (problem?, late requests): the model with the code's registration mode against what the
    scripted server saw -/
def dispCheck (I T : Nat) (k : Nat) (item : CwItem) (r : ConnRec) (w : WorkRec) (carry : Nat) : Option String × Nat :=
  let cfg : Dispatch.Cfg := { wd := Watchdog.clientCfg (Int.ofNat I) (Int.ofNat T) 1000, asyncReq := C14.codeReqAsync,
                              policy := C14.codeClientPolicy }
  let all := Dispatch.erun cfg {} (dispHistory item r.pings w false w.endMs)
  let early := Dispatch.erun cfg {} (dispHistory item r.pings w false (w.endMs - 300))
  let timed := Dispatch.erun cfg {} (dispHistory item r.pings w true w.endMs)
  let late := all.nextW - early.nextW
  let problem : Option String :=
    -- every request that had 300 ms to be served opened a work connection, idle earlier ones or not
    if w.arrived < early.nextW ∨ w.arrived > all.nextW + carry then
      some s!"conn{k}:workconns∈[{early.nextW},{all.nextW + carry}]"
    -- lastPong of the model: the session ends only in (lastPong + T, lastPong + T + 1 s + slack]
    else if r.kind = "p" ∧ !C14.detectHolds (T * 1000) 1000 400 30 all.wd.last (some w.endMs) w.endMs then
      some s!"conn{k}:model-close∈({all.wd.last + T * 1000},{all.wd.last + T * 1000 + 1000}+slack]ms"
    else if r.kind = "c" ∧ timed.wd.closed.isSome then some s!"conn{k}:model-closed"
    else if r.kind = "p" ∧ item.kind = "c" ∧ timed.wd.closed.isNone then some s!"conn{k}:model-open"
    else none
  (problem, late)

def cwCheck (I T : Nat) (set0 : List Wrapper.Cfg) (script : List CwItem) (recs : List ConnRec) : Option String × Bool := Id.run do
  let mut s := Reconnect.init
  let mut rs : Rereg.St := (Rereg.step { early := C14.codeEarly, store := set0 } 0 .loopStart).1
  let mut problem : Option String := none
  let mut prop := true
  let mut k := 0
  let mut now := 0
  let mut prevEv : Option Reconnect.Ev := none
  let mut lateReqs := 0
  let slackMs := 400
  if recs.length ≠ script.length then problem := some s!"conns={recs.length}≠{script.length}"
  for r in recs do
    let item := script.getD k { kind := "?" }
    let okKind := r.kind = item.kind ∨ (item.kind = "b" ∧ r.kind = "p") ∨ (item.kind = "c" ∧ r.kind = "p")
    if ¬ okKind then problem := problem <|> some s!"conn{k}:kind"
    -- the wait before this login attempt
    match prevEv with
    | none =>
      if r.gap > 3000 then problem := problem <|> some "first-login-late"
    | some e =>
      let (s', out) := Reconnect.step s now e (msToNs r.gap)
      s := s'
      if ¬ (out.lo ≤ msToNs (r.gap + 2) ∧ msToNs r.gap ≤ out.hi + msToNs slackMs) then
        problem := problem <|> some s!"conn{k}:gap∈[{out.lo / 1000000},{out.hi / 1000000}+slack]ms"
      -- property: no tight loop after a refused login / bounded re-login delay
      if e = .refused ∧ msToNs (r.gap + 2) < Backoff.second then prop := false
      if msToNs r.gap > 20 * Backoff.second + msToNs slackMs then prop := false
      if e = .sessionEnded ∧ out.kind ≠ .first ∧ msToNs (r.gap + 2) < 200 * Backoff.milli then prop := false
    now := now + msToNs r.gap
    if r.kind = "r" then
      prevEv := some .refused
    else
      s := Reconnect.loginOk s
      prevEv := some .sessionEnded
      -- the login registers the configuration in force; every reload while connected re-syncs it
      rs := (Rereg.step rs 0 .loginRun).1
      rs := (Rereg.step rs 0 .loginSwap).1
      let mut expect : List (List Wrapper.Cfg × List (Nat × Nat)) := [(rs.store, cwCtlView rs)]
      for cf in item.inConn do
        rs := (Rereg.step rs 0 (.reload cf)).1
        expect := expect ++ [(rs.store, cwCtlView rs)]
      if r.snaps.length ≠ expect.length then problem := problem <|> some s!"conn{k}:snapshots={expect.length}"
      let mut q := 0
      for sn in r.snaps do
        if sn ≠ "~" then
          match expect[q]? with
          | some (store, v) =>
            if cwRenderView v ≠ sn then problem := problem <|> some s!"conn{k}:registered[{q}]={cwRenderView v}"
            match cwParseView sn with
            | some iv => if !C14.regHolds store iv then prop := false
            | none => problem := problem <|> some s!"conn{k}:snapshot-syntax"
          | none => pure ()
        q := q + 1
      rs := (Rereg.step rs 0 .sessionEnd).1
      rs := (Rereg.step rs 0 .loopStart).1
      -- pings: first at once, then every I seconds (never later than I + slack)
      let mut j := 0
      let mut prevLate := 0      -- a ping that was seen late makes the next measured gap shorter by as much
      for g in r.pings do
        if j = 0 then
          if g > slackMs then problem := problem <|> some s!"conn{k}:first-ping-late"
          prevLate := g
        else
          if g + prevLate + 5 < I * 1000 ∨ g > I * 1000 + slackMs then
            problem := problem <|> some s!"conn{k}:ping-gap"
          if g > I * 1000 + slackMs then prop := false
          prevLate := (g + prevLate) - I * 1000
        j := j + 1
      if r.kind = "p" then
        -- silent server: the client closes in (T, T + 1 s + slack] after the last pong
        let ok := C14.detectHolds (T * 1000) 1000 slackMs 30 0 (some r.close) r.close
        if !ok then
          problem := problem <|> some s!"conn{k}:close∈({T * 1000},{T * 1000 + 1000}+slack]ms"
          prop := false
      else if r.kind = "b" then
        -- pong with error: closed at once
        if r.close > slackMs then
          problem := problem <|> some s!"conn{k}:bad-pong-not-closing"
          prop := false
      -- idle / used work connections: the dispatcher model with the code's registration mode
      match r.work with
      | some w =>
        let (pb, late) := dispCheck I T k item r w lateReqs
        problem := problem <|> pb
        lateReqs := late
      | none => lateReqs := 0
      now := now + msToNs r.close
    for cf in item.outage do
      rs := (Rereg.step rs 0 (.reload cf)).1
    k := k + 1
  return (problem, prop)

def cwStep (st : WaitState) (id : String) (impl : String) : WaitState × Verdict :=
  match st.cws.lookup id with
  | none => (st, verdictOf "unknown" impl)
  | some (I, T, set0, script) =>
    let st' := { st with cws := st.cws.filter (·.1 ≠ id) }
    if impl.startsWith "infra" then (st', .skip "infra") else
    match cwParseSet set0, script.mapM parseCwItem with
    | some set0, some items =>
      match (impl.splitOn ",").mapM parseConn with
      | some recs =>
        let (problem, prop) := cwCheck I T set0 items recs
        match problem with
        | none => (st', verdictOf impl impl (some prop))
        | some p => (st', verdictOf p impl (some prop))
      | none => (st', verdictOf "connection-records" impl (some false))
    | _, _ => (st', .bad "cw-script")

/-! ### the heartbeat settings as written in a configuration text (Frp/Model/HbConf.lean, C14 part J) -/

/-- a written value, `-` = not written (= 0 in the structure the text is unmarshalled into) -/
def hbInt (s : String) : Option Int := if s = "-" then some 0 else s.toInt?

/-- transport.tcpMux as written; not written = the default (on) -/
def hbMux (s : String) : Bool := s ≠ "off"

def hbParseEff (s : String) : Option (Int × Int) :=
  match s.splitOn "/" with
  | [a, b] => match a.toInt?, b.toInt? with
    | some a, some b => some (a, b)
    | _, _ => none
  | _ => none

/-- the promise read off what the loader produced: the timeout (ms) the watchdog will apply, none = no check -/
def hbEffPromise (e : Int × Int) : Option Nat := if 0 < e.1 ∧ 0 < e.2 then some (e.2.toNat * 1000) else none

def hbCfgClient (st : WaitState) (mux i t impl : String) : WaitState × Verdict :=
  match hbInt i, hbInt t with
  | some i, some t =>
    let m := Watchdog.clientComplete (hbMux mux) i t
    let valid := HbConf.clientValid m.1 m.2
    -- (a timeout below the interval is refused: by the validation, or -- legacy ini -- already by the loader)
    if !valid ∧ impl = "loaderr" then (st, verdictOf impl impl (some true)) else
    let expect := s!"{m.1}/{m.2} {if valid then "ok" else "invalid"}"
    -- the property on the loader's own result: the watchdog it configures is the one the written values promise
    let prop := match impl.splitOn " " with
      | [e, v] => match hbParseEff e with
        | some e => hbEffPromise e == HbConf.clientPromise (hbMux mux) i t 1000 && ((v == "ok") == valid)
        | none => false
      | _ => false
    (st, verdictOf expect impl (some prop))
  | _, _ => (st, .bad "hbcfg")

def hbCfgServer (st : WaitState) (mux t impl : String) : WaitState × Verdict :=
  match hbInt t with
  | some t =>
    let m := Watchdog.serverComplete (hbMux mux) t
    let prop := match impl.splitOn " " with
      | [e, v] => match e.toInt? with
        | some e => (if 0 < e then some (e.toNat * 1000) else none) == HbConf.serverPromise (hbMux mux) t 1000 && v == "ok"
        | none => false
      | _ => false
    (st, verdictOf s!"{m} ok" impl (some prop))
  | none => (st, .bad "hbcfg")

def hbField (pre : String) (s : String) : Option String :=
  if s.startsWith pre then some (s.drop pre.length).toString else none

/-- a real frpc started from the text against a server that answers K pings and falls silent -/
def hbStep (st : WaitState) (id : String) (impl : String) : WaitState × Verdict :=
  match st.hbs.lookup id with
  | none => (st, verdictOf "unknown" impl)
  | some (mux, i, t, _k) =>
    let st' := { st with hbs := st.hbs.filter (·.1 ≠ id) }
    if impl.startsWith "infra" then (st', .skip "infra") else
    let m := Watchdog.clientComplete mux i t
    let valid := HbConf.clientValid m.1 m.2
    let promise := HbConf.clientPromise mux i t 1000
    let slackMs := 400
    if !valid ∧ impl = "loaderr" then (st', verdictOf impl impl (some true)) else
    match impl.splitOn " " with
    | [e, "invalid"] =>
      let effOk := (hbField "eff=" e).bind hbParseEff == some m
      (st', verdictOf (if valid then "started" else impl) impl (some (!valid && effOk)))
    | [e, pg, last, fin] =>
      match (hbField "eff=" e).bind hbParseEff, hbField "pg=" pg, (hbField "last=" last).bind String.toNat? with
      | some eff, some pg, some last =>
        let closed := (hbField "closed=" fin).bind String.toNat?
        let openAt := (hbField "open=" fin).bind String.toNat?
        match closed, openAt with
        | none, none => (st', .bad "hb-result")
        | _, _ =>
          let horizon := (closed <|> openAt).getD 0
          let gaps := if pg = "-" then some [] else (pg.splitOn "/").mapM String.toNat?
          -- the property on the implementation's own numbers: closed within (last + written timeout, + 1 s + slack], or
          -- (no check promised) not closed at all
          let propT := match promise with
            | some T => C14.detectHolds T 1000 slackMs 30 last closed horizon
            | none => closed.isNone
          let propE := hbEffPromise eff == promise
          let pingProblem : Option String := match gaps with
            | none => some "ping-gaps-syntax"
            | some gs =>
              if !Watchdog.clientPings m.1 then (if gs.isEmpty then none else some "pings-while-interval≤0")
              else match gs with
                | [] => some "no-ping"
                | g0 :: rest =>
                  -- first ping at once, then every `interval` (a ping seen late makes the next measured gap shorter)
                  let iv := m.1.toNat * 1000
                  let r := rest.foldl (fun (acc : Nat × Bool) g =>
                    (g + acc.1 - iv, acc.2 || decide (g + acc.1 + 5 < iv) || decide (g > iv + slackMs))) (g0, false)
                  if g0 > slackMs then some "first-ping-late"
                  else if r.2 then some "ping-gap"
                  else none
          let problem : Option String :=
            if !valid then some "invalid"
            else if eff ≠ m then some s!"eff={m.1}/{m.2}"
            else if !propT then
              (match promise with
               | some T => some s!"close∈({last + T},{last + T + 1000}+slack]ms"
               | none => some "no-liveness-close")
            else pingProblem
          match problem with
          | none => (st', verdictOf impl impl (some (propT && propE)))
          | some p => (st', verdictOf p impl (some (propT && propE)))
      | _, _, _ => (st', .bad "hb-result")
    | _ => (st', verdictOf "eff=… pg=… last=… closed=…" impl (some false))

def waitStep (st : WaitState) (tok : List String) (impl : String) : WaitState × Verdict :=
  match tok with
  | ["reset"] => ({ wds := st.wds, cws := st.cws, hbs := st.hbs }, verdictOf "-" impl)
  | "new" :: rest =>
    match (nats rest).bind optsOf with
    | some o => ({ st with o := o, have_ := true, lost := false, sts := [Backoff.init], prev := 0, shorts := [] }, verdictOf "ok" impl)
    | none => (st, .bad "new")
  | ["bo", p, e] => boStep st p (e = "1") impl
  | ["sleep", _] => (st, verdictOf "-" impl)
  | "until" :: rest =>
    match rest.reverse with
    | script :: optsRev =>
      match (nats optsRev.reverse).bind optsOf with
      | some o => untilStep st o script impl
      | none => (st, .bad "until")
    | [] => (st, .bad "until")
  | ["wdstart", id, T, scope, script] =>
    match T.toNat? with
    | some T => ({ st with wds := (id, T, scope = "1", script) :: st.wds }, verdictOf "started" impl)
    | none => (st, .bad "wdstart")
  | ["wdstart", id, T, scope, script, "mux"] =>
    -- tcpMux on: the same session model (work connections are streams; the model does not distinguish)
    match T.toNat? with
    | some T => ({ st with wds := (id, T, scope = "1", script) :: st.wds }, verdictOf "started" impl)
    | none => (st, .bad "wdstart")
  | ["wdwait", id] => wdStep st id impl
  | ["hbcfg", "c", _, mux, i, t] => hbCfgClient st mux i t impl
  | ["hbcfg", "s", _, mux, t] => hbCfgServer st mux t impl
  | ["hbstart", id, _, mux, i, t, k] =>
    match hbInt i, hbInt t, k.toNat? with
    | some i, some t, some k => ({ st with hbs := (id, hbMux mux, i, t, k) :: st.hbs }, verdictOf "started" impl)
    | _, _, _ => (st, .bad "hbstart")
  | ["hbwait", id] => hbStep st id impl
  | ["cwstart", id, I, T, set0, script] =>
    match I.toNat?, T.toNat? with
    | some I, some T => ({ st with cws := (id, I, T, set0, script.splitOn ",") :: st.cws }, verdictOf "started" impl)
    | _, _ => (st, .bad "cwstart")
  | ["cwwait", id] => cwStep st id impl
  | _ => (st, .bad "op")

def wait : Engine := { State := WaitState, init := {}, step := waitStep }

end Engines
end Frp
